"""C12 — segment length, surface area and volume are those of the frustum or sphere.

Tie (three parts):
  1. TRANSLATOR: `regenerate` runs translators/py2lean_geom.py on fw.REPO's current working tree; it re-emits
     lean/NmlVerif/Gen/Geom.lean from the bodies of Segment.length/volume/surface_area, Point3DWithDiam.distance_to,
     Cell.get_actual_proximal/get_segment_length/_surface_area/_volume in BOTH helper_methods.py and nml.py. The
     theorems of Props/C12*.lean (one module per translated function) are about those generated definitions, at α = ℝ
     and in the standard floating-point model, and include `generated = hand-written model` (Model/GeomHand.lean).
  2. NUMERIC CORRESPONDENCE of the same generated definitions at α = Float (Drivers/C12.lean) with the real library:
     (a) inputs on which every `**` of the Python code has an exactly representable result (Pythagorean-quadruple /
         axis-aligned geometries on a dyadic grid, dyadic diameters; verified per case with Fractions): BIT FOR BIT;
     (b) other inputs: within 1e-14 relative (pow(x,3) and x*x*x may differ by an ulp); inherited proximal points
         (no `**` involved) bit for bit always.
  3. DIRECTED SEARCH (run first, every run, seed-independent): a systematic grid — segments along each axis (+/-), in
     each coordinate plane, oblique, coincident; untapered / tapered / cone / zero diameters; children without proximal
     point at every fraction in {0, 1/4, 1/2, 3/4, 1} (+ 0.1, 0.625, -0.5, 1.5) on tapered/untapered parents whose own
     proximal point is given or inherited 1-2 levels up. On it the driver evaluates the GENERATED definitions and the
     HAND-WRITTEN model side by side (a changed translation shows up as a concrete input on which they differ), and the
     oracle evaluates the full property on the real code (which confirms, or not, that input). When an obligation is
     broken (translator gap / changed output breaking a proof / correspondence) and the grid or corpus has produced a
     failing input on the real code that is not a known finding, the run STOPS there (no 10x sweep); otherwise the
     random streams run in rounds (at most fw's multiplier, at most ~70 s quick / 600 s thorough) until one is found.
FAILING-INPUT SEARCH (not proof): the full property statement is evaluated on the real code against an independent
60-digit `decimal` evaluation of the closed forms (1e-12 relative) and through the metamorphic relations (swap,
exact translation, exact scaling k / k^2 / k^3), over magnitudes 1e-90..1e90, degenerate and nearly coincident cases,
cells whose segments inherit their proximal point (fractions in {0,.25,.5,.75,1}, arbitrary, and outside [0,1]), parent
chains up to 60 levels deep, negative diameters (schema-invalid, accepted by the classes).
"""
import json
import math
import os
import struct
import sys
from decimal import Decimal, getcontext
from fractions import Fraction

import fw

# one module per translated function: a changed function breaks only the obligations that depend on it
LEAN_PROPS = ["NmlVerif.Props.C12", "NmlVerif.Props.C12Volume", "NmlVerif.Props.C12Area", "NmlVerif.Props.C12Cell",
              "NmlVerif.Props.C12Getters"]
LEAN_THOROUGH = ["NmlVerif.Props.C12Integral"]
LEVEL = "proof"
RULE = ("streams: corpus; directed-grid (systematic, seed-independent: axis-aligned +/- along each axis, planar, oblique, "
        "coincident x 7 diameter patterns x 2 base points; cells: fraction in {0,.25,.5,.75,1,(.1,.625,-.5,1.5)} x tapered/"
        "untapered parent along x/y/z/oblique x parent's proximal own/inherited 1/inherited 2 levels x 5 child offsets); exact "
        "(Pythagorean-quadruple/axis-aligned segments on a dyadic grid x 2^e, dyadic diameters), general (random 53-bit "
        "coordinates/diameters, magnitudes 1e-90..1e90, end-point separation from 1 ulp to the full magnitude), degenerate "
        "(zero length with equal/unequal diameters, zero diameters, missing proximal), grid (30-bit mantissas: exact "
        "translations / scalings), extreme (1e150..1e300 and below 1e-150: overflow/underflow findings), cells (1-6 segments, "
        "chains of inherited proximal points, fraction_along in {0,.25,.5,.75,1}, random, or outside [0,1]; duplicate/missing "
        "ids, parent cycles), chain (8-60 segments each hanging on the previous one, shuffled document order), signed "
        "(negative diameters); each segment case is also swapped, translated (exactly, grid cases) and scaled (2^j always; "
        "3,5,7,10 on grid cases). A case is non-trivial when both end points exist and it is not an axis-aligned cylinder "
        "(oblique axis, or unequal radii, or coincident centres), or when it is a cell query whose proximal point is "
        "inherited; distinct = distinct canonical (hex-float) inputs")
TRUST = [
    "translators/py2lean_geom.py (AST shape -> Lean term; validated on every run by the Float correspondence, not verified), "
    "including its normaliser: a function whose translation equals that of the canonical shape (translators/py2lean_geom_canon.py) "
    "up to bound-variable names, unfolding of pure lets, `match c with |.error e => .error e |.ok v => .ok v` = c and the order of "
    "the arms of a match / negated if is emitted in the canonical text (expression texts and the order of guards, calls and "
    "tests are compared literally: no arithmetic is ever reordered); evidence.coverage.translator_normalised lists them",
    "Lean `Float` operations and CPython float operations are both IEEE-754 binary64 round-to-nearest (driver side compiled/interpreted by Lean)",
    "hand-written Model/Geom.lean: Cell.get_segment (first match, ValueError; characterised by get_segment_first_match / get_segment_missing) and the fuel recursion tying get_actual_proximal (fuel bound proved: actual_proximal_fuel_bound); tied to the code by correspondence (duplicate ids, unknown ids, cycles, chains 60 deep)",
    "value shapes: Point3DWithDiam/SegmentParent members are Python floats (the constructors cast ints / numeric strings with _cast(float, ..) — checked every run; a member ASSIGNED afterwards as int/str is not modelled); distal is always present (a missing distal raises AttributeError in the code, outside the property's quantifier)",
    "rounding theorems (length_rounding, volume_*_rounding, surface_area_*_rounding): the STANDARD MODEL of floating-point arithmetic is a hypothesis (Rounding.FloatModel: each + - * / sqrt returns x(1+d), |d| <= u; pi rounded; halving exact; no overflow/underflow); that CPython floats satisfy it in range with u = 2^-53 and that x**2, x**3, x**0.5 are as accurate as x*x, (x*x)*x, sqrt(x) is trusted and sampled (bit-for-bit / 1e-14 correspondence, 1e-12 oracle)",
]
ASSUMPTIONS = [
    "the clause 'to floating-point rounding' is proved for the SEGMENT-level formulas in the standard model of rounding (4 / 11 / 10 / 6 / 4 roundings for length / frustum volume / frustum area / sphere volume / sphere area, non-negative diameters) — not for IEEE arithmetic itself, and not for the interpolation of an inherited proximal point (backward-stable, subject to cancellation: sampled norm-wise, 1e-12 of the coordinate scale)",
    "overflow (coordinate differences beyond ~1e154 raise OverflowError) and underflow (differences below ~1e-162 give length 0) are outside the proved claim; they are reported as known findings C12:range:*",
    "surface_area is the LATERAL area of the frustum (no end discs), as the code computes it",
    "parent chains are shorter than the interpreter's recursion limit (model: fuel; fuel = number of segments suffices, proved)",
    "negative diameters and fraction_along outside [0,1] are schema-invalid but accepted by the classes: modelled, generated and compared; non-negativity is claimed exactly under the hypotheses of volume_nonneg / surface_area_nonneg",
]

getcontext().prec = 60
PI = Decimal("3.14159265358979323846264338327950288419716939937510582097494459230781640628620899")
TOL = Decimal("1e-12")
QS = (("length", "length"), ("volume", "volume"), ("area", "surface_area"))


# ------------------------------------------------------------------ float helpers
def f2b(x):
    return struct.unpack("<Q", struct.pack("<d", float(x)))[0]


def b2f(b):
    return struct.unpack("<d", struct.pack("<Q", b))[0]


def hx(v):
    return None if v is None else [float(x).hex() for x in v]


def unhx(v):
    return None if v is None else [float.fromhex(x) for x in v]


def representable(fr):
    """is the rational `fr` exactly a finite double?"""
    try:
        return Fraction(float(fr)) == fr
    except OverflowError:
        return False


def pow_exact(p, d):
    """every `**` the Python code performs on (p, d) has an exactly representable result (then pow == product chain)"""
    F = Fraction
    diffs = [F(a) - F(b) for a, b in zip(p[:3], d[:3])]
    if not all(representable(x) for x in diffs):
        return False
    sq = [x * x for x in diffs]
    if not all(representable(x) for x in sq):
        return False
    s1 = sq[0] + sq[1]
    s = s1 + sq[2]
    if not (representable(s1) and representable(s)):
        return False
    fs = float(s)
    L = math.sqrt(fs)
    if F(L) * F(L) != s:
        return False
    if fs ** 0.5 != L:
        return False
    r1, r2 = F(p[3]) / 2, F(d[3]) / 2
    for r in (r1, r2, r1 - r2):
        if not representable(r) or not representable(r * r):
            return False
    if not representable(r1 ** 3) or not representable(F(L) ** 2):
        return False
    return True


# ------------------------------------------------------------------ real library
def attempt(fn, point=False):
    try:
        v = fn()
        if point:
            v = [v.x, v.y, v.z, v.diameter]
            if all(isinstance(x, (int, float)) and not isinstance(x, bool) for x in v):
                return {"ok": [float(x) for x in v]}
        elif isinstance(v, (int, float)) and not isinstance(v, bool):
            return {"ok": float(v)}
        return {"err": ["BadResult", "not a float: %.60r" % (v,)]}
    except RecursionError:
        return {"err": ["RecursionError", ""]}
    except Exception as e:  # noqa
        return {"err": [type(e).__name__, str(e)]}


def mkpt(v):
    import neuroml
    return neuroml.Point3DWithDiam(x=v[0], y=v[1], z=v[2], diameter=v[3])


def real_seg(p, d):
    import neuroml
    s = neuroml.Segment(id=0, proximal=mkpt(p) if p is not None else None, distal=mkpt(d))
    out = {}
    for k, a in QS:
        out[k] = attempt(lambda a=a: getattr(s, a))
    if p is not None:
        out["dist_pd"] = attempt(lambda: s.proximal.distance_to(s.distal))
        out["dist_dp"] = attempt(lambda: s.distal.distance_to(s.proximal))
    return out


def build_cell(segs):
    import neuroml
    cell = neuroml.Cell(id="c")
    cell.morphology = neuroml.Morphology(id="m")
    for (sid, p, d, par) in segs:
        s = neuroml.Segment(id=sid, proximal=mkpt(p) if p is not None else None, distal=mkpt(d))
        if par is not None:
            s.parent = neuroml.SegmentParent(segments=par[0], fraction_along=par[1])
        cell.morphology.segments.append(s)
    return cell


def real_cell(segs, q):
    cell = build_cell(segs)
    lim = sys.getrecursionlimit()
    sys.setrecursionlimit(300)
    try:
        out = {}
        out["prox"] = attempt(lambda: cell.get_actual_proximal(q), point=True)
        out["length"] = attempt(lambda: cell.get_segment_length(q))
        out["volume"] = attempt(lambda: cell.get_segment_volume(q))
        out["area"] = attempt(lambda: cell.get_segment_surface_area(q))
        return out
    finally:
        sys.setrecursionlimit(lim)


# ------------------------------------------------------------------ model (Lean driver, generated definitions at Float)
def seg_line(p, d):
    return json.dumps({"op": "seg", "p": None if p is None else [f2b(x) for x in p], "d": [f2b(x) for x in d]})


def cell_line(segs, q):
    js = []
    for (sid, p, d, par) in segs:
        js.append([sid, None if p is None else [f2b(x) for x in p], [f2b(x) for x in d],
                   None if par is None else [par[0], f2b(par[1])]])
    return json.dumps({"op": "cell", "segs": js, "q": q, "fuel": len(segs) + 2})


def same(real, model, exact):
    """compare one result; returns None when they agree, else a short reason"""
    if "err" in model and model["err"][0] == "Untranslated":
        return None          # the translator refused this function (reported as a gap): there is no model to compare with
    if "err" in real or "err" in model:
        if "err" in real and "err" in model:
            rk, rm = real["err"]
            mk, mm = model["err"]
            if rk == mk and (rm.startswith(mm) or rk == "RecursionError"):
                return None
            return "different exception"
        return "one side raises"
    rv, mv = real["ok"], model["ok"]
    if isinstance(rv, list):
        for a, b in zip(rv, mv):
            if f2b(a) != b and not (a == 0.0 and b2f(b) == 0.0):
                return "inherited point differs in bits"
        return None
    if f2b(rv) == mv:
        return None
    if exact:
        return "bits differ on an exact input"
    m = b2f(mv)
    if rv == m:
        return None
    if math.isfinite(rv) and math.isfinite(m) and abs(rv - m) <= 1e-14 * max(abs(rv), abs(m)):
        return None
    return "beyond 1e-14 relative"


def canon_res(r):
    if "err" in r:
        return {"err": [r["err"][0], r["err"][1][:60]]}
    v = r["ok"]
    return {"ok": [float(x).hex() for x in v] if isinstance(v, list) else float(v).hex()}


def canon_model(r):
    if "err" in r:
        return r
    v = r["ok"]
    return {"ok": [b2f(x).hex() for x in v] if isinstance(v, list) else b2f(v).hex()}


# ------------------------------------------------------------------ oracle: 60-digit decimal closed forms
def D(x):
    return Decimal(float(x))


def spec_seg(p, d):
    """values the property assigns to a segment with both end points (exact inputs, 60 digits)"""
    dx = [D(a) - D(b) for a, b in zip(p[:3], d[:3])]
    L = (dx[0] * dx[0] + dx[1] * dx[1] + dx[2] * dx[2]).sqrt()
    r1, r2 = D(p[3]) / 2, D(d[3]) / 2
    coincident = all(x == 0 for x in dx)
    if coincident and r1 == r2:
        return {"length": L, "volume": Decimal(4) / 3 * PI * r1 ** 3, "area": 4 * PI * r1 ** 2, "branch": "sphere"}
    return {"length": L, "volume": PI / 3 * L * (r1 * r1 + r1 * r2 + r2 * r2),
            "area": PI * (r1 + r2) * ((r1 - r2) ** 2 + L * L).sqrt(),
            "branch": "degenerate-frustum" if coincident else "frustum"}


def close(got, exp, tol=TOL):
    if not isinstance(got, float) or not math.isfinite(got):
        return False
    g = Decimal(got)
    if exp == 0:
        return g == 0
    return abs(g - exp) <= tol * abs(exp)


def range_class(p, d):
    """in-range: exact length 0 or within [1e-110, 1e100]; non-zero diameters within [1e-100, 1e100]; then no square,
    cube or product of the formulas overflows or becomes subnormal"""
    diffs = [Fraction(a) - Fraction(b) for a, b in zip(p[:3], d[:3])]
    l2 = sum(x * x for x in diffs)
    big = Fraction(10) ** 100
    if l2 > big * big or any(abs(x) > big for x in (Fraction(p[3]), Fraction(d[3]))):
        return "overflow"
    if 0 < l2 < Fraction(1, 10 ** 220) or any(0 < abs(Fraction(x)) < Fraction(1, 10 ** 100) for x in (p[3], d[3])):
        return "underflow"
    return "in"


def nonneg_claimed(k, p, d, branch):
    """inputs for which the property's 'non-negative' is claimed (= hypotheses of length_nonneg / volume_nonneg /
    surface_area_nonneg in Props/C12.lean): length always; volume unless it is the sphere of a NEGATIVE diameter
    (r1^2+r1*r2+r2^2 >= 0 whatever the signs); area when it is a sphere or the diameters sum to >= 0.
    Negative diameters are schema-invalid (DoubleGreaterThanZero) but accepted by the classes."""
    if k == "length":
        return True
    if k == "volume":
        return branch != "sphere" or p[3] >= 0
    return branch == "sphere" or p[3] + d[3] >= 0


def oracle_seg(ctx, p, d, real, case, prefix=""):
    """full property on one segment with both end points (real = results of the real code)"""
    spec = spec_seg(p, d)
    rc = range_class(p, d)
    for k, _ in QS:
        r = real[k]
        if "err" in r:
            if rc != "in":
                ctx.fail("C12:range:" + rc, "%s raises %s outside the floating-point range" % (k, r["err"][0]), case)
            elif spec["branch"] == "degenerate-frustum" and k != "length" and r["err"][0] == "Exception":
                ctx.fail("C12:coincident-unequal-diameters:raises",
                         "%s raises for coincident centres with different diameters" % k, case)
            else:
                ctx.fail("C12:%s%s:raises" % (prefix, k), "%s raises %s: %s" % (k, r["err"][0], r["err"][1][:80]), case)
            continue
        v = r["ok"]
        if not close(v, spec[k]):
            if rc != "in":
                ctx.fail("C12:range:" + rc, "%s is off by more than rounding outside the floating-point range" % k, case)
            else:
                ctx.fail("C12:%s%s:value" % (prefix, k), "%s = %r, closed form (%s) = %s" % (k, v, spec["branch"], +spec[k]),
                         dict(case, got=float(v).hex() if isinstance(v, float) else repr(v), expected=str(spec[k])[:40]))
        elif nonneg_claimed(k, p, d, spec["branch"]) and not v >= 0:
            ctx.fail("C12:%s%s:negative" % (prefix, k), "%s is negative" % k, case)
    if rc == "in":
        for k in ("dist_pd", "dist_dp"):          # Point3DWithDiam.distance_to, both directions
            if k in real and not ("ok" in real[k] and close(real[k]["ok"], spec["length"])):
                ctx.fail("C12:distance_to:value", "distance_to is not the Euclidean distance: %s vs %s" % (canon_res(real[k]), +spec["length"]), case)
    return spec


def rel_same(a, b):
    """two results of the real code that the property says are equal (to rounding)"""
    if "err" in a or "err" in b:
        return "err" in a and "err" in b and a["err"][0] == b["err"][0]
    x, y = a["ok"], b["ok"]
    if x == y:
        return True
    if not (math.isfinite(x) and math.isfinite(y)):
        return False
    return abs(Decimal(x) - Decimal(y)) <= TOL * max(abs(Decimal(x)), abs(Decimal(y)))


def rel_scaled(a, b, factor):
    """b = factor * a to rounding (factor exact rational)"""
    if "err" in a or "err" in b:
        return "err" in a and "err" in b and a["err"][0] == b["err"][0]
    x, y = a["ok"], b["ok"]
    if not (math.isfinite(x) and math.isfinite(y)):
        return False
    ex = Decimal(x) * (Decimal(factor.numerator) / Decimal(factor.denominator))
    if ex == 0:
        return y == 0
    return abs(Decimal(y) - ex) <= TOL * abs(ex)


def exact_sum(vals, t):
    return all(representable(Fraction(v) + Fraction(t)) for v in vals)


def exact_prod(vals, k):
    return all(representable(Fraction(v) * k) for v in vals)


def metamorphic(ctx, p, d, real, case, trans=None, ks=()):
    rc = range_class(p, d)
    if rc != "in":
        return
    # swap
    sw = real_seg(d, p)
    ctx.count("meta:swap")
    for k, _ in QS:
        if not rel_same(real[k], sw[k]):
            ctx.fail("C12:swap:" + k, "%s changes when the end points are swapped" % k, dict(case, swapped=canon_res(sw[k])))
    # translation (only when exact in floating point)
    if trans is not None:
        t = trans
        if all(exact_sum([p[i], d[i]], t[i]) for i in range(3)):
            p2 = [p[0] + t[0], p[1] + t[1], p[2] + t[2], p[3]]
            d2 = [d[0] + t[0], d[1] + t[1], d[2] + t[2], d[3]]
            tr = real_seg(p2, d2)
            ctx.count("meta:translate")
            for k, _ in QS:
                if not rel_same(real[k], tr[k]):
                    ctx.fail("C12:translate:" + k, "%s changes under an (exact) translation" % k,
                             dict(case, translation=hx(t), translated=canon_res(tr[k])))
        else:
            ctx.count("meta:translate-skipped-inexact")
    # scaling
    for kf in ks:
        kq = Fraction(kf)
        if not (exact_prod(p, kq) and exact_prod(d, kq)):
            ctx.count("meta:scale-skipped-inexact")
            continue
        p2, d2 = [x * kf for x in p], [x * kf for x in d]
        if range_class(p2, d2) != "in":
            continue
        sc = real_seg(p2, d2)
        ctx.count("meta:scale")
        for (k, _), e in zip(QS, (1, 3, 2)):
            if not rel_scaled(real[k], sc[k], kq ** e):
                ctx.fail("C12:scale:" + k, "%s does not scale with k^%d under uniform scaling" % (k, e),
                         dict(case, k=float(kf).hex(), scaled=canon_res(sc[k])))


# ------------------------------------------------------------------ cell oracle
def spec_actual_proximal(segs, q, depth=0):
    """(point as 4 Decimals, per-coordinate scale) by the parent/fraction_along definition; None when undefined"""
    if depth > len(segs) + 1:
        return None
    seg = next((s for s in segs if s[0] == q), None)
    if seg is None:
        return None
    sid, p, d, par = seg
    if p is not None:
        return [D(x) for x in p], [abs(D(x)) for x in p]
    if par is None:
        return None
    parent = next((s for s in segs if s[0] == par[0]), None)
    if parent is None:
        return None
    pd = [D(x) for x in parent[2]]
    f = D(par[1])
    if f == 1:
        return pd, [abs(x) for x in pd]
    r = spec_actual_proximal(segs, par[0], depth + 1)
    if r is None:
        return None
    pp, sc = r
    pt = [a + f * (b - a) for a, b in zip(pp, pd)]
    return pt, [max(s, abs(b)) for s, b in zip(sc, pd)]


def oracle_cell(ctx, segs, q, real, case):
    seg = next((s for s in segs if s[0] == q), None)
    if seg is None:
        return
    r = spec_actual_proximal(segs, q)
    if r is None:
        return                                     # no proximal point defined for this query: nothing claimed
    pt, scale = r
    rp = real["prox"]
    if "err" in rp:
        ctx.fail("C12:cell:actual-proximal:raises", "get_actual_proximal raises %s" % rp["err"][0], case)
        return
    got = rp["ok"]
    for i, (g, e, s) in enumerate(zip(got, pt, scale)):
        if not (isinstance(g, float) and math.isfinite(g)) or abs(Decimal(g) - e) > TOL * s:
            ctx.fail("C12:cell:actual-proximal:value", "inherited proximal point, member %d: %r vs %s" % (i, g, +e), case)
            return
    # the getters = segment formulas applied to (actual proximal as the code computed it, distal)
    d = seg[2]
    if range_class(got, d) != "in":
        return
    oracle_seg(ctx, got, d, real, case, prefix="cell:")
    # cell_getters_any_number_type: in floating point the two levels are the SAME computation -> bit-for-bit equal
    direct = real_seg(got, d)
    for k, _ in QS:
        a, b = real[k], direct[k]
        same_bits = ("err" in a and "err" in b and a["err"][0] == b["err"][0]) or \
                    ("ok" in a and "ok" in b and (f2b(a["ok"]) == f2b(b["ok"]) or a["ok"] == b["ok"]))
        if not same_bits:
            ctx.fail("C12:cell:%s:differs-from-segment" % k,
                     "cell-level getter differs (in bits) from the segment-level property on (actual proximal, distal)",
                     dict(case, cell=canon_res(a), segment=canon_res(b)))


# ------------------------------------------------------------------ generators
def pyth(rng):
    while True:
        m, n, p, q = (rng.randint(-9, 9) for _ in range(4))
        a, b, c = m * m + n * n - p * p - q * q, 2 * (m * q + n * p), 2 * (n * q - m * p)
        if (a, b, c) != (0, 0, 0):
            v = [a, b, c]
            rng.shuffle(v)
            return v


def gen_exact(rng):
    e = rng.randint(-40, 40)
    u = math.ldexp(1.0, e)
    kind = rng.random()
    if kind < 0.6:
        delta = pyth(rng)
    elif kind < 0.85:
        delta = [0, 0, 0]
        delta[rng.randrange(3)] = rng.randint(-2 ** 20, 2 ** 20) or 1
    elif kind < 0.93:
        delta = [0, 0, 0]
    else:
        delta = pyth(rng)
    o = [rng.randint(-2 ** 20, 2 ** 20) for _ in range(3)]
    e2 = rng.randint(-30, 30)
    u2 = math.ldexp(1.0, e2)
    d1 = rng.randint(0, 1024)
    d2 = d1 if rng.random() < 0.35 else rng.randint(0, 1024)
    p = [o[0] * u, o[1] * u, o[2] * u, d1 * u2]
    d = [(o[0] + delta[0]) * u, (o[1] + delta[1]) * u, (o[2] + delta[2]) * u, d2 * u2]
    if kind >= 0.93 and rng.random() < 0.5:
        return {"kind": "seg", "p": None, "d": hx(d)}
    return {"kind": "seg", "p": hx(p), "d": hx(d), "ks": [pow2(rng)]}


def pow2(rng):
    return math.ldexp(1.0, rng.randint(-20, 20))


def mant(rng):
    return rng.choice((-1, 1)) * rng.uniform(1, 10)


def gen_general(rng, lo=-90, hi=90):
    m = rng.uniform(lo, hi)
    s = rng.choice((0, 0, 0, 0, 1, 3, 6, 9, 12, 14, 15, 16))
    p = [mant(rng) * 10 ** m for _ in range(3)]
    d = []
    for i in range(3):
        r = rng.random()
        if r < 0.12:
            d.append(p[i])
        else:
            d.append(p[i] + mant(rng) * 10 ** (m - s))
    md = rng.uniform(lo, hi)
    d1 = abs(mant(rng)) * 10 ** md
    r = rng.random()
    d2 = d1 if r < 0.2 else (abs(mant(rng)) * 10 ** md if r < 0.8 else abs(mant(rng)) * 10 ** rng.uniform(lo, hi))
    if rng.random() < 0.04:
        d1 = 0.0
    if rng.random() < 0.04:
        d2 = 0.0
    return {"kind": "seg", "p": hx(p + [d1]), "d": hx(d + [d2]), "ks": [pow2(rng)]}


def gen_grid(rng):
    """30-bit mantissas on a common dyadic grid: translations and small-integer scalings are exact"""
    e = rng.randint(-200, 200)
    u = math.ldexp(1.0, e)
    near = rng.random() < 0.3
    p = [rng.randint(-2 ** 30, 2 ** 30) for _ in range(3)]
    d = [x + rng.randint(-64, 64) if near else rng.randint(-2 ** 30, 2 ** 30) for x in p]
    e2 = rng.randint(-200, 200)
    u2 = math.ldexp(1.0, e2)
    d1, d2 = rng.randint(0, 2 ** 30), rng.randint(0, 2 ** 30)
    if rng.random() < 0.2:
        d2 = d1
    t = [rng.randint(-2 ** 40, 2 ** 40) * u for _ in range(3)]
    return {"kind": "seg", "p": hx([x * u for x in p] + [d1 * u2]), "d": hx([x * u for x in d] + [d2 * u2]),
            "trans": hx(t), "ks": [pow2(rng)] + [3.0, 5.0, 7.0, 10.0][rng.randrange(4):][:2]}


def gen_extreme(rng):
    if rng.random() < 0.5:
        return gen_general(rng, 150, 300)
    return gen_general(rng, -300, -150)


def gen_signed(rng):
    """schema-invalid but accepted: negative diameters (moderate magnitudes)"""
    c = gen_general(rng, -3, 3)
    p, d = unhx(c["p"]), unhx(c["d"])
    r = rng.random()
    if r < 0.4:
        p[3] = -p[3]
    elif r < 0.8:
        d[3] = -d[3]
    else:
        p[3], d[3] = -p[3], -d[3]
    if rng.random() < 0.25:                      # coincident centres: sphere of a negative diameter / refusal
        d[:3] = p[:3]
        if rng.random() < 0.6:
            d[3] = p[3]
    if rng.random() < 0.15:                      # r1 + r2 = 0
        d[3] = -p[3]
    return {"kind": "seg", "p": hx(p), "d": hx(d), "ks": [pow2(rng)]}


FRACTS = [0.0, 0.25, 0.5, 1.0]
GRID_FRACTS = [0.0, 0.25, 0.5, 0.75, 1.0]


def frac_prox(segs, sid, depth=0):
    """exact (Fraction) actual proximal point of segment `sid` among `segs`, or None"""
    seg = next((s for s in segs if s[0] == sid), None)
    if seg is None or depth > len(segs) + 1:
        return None
    if seg[1] is not None:
        return [Fraction(x) for x in seg[1]]
    if seg[3] is None:
        return None
    parent = next((s for s in segs if s[0] == seg[3][0]), None)
    if parent is None:
        return None
    pd, f = [Fraction(x) for x in parent[2]], Fraction(seg[3][1])
    if f == 1:
        return pd
    pp = frac_prox(segs, seg[3][0], depth + 1)
    return None if pp is None else [a + f * (b - a) for a, b in zip(pp, pd)]


def gen_cell(rng, exact):
    n = rng.randint(1, 6)
    e = rng.randint(-20, 20)
    u = math.ldexp(1.0, e)

    def pt():
        if exact:
            return [rng.randint(-2 ** 12, 2 ** 12) * u for _ in range(3)] + [rng.randint(0, 64) * u / 8]
        m = 10 ** rng.uniform(-3, 3)
        return [mant(rng) * m for _ in range(3)] + [abs(mant(rng)) * 10 ** rng.uniform(-2, 2)]

    def exact_distal(segs, seg):
        """distal = actual proximal + Pythagorean-quadruple (or axis-aligned) offset: all `**` results exact"""
        pr = frac_prox(segs + [seg], seg[0])
        if pr is None:
            return
        delta = pyth(rng) if rng.random() < 0.8 else [rng.randint(1, 4096), 0, 0]
        d = [float(pr[i] + Fraction(delta[i]) * Fraction(u)) for i in range(3)]
        r = rng.random()
        seg[2] = d + [float(pr[3]) if r < 0.3 else seg[2][3]]
    ids = rng.sample(range(0, 12), n)
    segs = []
    for i, sid in enumerate(ids):
        d = pt()
        if i == 0:
            seg = [sid, pt() if rng.random() < 0.93 else None, d, None]
            if exact:
                exact_distal(segs, seg)
            segs.append(seg)
            continue
        pid = rng.choice(ids[:i]) if rng.random() < 0.95 else rng.choice(ids + [99])
        r = rng.random()
        f = rng.choice(GRID_FRACTS) if (exact or r < 0.5) else (rng.random() if r < 0.92 else rng.uniform(-1.0, 2.0))
        own = rng.random() < 0.35
        p = pt() if own else None
        seg = [sid, p, d, [pid, f]]
        if exact and rng.random() < 0.9:
            exact_distal(segs, seg)
        if rng.random() < 0.08:                      # zero-length child at the attachment point
            parent = next((s for s in segs if s[0] == pid), None)
            if parent is not None and f == 1.0 and p is None:
                seg[2] = list(parent[2][:3]) + [parent[2][3] if rng.random() < 0.5 else d[3]]
        segs.append(seg)
    if rng.random() < 0.04 and n >= 2:
        segs[0][1] = None
        segs[0][3] = [segs[-1][0], rng.choice(FRACTS)]          # parent cycle
    if rng.random() < 0.04 and n >= 2:
        segs[-1][0] = segs[0][0]                                  # duplicate id
    q = rng.choice([s[0] for s in segs]) if rng.random() < 0.95 else 77
    return {"kind": "cell", "segs": [[s[0], hx(s[1]), hx(s[2]), None if s[3] is None else [s[3][0], float(s[3][1]).hex()]]
                                     for s in segs], "q": q}


def _case_cell(segs, q):
    return {"kind": "cell", "q": q,
            "segs": [[s[0], hx(s[1]), hx(s[2]), None if s[3] is None else [s[3][0], float(s[3][1]).hex()]] for s in segs]}


def gen_chain(rng):
    """deep parent chains: 8..60 segments, each hanging on the previous one, most without a proximal point of their
    own (so get_actual_proximal recurses to arbitrary depth), shuffled document order, non-contiguous ids, fractions
    from {0,.25,.5,.75,1}, random in (0,1) and (schema-invalid) outside [0,1]"""
    n = rng.randint(8, 60)
    ids = rng.sample(range(0, 4 * n), n)
    u = math.ldexp(1.0, rng.randint(-6, 6))
    dy = rng.random() < 0.5

    def pt():
        if dy:
            return [rng.randint(-2 ** 10, 2 ** 10) * u for _ in range(3)] + [rng.randint(1, 64) * u / 8]
        m = 10 ** rng.uniform(-2, 2)
        return [mant(rng) * m for _ in range(3)] + [abs(mant(rng)) * 10 ** rng.uniform(-1, 1)]
    segs = []
    for i, sid in enumerate(ids):
        if i == 0:
            segs.append([sid, pt(), pt(), None])
            continue
        r = rng.random()
        f = rng.choice(GRID_FRACTS) if r < 0.5 else (rng.random() if r < 0.85 else rng.uniform(-1.0, 2.0))
        if dy and r >= 0.5:
            f = rng.randint(-8, 16) / 8.0
        own = rng.random() < 0.12
        segs.append([sid, pt() if own else None, pt(), [ids[i - 1], f]])
    order = list(segs)
    rng.shuffle(order)
    q = ids[-1] if rng.random() < 0.6 else rng.choice(ids)
    return _case_cell(order, q)


def grid_cases():
    """DIRECTED SEARCH: a small systematic, seed-independent grid. Segments: every axis direction (+/-), every
    coordinate plane, oblique (Pythagorean and not), coincident; untapered / tapered both ways / cone / zero diameters;
    with and without a proximal point; two base points. Cells: a child without proximal point hanging at each
    fraction in {0, 1/4, 1/2, 3/4, 1} on a tapered or untapered parent lying along x, y, z or obliquely, the parent
    having its own proximal point or inheriting it (1 and 2 levels up); child distal placed exactly on each axis, obliquely,
    or at the inherited point itself. All values are small dyadic numbers, so the arithmetic of the code is (mostly)
    exact and any disagreement is a wrong formula, not rounding."""
    cases = []
    dirs = [(7.5, 0, 0), (-7.5, 0, 0), (0, 7.5, 0), (0, -7.5, 0), (0, 0, 7.5), (0, 0, -7.5),
            (3, 4, 0), (3, 0, -4), (0, -3, 4), (1, 2, 2), (-2, 3, 6), (1, 1, 1), (0.5, -0.25, 8), (0, 0, 0)]
    diams = [(2.0, 2.0), (2.0, 1.0), (1.0, 2.0), (0.0, 2.0), (2.0, 0.0), (0.0, 0.0), (3.0, 3.0)]
    for base in ((0.0, 0.0, 0.0), (3.0, -2.0, 5.0)):
        for dv in dirs:
            for (d1, d2) in diams:
                p = list(base) + [d1]
                d = [base[0] + dv[0], base[1] + dv[1], base[2] + dv[2], d2]
                cases.append({"kind": "seg", "p": hx(p), "d": hx(d), "ks": [0.5, 3.0], "trans": hx([16.0, -8.0, 0.5])})
        cases.append({"kind": "seg", "p": None, "d": hx(list(base) + [1.0])})
    pdirs = [(8, 0, 0), (0, 8, 0), (0, 0, 8), (8, 4, -4)]
    deltas = [(3, 0, 0), (0, 3, 0), (0, 0, 3), (2, 3, 6), (0, 0, 0)]
    for taper in ((4.0, 1.0), (2.0, 2.0)):
        for pv in pdirs:
            for depth in (0, 1, 2):
                for f in GRID_FRACTS + ([0.1, 0.625, -0.5, 1.5] if pv == pdirs[3] else []):   # + non-dyadic, 3-bit, schema-invalid
                    for di, dl in enumerate(deltas):
                        pp = [1.0, 2.0, -3.0, taper[0]]
                        pd = [pp[0] + pv[0], pp[1] + pv[1], pp[2] + pv[2], taper[1]]
                        if depth == 0:
                            segs = [[5, pp, pd, None]]
                        elif depth == 1:      # the parent inherits its proximal: the root's distal point (fraction 1)
                            segs = [[9, [pp[0] - 4, pp[1], pp[2], 6.0], pp, None], [5, None, pd, [9, 1.0]]]
                        else:                 # ... half-way along a tapered grandparent that itself inherits (fraction 0)
                            g0 = [pp[0] - 2, pp[1] - 4, pp[2] + 6, 2 * taper[0] - 2.0]
                            g1 = [pp[0] + 2, pp[1] + 4, pp[2] - 6, 2.0]          # midpoint = pp with diameter taper[0]
                            segs = [[11, [g0[0] - 1, g0[1], g0[2], 5.0], [g0[0], g0[1], g0[2], 9.0], None],
                                    [3, g0, [g0[0], g0[1] + 2, g0[2], 7.0], [11, 1.0]],
                                    [9, None, g1, [3, 0.0]], [5, None, pd, [9, 0.5]]]
                        child = [2, None, [0.0, 0.0, 0.0, 0.75], [5, f]]
                        pr = frac_prox(segs + [child], 2)
                        child[2] = [float(pr[i] + Fraction(dl[i])) for i in range(3)] + \
                                   [float(pr[3]) if di % 2 == 0 else 0.75]
                        order = [child] + segs if (di + depth) % 2 else segs + [child]
                        cases.append(_case_cell(order, 2))
    return cases


H1 = (1.0).hex()


def _seg(p, d, **kw):
    return dict({"kind": "seg", "p": hx(p), "d": hx(d), "ks": [0.125]}, **kw)


CORPUS = [
    # the repo's own examples: unit sphere, cylinder, generic frustum
    _seg([0, 0, 0, 1.0], [0, 0, 0, 1.0]),
    _seg([0, 0, 0, 1.0], [10, 0, 0, 1.0]),
    _seg([0.9, 0, 0, 0.9], [1.5, 2.5, 3.5, 0.6]),
    # KNOWN FINDING: coincident centres, different diameters -> raises
    _seg([0, 0, 0, 2.0], [0, 0, 0, 4.0]),
    # nearly coincident (1 ulp apart), equal and unequal radii
    _seg([1.0, 1.0, 1.0, 2.0], [1.0 + 2 ** -52, 1.0, 1.0, 2.0]),
    _seg([1.0, 1.0, 1.0, 2.0], [1.0, 1.0 - 2 ** -53, 1.0, 3.0]),
    # zero diameters (cone, line), zero length with zero diameters
    _seg([0, 0, 0, 0.0], [3, 4, 12, 2.0]),
    _seg([1, 2, 3, 0.0], [4, 6, 15, 0.0]),
    _seg([1, 2, 3, 0.0], [1, 2, 3, 0.0]),
    # large / small magnitudes inside the range
    _seg([1e90, -2e90, 3e90, 1e-90], [-1e90, 2e90, 5e90, 3e-90]),
    _seg([1e-90, -2e-90, 3e-90, 1e90], [-1e-90, 2e-90, 5e-90, 3e90]),
    # KNOWN FINDINGS: overflow / underflow outside the range
    _seg([0, 0, 0, 2.0], [1e200, 0, 0, 2.0]),
    _seg([0, 0, 0, 2.0], [1e-200, 0, 0, 2.0]),
    # missing proximal
    {"kind": "seg", "p": None, "d": hx([1, 2, 3, 1.0])},
    # end points sharing x and y (segment parallel to z), equal / unequal diameters; sharing two other coordinates
    _seg([3.0, -2.0, 5.0, 2.0], [3.0, -2.0, 12.5, 2.0]),
    _seg([3.0, -2.0, 5.0, 2.0], [3.0, -2.0, 12.5, 1.0]),
    _seg([3.0, -2.0, 5.0, 2.0], [3.0, 5.5, 5.0, 1.0]),
    _seg([3.0, -2.0, 5.0, 2.0], [10.5, -2.0, 5.0, 1.0]),
    # negative diameters (schema-invalid): sphere of diameter -2, cylinder with diameters -2, mixed signs
    _seg([0, 0, 0, -2.0], [0, 0, 0, -2.0]),
    _seg([0, 0, 0, -2.0], [0, 0, 3, -2.0]),
    _seg([0, 0, 0, -2.0], [0, 4, 3, 6.0]),
    # exact grid case with translation and scaling
    _seg([3.0, 4.0, 0.0, 2.0], [6.0, 8.0, 12.0, 6.0], trans=hx([1024.0, -512.0, 0.5]), ks=[3.0, 10.0]),
    # the repo's test cell: seg1 / seg3 inherit their proximal point; all four fractions
] + [
    {"kind": "cell", "segs": [[0, hx([0, 0, 0, 1.0]), hx([0, 0, 0, 1.0]), None],
                              [1, None, hx([10, 0, 0, 1.0]), [0, H1]],
                              [2, hx([10, 0, 0, 1.0]), hx([20, 0, 0, 1.0]), [1, H1]],
                              [3, None, hx([15, 10, 0, 1.0]), [2, float(f).hex()]]], "q": q}
    for f in (0.0, 0.25, 0.5, 1.0) for q in (1, 3)
] + [
    # chain of inherited points with tapering diameters, fractions 0 / .25 / .5
    {"kind": "cell", "segs": [[5, hx([0, 0, 0, 4.0]), hx([8, 0, 0, 2.0]), None],
                              [2, None, hx([4, 4, 0, 1.0]), [5, (0.5).hex()]],
                              [7, None, hx([4, 4, 8, 0.5]), [2, (0.25).hex()]],
                              [1, None, hx([0, 3, 4, 0.5]), [7, (0.0).hex()]]], "q": q} for q in (2, 7, 1)
] + [
    # tapered parent (diameters 4 -> 1), oblique, child attached at 0.1 / 0.8 / 1.5 / -0.5, parent itself inheriting or not
] + [
    {"kind": "cell", "segs": ([[0, hx([-4, 2, -3, 4.0]), hx([1, 2, -3, 4.0]), None], [1, None, hx([11, 7, -1, 1.0]), [0, H1]]] if chain
                              else [[1, hx([1, 2, -3, 4.0]), hx([11, 7, -1, 1.0]), None]]) +
                             [[2, None, hx([6, 20, 4, 0.8]), [1, float(f).hex()]]], "q": 2}
    for chain in (False, True) for f in (0.1, 0.8, 1.5, -0.5)
] + [
    # KNOWN FINDING at cell level: zero-length child at the parent's distal point with another diameter
    {"kind": "cell", "segs": [[0, hx([0, 0, 0, 2.0]), hx([10, 0, 0, 2.0]), None],
                              [1, None, hx([10, 0, 0, 1.0]), [0, H1]]], "q": 1},
    # parent cycle without proximal points, unknown id, unknown parent
    {"kind": "cell", "segs": [[0, None, hx([1, 0, 0, 1.0]), [1, (0.5).hex()]],
                              [1, None, hx([2, 0, 0, 1.0]), [0, (0.5).hex()]]], "q": 0},
    {"kind": "cell", "segs": [[0, hx([0, 0, 0, 1.0]), hx([1, 0, 0, 1.0]), None]], "q": 4},
    {"kind": "cell", "segs": [[0, None, hx([1, 0, 0, 1.0]), [9, (0.5).hex()]]], "q": 0},
]


# ------------------------------------------------------------------ running cases
def decode(case):
    if case["kind"] == "seg":
        return unhx(case["p"]), unhx(case["d"])
    segs = [[s[0], unhx(s[1]), unhx(s[2]), None if s[3] is None else [s[3][0], float.fromhex(s[3][1])]]
            for s in case["segs"]]
    return segs, case["q"]


def nontrivial_seg(p, d):
    if p is None:
        return False
    ndiff = sum(1 for a, b in zip(p[:3], d[:3]) if a != b)
    return ndiff != 1 or p[3] != d[3]


def gen_vs_hand(ctx, c, gen, hand):
    """generated definitions vs hand-written model, both evaluated at Float by the driver, on one case.
    Bit-equal or within 1e-14 (a rewrite that only reorders roundings) is agreement; anything else makes the case a
    candidate failing input (it is then confirmed or not on the real code by the oracle)."""
    bad = []
    for k in gen:
        g, h = gen[k], hand.get(k, {"err": ["missing", ""]})
        if "err" in g and g["err"][0] == "Untranslated":
            ctx.count("gen-vs-hand:untranslated-skipped")
            continue
        ctx.count("gen-vs-hand:compared")
        if "err" in g or "err" in h:
            if not ("err" in g and "err" in h and g["err"][0] == h["err"][0] and
                    (g["err"][1] == h["err"][1] or g["err"][0] == "RecursionError")):
                bad.append(k)
            continue
        gv, hv = g["ok"], h["ok"]
        gl, hl = (gv, hv) if isinstance(gv, list) else ([gv], [hv])
        for x, y in zip(gl, hl):
            if x == y:
                continue
            fx, fy = b2f(x), b2f(y)
            if fx == fy:
                continue
            if math.isfinite(fx) and math.isfinite(fy) and abs(fx - fy) <= 1e-14 * max(abs(fx), abs(fy)):
                ctx.count("gen-vs-hand:ulp-difference")
                continue
            bad.append(k)
            break
    for k in bad:
        # a CANDIDATE of the directed search, not by itself a broken obligation (the obligation is the Lean theorem
        # gen_eq_hand_* over the reals, which tolerates a rewrite that only reorders roundings): the oracle on the real
        # code confirms it or not. The first three per quantity are kept in the evidence.
        ctx.count("gen-vs-hand:differ:" + k)
        if ctx.dist["gen-vs-hand:differ:" + k] <= 3:
            ctx.extra.setdefault("_gvh_examples", []).append(
                {"quantity": k, "case": c, "generated": canon_model(gen[k]),
                 "hand": canon_model(hand.get(k, {"err": ["missing", ""]}))})
    return bad


def run_cases(ctx, cases, stream, use_driver=True, hand=False):
    lines = []
    for c in cases:
        a, b = decode(c)
        lines.append(seg_line(a, b) if c["kind"] == "seg" else cell_line(a, b))
    hlines = [l.replace('{"op": "seg"', '{"op": "segh"', 1).replace('{"op": "cell"', '{"op": "cellh"', 1)
              for l in lines] if hand else []
    rc, out = fw.run_driver("C12", ['{"op":"pi"}'] + lines + hlines) if use_driver else (0, [])
    ok_driver = use_driver and rc == 0 and len(out) == len(lines) + len(hlines) + 1
    if not use_driver:
        pass
    elif not ok_driver:
        ctx.disagree("driver", "driver failed rc=%s (%d lines for %d)" % (rc, len(out), len(lines) + 1), "\n".join(out[-5:]), None)
    else:
        pim = json.loads(out[0])
        if pim.get("ok") != f2b(math.pi):
            ctx.disagree("pi", "math.pi", math.pi.hex(), pim)
    for i, c in enumerate(cases):
        model = json.loads(out[i + 1]) if ok_driver else None
        a, b = decode(c)
        canon = {k: c[k] for k in c if k in ("kind", "p", "d", "segs", "q")}
        if hand and ok_driver:
            if gen_vs_hand(ctx, c, model, json.loads(out[len(lines) + i + 1])):
                ctx.extra.setdefault("_gvh_cases", []).append(canon)
        if c["kind"] == "seg":
            p, d = a, b
            real = real_seg(p, d)
            nt = nontrivial_seg(p, d)
            ctx.seen(canon, nontrivial=nt)
            ctx.count("stream:" + stream)
            ex = p is not None and pow_exact(p, d)
            ctx.count("seg:" + ("no-proximal" if p is None else ("pow-exact" if ex else "inexact")))
            if model is not None:
                for k in real:
                    ctx.corr_evals += 1
                    why = same(real[k], model.get(k, {"err": ["missing", ""]}), ex)
                    if why:
                        ctx.disagree("float-model:" + k, c, canon_res(real[k]), {"model": canon_model(model.get(k, {"err": ["missing", ""]})), "why": why})
            if p is None:
                continue
            spec = oracle_seg(ctx, p, d, real, c)
            ctx.count("branch:" + spec["branch"])
            ctx.count("range:" + range_class(p, d))
            metamorphic(ctx, p, d, real, c, trans=unhx(c.get("trans")), ks=list(c.get("ks", [])))
            ctx.sample({"p": p, "d": d, "real": {k: (real[k].get("ok", real[k].get("err", [""])[0])) for k, _ in QS}})
        else:
            segs, q = a, b
            real = real_cell(segs, q)
            seg = next((s for s in segs if s[0] == q), None)
            inherited = seg is not None and seg[1] is None and "ok" in real["prox"]
            ctx.seen(canon, nontrivial=inherited)
            ctx.count("stream:" + stream)
            ctx.count("cell:" + ("inherited" if inherited else ("own" if seg is not None and seg[1] is not None else "undefined")))
            if inherited and seg[3] is not None:
                f = seg[3][1]
                ctx.count("fraction:" + (repr(f) if f in GRID_FRACTS else ("other-in-0-1" if 0 < f < 1 else "outside-0-1")))
            if model is not None:
                ex = False
                if "ok" in real["prox"] and seg is not None:
                    ex = pow_exact(real["prox"]["ok"], seg[2])
                    ctx.count("cell:" + ("pow-exact" if ex else "inexact"))
                for k in ("prox", "length", "volume", "area"):
                    ctx.corr_evals += 1
                    why = same(real[k], model.get(k, {"err": ["missing", ""]}), ex)
                    if why:
                        ctx.disagree("float-model:cell:" + k, c, canon_res(real[k]), {"model": canon_model(model.get(k, {"err": ["missing", ""]})), "why": why})
            oracle_cell(ctx, segs, q, real, c)


# ------------------------------------------------------------------ call histories on ONE cell object (query, edit, query)
def apply_edit(segs, byid, ed):
    """apply one concrete in-place edit [kind, segment id, value] to the description `segs` and to the real objects"""
    kind, sid, val = ed
    tgt = next(s for s in segs if s[0] == sid)
    obj = byid[sid]
    if kind == "distal":
        tgt[2] = [float(v) for v in val]
        for nm, v in zip(("x", "y", "z", "diameter"), tgt[2]):
            setattr(obj.distal, nm, v)
    elif kind == "fraction":
        tgt[3] = [tgt[3][0], float(val)]
        obj.parent.fraction_along = float(val)
    elif kind == "proximal":
        tgt[1] = None if val is None else [float(v) for v in val]
        obj.proximal = None if val is None else mkpt(tgt[1])


def run_history(ctx, segs, qs, edits):
    """The cell-level getters must describe the morphology AS IT IS NOW: query the getters, edit the cell in place,
    query again on the SAME object and compare (same value / same exception class) with a freshly built cell holding
    the edited morphology.  Decided on the real code alone (the model is stateless: the fresh-cell answers are what the
    correspondence streams compare with the Lean definitions)."""
    segs = [[s[0], None if s[1] is None else list(s[1]), list(s[2]), None if s[3] is None else list(s[3])] for s in segs]
    init = _case_cell(segs, qs[0])
    cell = build_cell(segs)
    byid = {s.id: s for s in cell.morphology.segments}
    lim = sys.getrecursionlimit()
    sys.setrecursionlimit(300)
    try:
        done = []
        for ed in edits:
            for x in qs:                                   # first (or repeated) queries prime whatever the code caches
                for fn in (cell.get_segment_length, cell.get_segment_volume, cell.get_segment_surface_area):
                    attempt(lambda: fn(x))
                attempt(lambda: cell.get_actual_proximal(x), point=True)
            apply_edit(segs, byid, ed)
            done.append(ed)
            for x in qs:
                again = {"prox": attempt(lambda: cell.get_actual_proximal(x), point=True),
                         "length": attempt(lambda: cell.get_segment_length(x)),
                         "volume": attempt(lambda: cell.get_segment_volume(x)),
                         "area": attempt(lambda: cell.get_segment_surface_area(x))}
                fresh = real_cell(segs, x)
                case = {"kind": "history", "segs": init["segs"], "qs": list(qs),
                        "edits": [[e[0], e[1], None if e[2] is None else (float(e[2]).hex() if e[0] == "fraction" else hx(e[2]))]
                                  for e in done]}
                ctx.seen(case, True)
                ctx.count("history:" + ed[0])
                for k in ("prox", "length", "volume", "area"):
                    a, b = again[k], fresh[k]
                    eq = ("err" in a and "err" in b and a["err"][0] == b["err"][0]) or \
                         ("ok" in a and "ok" in b and (a["ok"] == b["ok"] or repr(a["ok"]) == repr(b["ok"])))
                    if not eq:
                        ctx.fail("C12:cell:history:" + k,
                                 "after an in-place edit (%s of segment %s) the cell-level getter %s of segment %s still answers "
                                 "for the OLD morphology: %s on the edited object, %s on a fresh cell with the same morphology"
                                 % (ed[0], ed[1], k, x, canon_res(a), canon_res(b)), case)
    finally:
        sys.setrecursionlimit(lim)


def history_cases(ctx, rng, n):
    for _ in range(n):
        c = gen_cell(rng, rng.random() < 0.5)
        segs, q = decode(c)
        segs = [[s[0], None if s[1] is None else list(s[1]), list(s[2]), None if s[3] is None else list(s[3])] for s in segs]
        ids = [s[0] for s in segs]
        if len(set(ids)) != len(ids) or q not in ids:
            continue
        qs = [q] + [i for i in ids if i != q][:2]
        cur = {s[0]: s for s in [[t[0], t[1], list(t[2]), t[3]] for t in segs]}
        edits = []
        for _k in range(rng.randint(1, 3)):
            tgt = cur[rng.choice(ids)]
            kind = rng.choice(["distal", "distal", "fraction", "proximal", "diam", "drop-proximal"])
            if kind == "distal":
                d = list(tgt[2]); k = rng.randrange(3); d[k] = d[k] + rng.choice([1.0, -2.0, 0.5, 8.0])
                tgt[2] = d; edits.append(["distal", tgt[0], d])
            elif kind == "diam":
                d = list(tgt[2]); d[3] = d[3] + rng.choice([0.5, 1.0, 2.0])
                tgt[2] = d; edits.append(["distal", tgt[0], d])
            elif kind == "fraction" and tgt[3] is not None:
                edits.append(["fraction", tgt[0], rng.choice([0.0, 0.25, 0.5, 0.75, 1.0])])
            elif kind == "proximal":
                base = tgt[1] if tgt[1] is not None else tgt[2]
                pnew = [base[0] + 1.0, base[1] - 0.5, base[2] + 2.0, base[3] + 0.25]
                tgt[1] = pnew; edits.append(["proximal", tgt[0], pnew])
            elif kind == "drop-proximal" and tgt[1] is not None and tgt[3] is not None:
                tgt[1] = None; edits.append(["proximal", tgt[0], None])
        if edits:
            run_history(ctx, segs, qs, edits)


def decode_history(case):
    segs = [[s[0], unhx(s[1]), unhx(s[2]), None if s[3] is None else [s[3][0], float.fromhex(s[3][1])]] for s in case["segs"]]
    edits = [[e[0], e[1], None if e[2] is None else (float.fromhex(e[2]) if e[0] == "fraction" else unhx(e[2]))]
             for e in case["edits"]]
    return segs, case["qs"], edits


def new_failures(ctx, known):
    """failures found so far whose key is not a listed (open) known finding"""
    return [f for f in ctx.failures if f["key"] not in known]


def sweep(ctx, rng, known, stop_early):
    """one round of the random streams at the tier's budget; with `stop_early` returns as soon as a stream has
    produced a failing input that is not a known finding"""
    streams = [
        ("exact", lambda: gen_exact(rng), ctx.n(2000, 36000)),
        ("cell-exact", lambda: gen_cell(rng, True), ctx.n(1000, 15000)),
        ("general", lambda: gen_general(rng), ctx.n(4000, 60000)),
        ("cell-general", lambda: gen_cell(rng, False), ctx.n(1000, 15000)),
        ("grid", lambda: gen_grid(rng), ctx.n(1500, 24000)),
        ("chain", lambda: gen_chain(rng), ctx.n(150, 2000)),
        ("signed", lambda: gen_signed(rng), ctx.n(400, 6000)),
    ]
    for name, g, n in streams:
        run_cases(ctx, [g() for _ in range(n)], name)
        if stop_early and new_failures(ctx, known):
            return True
    history_cases(ctx, rng, ctx.n(300, 4000))
    if stop_early and new_failures(ctx, known):
        return True
    return False


def run(ctx):
    import time
    known = set(fw.known_findings("C12"))
    broken = list(getattr(ctx, "broken", None) or [])
    rng = ctx.rng
    # 1. corpus (known findings, past disagreements) and the DIRECTED systematic grid: generated definitions vs
    #    hand-written model at Float (driver) and real code vs closed forms / metamorphic relations (oracle)
    run_cases(ctx, [json.loads(json.dumps(c)) for c in CORPUS], "corpus", hand=True)
    grid = grid_cases()
    run_cases(ctx, grid, "directed-grid", hand=True)
    cast_checks(ctx)
    found = new_failures(ctx, known)
    gvh = ctx.extra.pop("_gvh_cases", [])
    gvh_keys = {json.dumps(x, sort_keys=True, default=str) for x in gvh}
    found_keys = {json.dumps({k: f["case"][k] for k in f["case"] if k in ("kind", "p", "d", "segs", "q")}, sort_keys=True, default=str)
                  for f in found if isinstance(f.get("case"), dict)}
    ds = {"grid_cases": len(grid), "generated_vs_hand_disagreeing_cases": len(gvh),
          "of_which_confirmed_on_real_code": len(gvh_keys & found_keys),
          "generated_vs_hand_examples": ctx.extra.pop("_gvh_examples", []),
          "failing_inputs_confirmed_on_real_code": len({json.dumps(f["case"], sort_keys=True, default=str) for f in found}),
          "obligations_broken_before_search": len(broken), "rounds_of_random_search": 0, "stopped_early": False}
    ctx.extra["directed_search"] = ds
    if not broken:
        # unchanged obligations: one round of every stream, fixed counts
        sweep(ctx, rng, known, False)
        run_cases(ctx, [gen_extreme(rng) for _ in range(ctx.n(200, 3000))], "extreme")
        ds["rounds_of_random_search"] = 1
        return
    # 2. an obligation is broken (translator output changed / proof or correspondence fails): the job is to produce a
    #    concrete failing input on the real code, quickly, and stop
    if found:
        ds["stopped_early"] = True
        return
    budget = ctx.n(70, 600)                      # seconds of wall clock for the search, measured from the start of the check
    for r in range(max(1, ctx.search_mult)):
        ds["rounds_of_random_search"] = r + 1
        if sweep(ctx, rng, known, True):
            ds["stopped_early"] = True
            break
        if time.time() - ctx.t0 > budget:
            break
    if not new_failures(ctx, known):
        run_cases(ctx, [gen_extreme(rng) for _ in range(ctx.n(200, 3000))], "extreme")
    ds["failing_inputs_confirmed_on_real_code"] = len({json.dumps(f["case"], sort_keys=True, default=str)
                                                       for f in new_failures(ctx, known)})


def cast_checks(ctx):
    """value shapes the model relies on: the constructors cast coordinates/diameters/fraction_along given as ints or
    numeric strings to float (`_cast(float, ...)`), so the helpers only ever see floats unless a member is assigned
    afterwards; and results for int / str arguments equal those for the float arguments"""
    import neuroml
    for (p, d) in (([0, 0, 0, 2], [3, 4, 12, 4]), ([1, 2, 3, 2], [1, 2, 3, 2]), ([1, -2, 3, 1], [1, -2, 10, 1])):
        ref = real_seg([float(x) for x in p], [float(x) for x in d])
        for conv, nm in ((int, "int"), (str, "str"), (lambda x: str(float(x)), "str-float")):
            case = {"kind": "seg", "p": hx(p), "d": hx(d), "members_given_as": nm}
            try:
                pp = neuroml.Point3DWithDiam(x=conv(p[0]), y=conv(p[1]), z=conv(p[2]), diameter=conv(p[3]))
                dd = neuroml.Point3DWithDiam(x=conv(d[0]), y=conv(d[1]), z=conv(d[2]), diameter=conv(d[3]))
                shapes = all(type(v) is float for q in (pp, dd) for v in (q.x, q.y, q.z, q.diameter))
                sg = neuroml.Segment(id=0, proximal=pp, distal=dd)
                got = {k: attempt(lambda a=a: getattr(sg, a)) for k, a in QS}
            except Exception as e:  # noqa
                ctx.fail("C12:members-cast:raises", "constructing points from %s members raises %s" % (nm, type(e).__name__), case)
                continue
            ctx.count("cast-check")
            if not shapes:
                ctx.fail("C12:members-cast:not-float", "members given as %s are not stored as floats" % nm, case)
            for k, _ in QS:
                if canon_res(got[k]) != canon_res(ref[k]):
                    ctx.fail("C12:members-cast:" + k, "%s differs when members are given as %s" % (k, nm), case)
    try:
        sp = neuroml.SegmentParent(segments="3", fraction_along="0.25")
        sp1 = neuroml.SegmentParent(segments=3)
        if not (type(sp.fraction_along) is float and sp.fraction_along == 0.25 and sp.segments == 3
                and type(sp1.fraction_along) is float and sp1.fraction_along == 1.0):
            ctx.fail("C12:members-cast:not-float", "SegmentParent members are not cast / default fraction_along is not 1.0",
                     {"kind": "parent"})
    except Exception as e:  # noqa
        ctx.fail("C12:members-cast:raises", "SegmentParent construction raises %s" % type(e).__name__, {"kind": "parent"})


def regenerate(ctx):
    tdir = os.path.join(fw.VERIF, "translators")
    if tdir not in sys.path:
        sys.path.insert(0, tdir)
    import py2lean_geom
    gaps = py2lean_geom.regenerate(fw.REPO, os.path.join(fw.LEAN, "NmlVerif", "Gen", "Geom.lean"))
    # robustness round: functions whose CURRENT surface syntax differs from the canonical shape but whose translation is
    # the same Lean function (alpha / let-unfolding / Except-eta / arm order) are emitted in the canonical text
    ctx.extra["translator_normalised"] = sorted({"%s.%s" % (c, f) for _, c, f in py2lean_geom.NORMALISED})
    return gaps


def replay(ctx, payload):
    case = payload["case"]
    if case.get("kind") == "history":
        segs, qs, edits = decode_history(case)
        run_history(ctx, segs, qs, edits)
        return {"fails": bool(ctx.failures), "failures": ctx.failures}
    case = {k: case[k] for k in case if k in ("kind", "p", "d", "segs", "q", "trans", "ks")}
    # self-contained: retranslate the current tree and rebuild the Float model; without a model only the oracle runs
    gaps = regenerate(ctx)
    ok, _ = fw.lake_build(["NmlVerif.Model.Geom"])
    run_cases(ctx, [case], "replay", use_driver=ok, hand=ok)
    return {"fails": bool(ctx.failures or ctx.corr_disagreements or gaps), "translator_gaps": gaps,
            "model_built": ok, "failures": ctx.failures, "disagreements": ctx.corr_disagreements}
