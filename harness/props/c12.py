"""C12 — segment length, surface area and volume are those of the frustum or sphere.

Tie (two parts):
  1. TRANSLATOR: `regenerate` runs translators/py2lean_geom.py on fw.REPO's current working tree; it re-emits
     lean/NmlVerif/Gen/Geom.lean from the bodies of Segment.length/volume/surface_area, Point3DWithDiam.distance_to,
     Cell.get_actual_proximal/get_segment_length/_surface_area/_volume in BOTH helper_methods.py and nml.py. The
     theorems of Props/C12.lean are about those generated definitions (at α = ℝ), so an edited formula changes the
     term under the proofs.
  2. NUMERIC CORRESPONDENCE of the same generated definitions at α = Float (Drivers/C12.lean) with the real library:
     (a) "exact" stream — inputs on which every `**` of the Python code has an exactly representable result
         (Pythagorean-quadruple / axis-aligned geometries on a dyadic grid, dyadic diameters; verified per case with
         Fractions): results must be equal BIT FOR BIT;
     (b) other inputs: within 1e-14 relative (pow(x,3) and x*x*x may differ by an ulp); inherited proximal points
         (no `**` involved) bit for bit always.
FAILING-INPUT SEARCH (not proof): the full property statement is evaluated on the real code against an independent
60-digit `decimal` evaluation of the closed forms (1e-12 relative) and through the metamorphic relations (swap,
exact translation, exact scaling k / k^2 / k^3), over magnitudes 1e-90..1e90, degenerate and nearly coincident cases,
and cells whose segments inherit their proximal point (fraction_along in {0, .25, .5, 1} and arbitrary).
"""
import json
import math
import os
import struct
import sys
from decimal import Decimal, getcontext
from fractions import Fraction

import fw

LEAN_PROPS = ["NmlVerif.Props.C12"]
LEAN_THOROUGH = ["NmlVerif.Props.C12Integral"]
LEVEL = "proof"
RULE = ("streams: exact (Pythagorean-quadruple/axis-aligned segments on a dyadic grid x 2^e, dyadic diameters), general "
        "(random 53-bit coordinates/diameters, magnitudes 1e-90..1e90, end-point separation from 1 ulp to the full "
        "magnitude), degenerate (zero length with equal/unequal diameters, zero diameters, missing proximal), extreme "
        "(1e150..1e300 and below 1e-150: overflow/underflow findings), cells (1-6 segments, chains of inherited proximal "
        "points, fraction_along in {0,.25,.5,1} or random, duplicate/missing ids, parent cycles); each segment case is "
        "also swapped, translated (exactly, grid cases) and scaled (2^j always; 3,5,7,10 on grid cases). A case is "
        "non-trivial when both end points exist and it is not an axis-aligned cylinder (oblique axis, or unequal radii, "
        "or coincident centres), or when it is a cell query whose proximal point is inherited; distinct = distinct "
        "canonical (hex-float) inputs")
TRUST = [
    "translators/py2lean_geom.py (AST shape -> Lean term; validated on every run by the Float correspondence, not verified)",
    "Lean `Float` operations and CPython float operations are both IEEE-754 binary64 round-to-nearest (driver side compiled/interpreted by Lean)",
    "hand-written Model/Geom.lean: Cell.get_segment (first match, ValueError) and the fuel recursion tying get_actual_proximal; tied by correspondence only",
    "value shapes: Point3DWithDiam/Segment/SegmentParent members are Python floats; distal is always present; fraction_along already parsed",
]
ASSUMPTIONS = [
    "the clause 'to floating-point rounding' is NOT proved (no IEEE error analysis): theorems are over the reals; rounding is sampled (1e-12 relative vs 60-digit decimal) for magnitudes 1e-90..1e90",
    "overflow (coordinate differences beyond ~1e154 raise OverflowError) and underflow (differences below ~1e-162 give length 0) are outside the proved claim; they are reported as known findings C12:range:*",
    "surface_area is the LATERAL area of the frustum (no end discs), as the code computes it",
    "parent chains are shorter than the interpreter's recursion limit (model: fuel)",
]

getcontext().prec = 60
PI = Decimal("3.14159265358979323846264338327950288419716939937510582097494459230781640628620899")
TOL = Decimal("1e-12")
QS = (("length", "length"), ("volume", "volume"), ("area", "surface_area"))


# ------------------------------------------------------------------ float helpers
def f2b(x):
    return struct.unpack("<Q", struct.pack("<d", float(x)))[0]


def b2f(b):
    return struct.unpack("<d", struct.pack("<Q", b))[0]


def hx(v):
    return None if v is None else [float(x).hex() for x in v]


def unhx(v):
    return None if v is None else [float.fromhex(x) for x in v]


def representable(fr):
    """is the rational `fr` exactly a finite double?"""
    try:
        return Fraction(float(fr)) == fr
    except OverflowError:
        return False


def pow_exact(p, d):
    """every `**` the Python code performs on (p, d) has an exactly representable result (then pow == product chain)"""
    F = Fraction
    diffs = [F(a) - F(b) for a, b in zip(p[:3], d[:3])]
    if not all(representable(x) for x in diffs):
        return False
    sq = [x * x for x in diffs]
    if not all(representable(x) for x in sq):
        return False
    s1 = sq[0] + sq[1]
    s = s1 + sq[2]
    if not (representable(s1) and representable(s)):
        return False
    fs = float(s)
    L = math.sqrt(fs)
    if F(L) * F(L) != s:
        return False
    if fs ** 0.5 != L:
        return False
    r1, r2 = F(p[3]) / 2, F(d[3]) / 2
    for r in (r1, r2, r1 - r2):
        if not representable(r) or not representable(r * r):
            return False
    if not representable(r1 ** 3) or not representable(F(L) ** 2):
        return False
    return True


# ------------------------------------------------------------------ real library
def attempt(fn, point=False):
    try:
        v = fn()
        if point:
            v = [v.x, v.y, v.z, v.diameter]
            if all(isinstance(x, (int, float)) and not isinstance(x, bool) for x in v):
                return {"ok": [float(x) for x in v]}
        elif isinstance(v, (int, float)) and not isinstance(v, bool):
            return {"ok": float(v)}
        return {"err": ["BadResult", "not a float: %.60r" % (v,)]}
    except RecursionError:
        return {"err": ["RecursionError", ""]}
    except Exception as e:  # noqa
        return {"err": [type(e).__name__, str(e)]}


def mkpt(v):
    import neuroml
    return neuroml.Point3DWithDiam(x=v[0], y=v[1], z=v[2], diameter=v[3])


def real_seg(p, d):
    import neuroml
    s = neuroml.Segment(id=0, proximal=mkpt(p) if p is not None else None, distal=mkpt(d))
    out = {}
    for k, a in QS:
        out[k] = attempt(lambda a=a: getattr(s, a))
    if p is not None:
        out["dist_pd"] = attempt(lambda: s.proximal.distance_to(s.distal))
        out["dist_dp"] = attempt(lambda: s.distal.distance_to(s.proximal))
    return out


def build_cell(segs):
    import neuroml
    cell = neuroml.Cell(id="c")
    cell.morphology = neuroml.Morphology(id="m")
    for (sid, p, d, par) in segs:
        s = neuroml.Segment(id=sid, proximal=mkpt(p) if p is not None else None, distal=mkpt(d))
        if par is not None:
            s.parent = neuroml.SegmentParent(segments=par[0], fraction_along=par[1])
        cell.morphology.segments.append(s)
    return cell


def real_cell(segs, q):
    cell = build_cell(segs)
    lim = sys.getrecursionlimit()
    sys.setrecursionlimit(300)
    try:
        out = {}
        out["prox"] = attempt(lambda: cell.get_actual_proximal(q), point=True)
        out["length"] = attempt(lambda: cell.get_segment_length(q))
        out["volume"] = attempt(lambda: cell.get_segment_volume(q))
        out["area"] = attempt(lambda: cell.get_segment_surface_area(q))
        return out
    finally:
        sys.setrecursionlimit(lim)


# ------------------------------------------------------------------ model (Lean driver, generated definitions at Float)
def seg_line(p, d):
    return json.dumps({"op": "seg", "p": None if p is None else [f2b(x) for x in p], "d": [f2b(x) for x in d]})


def cell_line(segs, q):
    js = []
    for (sid, p, d, par) in segs:
        js.append([sid, None if p is None else [f2b(x) for x in p], [f2b(x) for x in d],
                   None if par is None else [par[0], f2b(par[1])]])
    return json.dumps({"op": "cell", "segs": js, "q": q, "fuel": len(segs) + 2})


def same(real, model, exact):
    """compare one result; returns None when they agree, else a short reason"""
    if "err" in real or "err" in model:
        if "err" in real and "err" in model:
            rk, rm = real["err"]
            mk, mm = model["err"]
            if rk == mk and (rm.startswith(mm) or rk == "RecursionError"):
                return None
            return "different exception"
        return "one side raises"
    rv, mv = real["ok"], model["ok"]
    if isinstance(rv, list):
        for a, b in zip(rv, mv):
            if f2b(a) != b and not (a == 0.0 and b2f(b) == 0.0):
                return "inherited point differs in bits"
        return None
    if f2b(rv) == mv:
        return None
    if exact:
        return "bits differ on an exact input"
    m = b2f(mv)
    if rv == m:
        return None
    if math.isfinite(rv) and math.isfinite(m) and abs(rv - m) <= 1e-14 * max(abs(rv), abs(m)):
        return None
    return "beyond 1e-14 relative"


def canon_res(r):
    if "err" in r:
        return {"err": [r["err"][0], r["err"][1][:60]]}
    v = r["ok"]
    return {"ok": [float(x).hex() for x in v] if isinstance(v, list) else float(v).hex()}


def canon_model(r):
    if "err" in r:
        return r
    v = r["ok"]
    return {"ok": [b2f(x).hex() for x in v] if isinstance(v, list) else b2f(v).hex()}


# ------------------------------------------------------------------ oracle: 60-digit decimal closed forms
def D(x):
    return Decimal(float(x))


def spec_seg(p, d):
    """values the property assigns to a segment with both end points (exact inputs, 60 digits)"""
    dx = [D(a) - D(b) for a, b in zip(p[:3], d[:3])]
    L = (dx[0] * dx[0] + dx[1] * dx[1] + dx[2] * dx[2]).sqrt()
    r1, r2 = D(p[3]) / 2, D(d[3]) / 2
    coincident = all(x == 0 for x in dx)
    if coincident and r1 == r2:
        return {"length": L, "volume": Decimal(4) / 3 * PI * r1 ** 3, "area": 4 * PI * r1 ** 2, "branch": "sphere"}
    return {"length": L, "volume": PI / 3 * L * (r1 * r1 + r1 * r2 + r2 * r2),
            "area": PI * (r1 + r2) * ((r1 - r2) ** 2 + L * L).sqrt(),
            "branch": "degenerate-frustum" if coincident else "frustum"}


def close(got, exp, tol=TOL):
    if not isinstance(got, float) or not math.isfinite(got):
        return False
    g = Decimal(got)
    if exp == 0:
        return g == 0
    return abs(g - exp) <= tol * abs(exp)


def range_class(p, d):
    """in-range: exact length 0 or within [1e-110, 1e100]; non-zero diameters within [1e-100, 1e100]; then no square,
    cube or product of the formulas overflows or becomes subnormal"""
    diffs = [Fraction(a) - Fraction(b) for a, b in zip(p[:3], d[:3])]
    l2 = sum(x * x for x in diffs)
    big = Fraction(10) ** 100
    if l2 > big * big or any(abs(x) > big for x in (Fraction(p[3]), Fraction(d[3]))):
        return "overflow"
    if 0 < l2 < Fraction(1, 10 ** 220) or any(0 < abs(Fraction(x)) < Fraction(1, 10 ** 100) for x in (p[3], d[3])):
        return "underflow"
    return "in"


def oracle_seg(ctx, p, d, real, case, prefix=""):
    """full property on one segment with both end points (real = results of the real code)"""
    spec = spec_seg(p, d)
    rc = range_class(p, d)
    for k, _ in QS:
        r = real[k]
        if "err" in r:
            if rc != "in":
                ctx.fail("C12:range:" + rc, "%s raises %s outside the floating-point range" % (k, r["err"][0]), case)
            elif spec["branch"] == "degenerate-frustum" and k != "length" and r["err"][0] == "Exception":
                ctx.fail("C12:coincident-unequal-diameters:raises",
                         "%s raises for coincident centres with different diameters" % k, case)
            else:
                ctx.fail("C12:%s%s:raises" % (prefix, k), "%s raises %s: %s" % (k, r["err"][0], r["err"][1][:80]), case)
            continue
        v = r["ok"]
        if not close(v, spec[k]):
            if rc != "in":
                ctx.fail("C12:range:" + rc, "%s is off by more than rounding outside the floating-point range" % k, case)
            else:
                ctx.fail("C12:%s%s:value" % (prefix, k), "%s = %r, closed form (%s) = %s" % (k, v, spec["branch"], +spec[k]),
                         dict(case, got=float(v).hex() if isinstance(v, float) else repr(v), expected=str(spec[k])[:40]))
        elif (p[3] >= 0 and d[3] >= 0 or k == "length") and not v >= 0:
            ctx.fail("C12:%s%s:negative" % (prefix, k), "%s is negative" % k, case)
    if rc == "in":
        for k in ("dist_pd", "dist_dp"):          # Point3DWithDiam.distance_to, both directions
            if k in real and not ("ok" in real[k] and close(real[k]["ok"], spec["length"])):
                ctx.fail("C12:distance_to:value", "distance_to is not the Euclidean distance: %s vs %s" % (canon_res(real[k]), +spec["length"]), case)
    return spec


def rel_same(a, b):
    """two results of the real code that the property says are equal (to rounding)"""
    if "err" in a or "err" in b:
        return "err" in a and "err" in b and a["err"][0] == b["err"][0]
    x, y = a["ok"], b["ok"]
    if x == y:
        return True
    if not (math.isfinite(x) and math.isfinite(y)):
        return False
    return abs(Decimal(x) - Decimal(y)) <= TOL * max(abs(Decimal(x)), abs(Decimal(y)))


def rel_scaled(a, b, factor):
    """b = factor * a to rounding (factor exact rational)"""
    if "err" in a or "err" in b:
        return "err" in a and "err" in b and a["err"][0] == b["err"][0]
    x, y = a["ok"], b["ok"]
    if not (math.isfinite(x) and math.isfinite(y)):
        return False
    ex = Decimal(x) * (Decimal(factor.numerator) / Decimal(factor.denominator))
    if ex == 0:
        return y == 0
    return abs(Decimal(y) - ex) <= TOL * abs(ex)


def exact_sum(vals, t):
    return all(representable(Fraction(v) + Fraction(t)) for v in vals)


def exact_prod(vals, k):
    return all(representable(Fraction(v) * k) for v in vals)


def metamorphic(ctx, p, d, real, case, trans=None, ks=()):
    rc = range_class(p, d)
    if rc != "in":
        return
    # swap
    sw = real_seg(d, p)
    ctx.count("meta:swap")
    for k, _ in QS:
        if not rel_same(real[k], sw[k]):
            ctx.fail("C12:swap:" + k, "%s changes when the end points are swapped" % k, dict(case, swapped=canon_res(sw[k])))
    # translation (only when exact in floating point)
    if trans is not None:
        t = trans
        if all(exact_sum([p[i], d[i]], t[i]) for i in range(3)):
            p2 = [p[0] + t[0], p[1] + t[1], p[2] + t[2], p[3]]
            d2 = [d[0] + t[0], d[1] + t[1], d[2] + t[2], d[3]]
            tr = real_seg(p2, d2)
            ctx.count("meta:translate")
            for k, _ in QS:
                if not rel_same(real[k], tr[k]):
                    ctx.fail("C12:translate:" + k, "%s changes under an (exact) translation" % k,
                             dict(case, translation=hx(t), translated=canon_res(tr[k])))
        else:
            ctx.count("meta:translate-skipped-inexact")
    # scaling
    for kf in ks:
        kq = Fraction(kf)
        if not (exact_prod(p, kq) and exact_prod(d, kq)):
            ctx.count("meta:scale-skipped-inexact")
            continue
        p2, d2 = [x * kf for x in p], [x * kf for x in d]
        if range_class(p2, d2) != "in":
            continue
        sc = real_seg(p2, d2)
        ctx.count("meta:scale")
        for (k, _), e in zip(QS, (1, 3, 2)):
            if not rel_scaled(real[k], sc[k], kq ** e):
                ctx.fail("C12:scale:" + k, "%s does not scale with k^%d under uniform scaling" % (k, e),
                         dict(case, k=float(kf).hex(), scaled=canon_res(sc[k])))


# ------------------------------------------------------------------ cell oracle
def spec_actual_proximal(segs, q, depth=0):
    """(point as 4 Decimals, per-coordinate scale) by the parent/fraction_along definition; None when undefined"""
    if depth > len(segs) + 1:
        return None
    seg = next((s for s in segs if s[0] == q), None)
    if seg is None:
        return None
    sid, p, d, par = seg
    if p is not None:
        return [D(x) for x in p], [abs(D(x)) for x in p]
    if par is None:
        return None
    parent = next((s for s in segs if s[0] == par[0]), None)
    if parent is None:
        return None
    pd = [D(x) for x in parent[2]]
    f = D(par[1])
    if f == 1:
        return pd, [abs(x) for x in pd]
    r = spec_actual_proximal(segs, par[0], depth + 1)
    if r is None:
        return None
    pp, sc = r
    pt = [a + f * (b - a) for a, b in zip(pp, pd)]
    return pt, [max(s, abs(b)) for s, b in zip(sc, pd)]


def oracle_cell(ctx, segs, q, real, case):
    seg = next((s for s in segs if s[0] == q), None)
    if seg is None:
        return
    r = spec_actual_proximal(segs, q)
    if r is None:
        return                                     # no proximal point defined for this query: nothing claimed
    pt, scale = r
    rp = real["prox"]
    if "err" in rp:
        ctx.fail("C12:cell:actual-proximal:raises", "get_actual_proximal raises %s" % rp["err"][0], case)
        return
    got = rp["ok"]
    for i, (g, e, s) in enumerate(zip(got, pt, scale)):
        if not (isinstance(g, float) and math.isfinite(g)) or abs(Decimal(g) - e) > TOL * s:
            ctx.fail("C12:cell:actual-proximal:value", "inherited proximal point, member %d: %r vs %s" % (i, g, +e), case)
            return
    # the getters = segment formulas applied to (actual proximal as the code computed it, distal)
    d = seg[2]
    if range_class(got, d) != "in":
        return
    oracle_seg(ctx, got, d, real, case, prefix="cell:")
    direct = real_seg(got, d)
    for k, _ in QS:
        if not rel_same(real[k], direct[k]):
            ctx.fail("C12:cell:%s:differs-from-segment" % k,
                     "cell-level getter differs from the segment-level property on (actual proximal, distal)", case)


# ------------------------------------------------------------------ generators
def pyth(rng):
    while True:
        m, n, p, q = (rng.randint(-9, 9) for _ in range(4))
        a, b, c = m * m + n * n - p * p - q * q, 2 * (m * q + n * p), 2 * (n * q - m * p)
        if (a, b, c) != (0, 0, 0):
            v = [a, b, c]
            rng.shuffle(v)
            return v


def gen_exact(rng):
    e = rng.randint(-40, 40)
    u = math.ldexp(1.0, e)
    kind = rng.random()
    if kind < 0.6:
        delta = pyth(rng)
    elif kind < 0.85:
        delta = [0, 0, 0]
        delta[rng.randrange(3)] = rng.randint(-2 ** 20, 2 ** 20) or 1
    elif kind < 0.93:
        delta = [0, 0, 0]
    else:
        delta = pyth(rng)
    o = [rng.randint(-2 ** 20, 2 ** 20) for _ in range(3)]
    e2 = rng.randint(-30, 30)
    u2 = math.ldexp(1.0, e2)
    d1 = rng.randint(0, 1024)
    d2 = d1 if rng.random() < 0.35 else rng.randint(0, 1024)
    p = [o[0] * u, o[1] * u, o[2] * u, d1 * u2]
    d = [(o[0] + delta[0]) * u, (o[1] + delta[1]) * u, (o[2] + delta[2]) * u, d2 * u2]
    if kind >= 0.93 and rng.random() < 0.5:
        return {"kind": "seg", "p": None, "d": hx(d)}
    return {"kind": "seg", "p": hx(p), "d": hx(d), "ks": [pow2(rng)]}


def pow2(rng):
    return math.ldexp(1.0, rng.randint(-20, 20))


def mant(rng):
    return rng.choice((-1, 1)) * rng.uniform(1, 10)


def gen_general(rng, lo=-90, hi=90):
    m = rng.uniform(lo, hi)
    s = rng.choice((0, 0, 0, 0, 1, 3, 6, 9, 12, 14, 15, 16))
    p = [mant(rng) * 10 ** m for _ in range(3)]
    d = []
    for i in range(3):
        r = rng.random()
        if r < 0.12:
            d.append(p[i])
        else:
            d.append(p[i] + mant(rng) * 10 ** (m - s))
    md = rng.uniform(lo, hi)
    d1 = abs(mant(rng)) * 10 ** md
    r = rng.random()
    d2 = d1 if r < 0.2 else (abs(mant(rng)) * 10 ** md if r < 0.8 else abs(mant(rng)) * 10 ** rng.uniform(lo, hi))
    if rng.random() < 0.04:
        d1 = 0.0
    if rng.random() < 0.04:
        d2 = 0.0
    return {"kind": "seg", "p": hx(p + [d1]), "d": hx(d + [d2]), "ks": [pow2(rng)]}


def gen_grid(rng):
    """30-bit mantissas on a common dyadic grid: translations and small-integer scalings are exact"""
    e = rng.randint(-200, 200)
    u = math.ldexp(1.0, e)
    near = rng.random() < 0.3
    p = [rng.randint(-2 ** 30, 2 ** 30) for _ in range(3)]
    d = [x + rng.randint(-64, 64) if near else rng.randint(-2 ** 30, 2 ** 30) for x in p]
    e2 = rng.randint(-200, 200)
    u2 = math.ldexp(1.0, e2)
    d1, d2 = rng.randint(0, 2 ** 30), rng.randint(0, 2 ** 30)
    if rng.random() < 0.2:
        d2 = d1
    t = [rng.randint(-2 ** 40, 2 ** 40) * u for _ in range(3)]
    return {"kind": "seg", "p": hx([x * u for x in p] + [d1 * u2]), "d": hx([x * u for x in d] + [d2 * u2]),
            "trans": hx(t), "ks": [pow2(rng)] + [3.0, 5.0, 7.0, 10.0][rng.randrange(4):][:2]}


def gen_extreme(rng):
    if rng.random() < 0.5:
        return gen_general(rng, 150, 300)
    return gen_general(rng, -300, -150)


FRACTS = [0.0, 0.25, 0.5, 1.0]


def frac_prox(segs, sid, depth=0):
    """exact (Fraction) actual proximal point of segment `sid` among `segs`, or None"""
    seg = next((s for s in segs if s[0] == sid), None)
    if seg is None or depth > len(segs) + 1:
        return None
    if seg[1] is not None:
        return [Fraction(x) for x in seg[1]]
    if seg[3] is None:
        return None
    parent = next((s for s in segs if s[0] == seg[3][0]), None)
    if parent is None:
        return None
    pd, f = [Fraction(x) for x in parent[2]], Fraction(seg[3][1])
    if f == 1:
        return pd
    pp = frac_prox(segs, seg[3][0], depth + 1)
    return None if pp is None else [a + f * (b - a) for a, b in zip(pp, pd)]


def gen_cell(rng, exact):
    n = rng.randint(1, 6)
    e = rng.randint(-20, 20)
    u = math.ldexp(1.0, e)

    def pt():
        if exact:
            return [rng.randint(-2 ** 12, 2 ** 12) * u for _ in range(3)] + [rng.randint(0, 64) * u / 8]
        m = 10 ** rng.uniform(-3, 3)
        return [mant(rng) * m for _ in range(3)] + [abs(mant(rng)) * 10 ** rng.uniform(-2, 2)]

    def exact_distal(segs, seg):
        """distal = actual proximal + Pythagorean-quadruple (or axis-aligned) offset: all `**` results exact"""
        pr = frac_prox(segs + [seg], seg[0])
        if pr is None:
            return
        delta = pyth(rng) if rng.random() < 0.8 else [rng.randint(1, 4096), 0, 0]
        d = [float(pr[i] + Fraction(delta[i]) * Fraction(u)) for i in range(3)]
        r = rng.random()
        seg[2] = d + [float(pr[3]) if r < 0.3 else seg[2][3]]
    ids = rng.sample(range(0, 12), n)
    segs = []
    for i, sid in enumerate(ids):
        d = pt()
        if i == 0:
            seg = [sid, pt() if rng.random() < 0.93 else None, d, None]
            if exact:
                exact_distal(segs, seg)
            segs.append(seg)
            continue
        pid = rng.choice(ids[:i]) if rng.random() < 0.95 else rng.choice(ids + [99])
        r = rng.random()
        f = rng.choice(FRACTS) if (exact or r < 0.5) else rng.random()
        own = rng.random() < 0.35
        p = pt() if own else None
        seg = [sid, p, d, [pid, f]]
        if exact and rng.random() < 0.9:
            exact_distal(segs, seg)
        if rng.random() < 0.08:                      # zero-length child at the attachment point
            parent = next((s for s in segs if s[0] == pid), None)
            if parent is not None and f == 1.0 and p is None:
                seg[2] = list(parent[2][:3]) + [parent[2][3] if rng.random() < 0.5 else d[3]]
        segs.append(seg)
    if rng.random() < 0.04 and n >= 2:
        segs[0][1] = None
        segs[0][3] = [segs[-1][0], rng.choice(FRACTS)]          # parent cycle
    if rng.random() < 0.04 and n >= 2:
        segs[-1][0] = segs[0][0]                                  # duplicate id
    q = rng.choice([s[0] for s in segs]) if rng.random() < 0.95 else 77
    return {"kind": "cell", "segs": [[s[0], hx(s[1]), hx(s[2]), None if s[3] is None else [s[3][0], float(s[3][1]).hex()]]
                                     for s in segs], "q": q}


H1 = (1.0).hex()


def _seg(p, d, **kw):
    return dict({"kind": "seg", "p": hx(p), "d": hx(d), "ks": [0.125]}, **kw)


CORPUS = [
    # the repo's own examples: unit sphere, cylinder, generic frustum
    _seg([0, 0, 0, 1.0], [0, 0, 0, 1.0]),
    _seg([0, 0, 0, 1.0], [10, 0, 0, 1.0]),
    _seg([0.9, 0, 0, 0.9], [1.5, 2.5, 3.5, 0.6]),
    # KNOWN FINDING: coincident centres, different diameters -> raises
    _seg([0, 0, 0, 2.0], [0, 0, 0, 4.0]),
    # nearly coincident (1 ulp apart), equal and unequal radii
    _seg([1.0, 1.0, 1.0, 2.0], [1.0 + 2 ** -52, 1.0, 1.0, 2.0]),
    _seg([1.0, 1.0, 1.0, 2.0], [1.0, 1.0 - 2 ** -53, 1.0, 3.0]),
    # zero diameters (cone, line), zero length with zero diameters
    _seg([0, 0, 0, 0.0], [3, 4, 12, 2.0]),
    _seg([1, 2, 3, 0.0], [4, 6, 15, 0.0]),
    _seg([1, 2, 3, 0.0], [1, 2, 3, 0.0]),
    # large / small magnitudes inside the range
    _seg([1e90, -2e90, 3e90, 1e-90], [-1e90, 2e90, 5e90, 3e-90]),
    _seg([1e-90, -2e-90, 3e-90, 1e90], [-1e-90, 2e-90, 5e-90, 3e90]),
    # KNOWN FINDINGS: overflow / underflow outside the range
    _seg([0, 0, 0, 2.0], [1e200, 0, 0, 2.0]),
    _seg([0, 0, 0, 2.0], [1e-200, 0, 0, 2.0]),
    # missing proximal
    {"kind": "seg", "p": None, "d": hx([1, 2, 3, 1.0])},
    # exact grid case with translation and scaling
    _seg([3.0, 4.0, 0.0, 2.0], [6.0, 8.0, 12.0, 6.0], trans=hx([1024.0, -512.0, 0.5]), ks=[3.0, 10.0]),
    # the repo's test cell: seg1 / seg3 inherit their proximal point; all four fractions
] + [
    {"kind": "cell", "segs": [[0, hx([0, 0, 0, 1.0]), hx([0, 0, 0, 1.0]), None],
                              [1, None, hx([10, 0, 0, 1.0]), [0, H1]],
                              [2, hx([10, 0, 0, 1.0]), hx([20, 0, 0, 1.0]), [1, H1]],
                              [3, None, hx([15, 10, 0, 1.0]), [2, float(f).hex()]]], "q": q}
    for f in (0.0, 0.25, 0.5, 1.0) for q in (1, 3)
] + [
    # chain of inherited points with tapering diameters, fractions 0 / .25 / .5
    {"kind": "cell", "segs": [[5, hx([0, 0, 0, 4.0]), hx([8, 0, 0, 2.0]), None],
                              [2, None, hx([4, 4, 0, 1.0]), [5, (0.5).hex()]],
                              [7, None, hx([4, 4, 8, 0.5]), [2, (0.25).hex()]],
                              [1, None, hx([0, 3, 4, 0.5]), [7, (0.0).hex()]]], "q": q} for q in (2, 7, 1)
] + [
    # KNOWN FINDING at cell level: zero-length child at the parent's distal point with another diameter
    {"kind": "cell", "segs": [[0, hx([0, 0, 0, 2.0]), hx([10, 0, 0, 2.0]), None],
                              [1, None, hx([10, 0, 0, 1.0]), [0, H1]]], "q": 1},
    # parent cycle without proximal points, unknown id, unknown parent
    {"kind": "cell", "segs": [[0, None, hx([1, 0, 0, 1.0]), [1, (0.5).hex()]],
                              [1, None, hx([2, 0, 0, 1.0]), [0, (0.5).hex()]]], "q": 0},
    {"kind": "cell", "segs": [[0, hx([0, 0, 0, 1.0]), hx([1, 0, 0, 1.0]), None]], "q": 4},
    {"kind": "cell", "segs": [[0, None, hx([1, 0, 0, 1.0]), [9, (0.5).hex()]]], "q": 0},
]


# ------------------------------------------------------------------ running cases
def decode(case):
    if case["kind"] == "seg":
        return unhx(case["p"]), unhx(case["d"])
    segs = [[s[0], unhx(s[1]), unhx(s[2]), None if s[3] is None else [s[3][0], float.fromhex(s[3][1])]]
            for s in case["segs"]]
    return segs, case["q"]


def nontrivial_seg(p, d):
    if p is None:
        return False
    ndiff = sum(1 for a, b in zip(p[:3], d[:3]) if a != b)
    return ndiff != 1 or p[3] != d[3]


def run_cases(ctx, cases, stream, use_driver=True):
    lines = []
    for c in cases:
        a, b = decode(c)
        lines.append(seg_line(a, b) if c["kind"] == "seg" else cell_line(a, b))
    rc, out = fw.run_driver("C12", ['{"op":"pi"}'] + lines) if use_driver else (0, [])
    ok_driver = use_driver and rc == 0 and len(out) == len(lines) + 1
    if not use_driver:
        pass
    elif not ok_driver:
        ctx.disagree("driver", "driver failed rc=%s (%d lines for %d)" % (rc, len(out), len(lines) + 1), "\n".join(out[-5:]), None)
    else:
        pim = json.loads(out[0])
        if pim.get("ok") != f2b(math.pi):
            ctx.disagree("pi", "math.pi", math.pi.hex(), pim)
    for i, c in enumerate(cases):
        model = json.loads(out[i + 1]) if ok_driver else None
        a, b = decode(c)
        canon = {k: c[k] for k in c if k in ("kind", "p", "d", "segs", "q")}
        if c["kind"] == "seg":
            p, d = a, b
            real = real_seg(p, d)
            nt = nontrivial_seg(p, d)
            ctx.seen(canon, nontrivial=nt)
            ctx.count("stream:" + stream)
            ex = p is not None and pow_exact(p, d)
            ctx.count("seg:" + ("no-proximal" if p is None else ("pow-exact" if ex else "inexact")))
            if model is not None:
                for k in real:
                    ctx.corr_evals += 1
                    why = same(real[k], model.get(k, {"err": ["missing", ""]}), ex)
                    if why:
                        ctx.disagree("float-model:" + k, c, canon_res(real[k]), {"model": canon_model(model.get(k, {"err": ["missing", ""]})), "why": why})
            if p is None:
                continue
            spec = oracle_seg(ctx, p, d, real, c)
            ctx.count("branch:" + spec["branch"])
            ctx.count("range:" + range_class(p, d))
            metamorphic(ctx, p, d, real, c, trans=unhx(c.get("trans")), ks=list(c.get("ks", [])))
            ctx.sample({"p": p, "d": d, "real": {k: (real[k].get("ok", real[k].get("err", [""])[0])) for k, _ in QS}})
        else:
            segs, q = a, b
            real = real_cell(segs, q)
            seg = next((s for s in segs if s[0] == q), None)
            inherited = seg is not None and seg[1] is None and "ok" in real["prox"]
            ctx.seen(canon, nontrivial=inherited)
            ctx.count("stream:" + stream)
            ctx.count("cell:" + ("inherited" if inherited else ("own" if seg is not None and seg[1] is not None else "undefined")))
            if inherited and seg[3] is not None:
                f = seg[3][1]
                ctx.count("fraction:" + (repr(f) if f in FRACTS else "other"))
            if model is not None:
                ex = False
                if "ok" in real["prox"] and seg is not None:
                    ex = pow_exact(real["prox"]["ok"], seg[2])
                    ctx.count("cell:" + ("pow-exact" if ex else "inexact"))
                for k in ("prox", "length", "volume", "area"):
                    ctx.corr_evals += 1
                    why = same(real[k], model.get(k, {"err": ["missing", ""]}), ex)
                    if why:
                        ctx.disagree("float-model:cell:" + k, c, canon_res(real[k]), {"model": canon_model(model.get(k, {"err": ["missing", ""]})), "why": why})
            oracle_cell(ctx, segs, q, real, c)


def run(ctx):
    m = ctx.search_mult
    run_cases(ctx, [json.loads(json.dumps(c)) for c in CORPUS], "corpus")
    rng = ctx.rng
    run_cases(ctx, [gen_exact(rng) for _ in range(ctx.n(2000, 36000) * m)], "exact")
    run_cases(ctx, [gen_general(rng) for _ in range(ctx.n(4000, 60000) * m)], "general")
    run_cases(ctx, [gen_grid(rng) for _ in range(ctx.n(1500, 24000) * m)], "grid")
    run_cases(ctx, [gen_extreme(rng) for _ in range(ctx.n(200, 3000))], "extreme")
    run_cases(ctx, [gen_cell(rng, True) for _ in range(ctx.n(1000, 15000) * m)], "cell-exact")
    run_cases(ctx, [gen_cell(rng, False) for _ in range(ctx.n(1000, 15000) * m)], "cell-general")


def regenerate(ctx):
    tdir = os.path.join(fw.VERIF, "translators")
    if tdir not in sys.path:
        sys.path.insert(0, tdir)
    import py2lean_geom
    return py2lean_geom.regenerate(fw.REPO, os.path.join(fw.LEAN, "NmlVerif", "Gen", "Geom.lean"))


def replay(ctx, payload):
    case = payload["case"]
    case = {k: case[k] for k in case if k in ("kind", "p", "d", "segs", "q", "trans", "ks")}
    # self-contained: retranslate the current tree and rebuild the Float model; without a model only the oracle runs
    gaps = regenerate(ctx)
    ok, _ = fw.lake_build(["NmlVerif.Model.Geom"])
    run_cases(ctx, [case], "replay", use_driver=ok and not gaps)
    return {"fails": bool(ctx.failures or ctx.corr_disagreements or gaps), "translator_gaps": gaps,
            "model_built": ok, "failures": ctx.failures, "disagreements": ctx.corr_disagreements}
