"""C13 — morphology metrics equal their definition on every tree.

Tie: hand model (lean/NmlVerif/Model/Morph.lean, over Rat) + correspondence with EXACT arithmetic: generated cells
have small dyadic coordinates on axis-aligned segments and fractions in {0, 1/4, 1/2, 1}, so every float operation
of the library is exact; every float result is converted with fractions.Fraction and compared with the model's
rational. The full-property oracle is a recursive reference over the parent relation written here (independent of
the Lean model), evaluated on the real code.
"""
import itertools
import json
import os
import subprocess
import sys
from fractions import Fraction as F

import fw

LEAN_PROPS = ["NmlVerif.Props.C13", "NmlVerif.Props.C13SP", "NmlVerif.Props.C13Hist", "NmlVerif.Props.C13Gen",
              "NmlVerif.Props.C13Rename", "NmlVerif.Props.C13Geom"]
LEVEL = "proof"
RULE = ("cells built from a rooted tree shape (exhaustive stream: every unordered rooted tree shape with <= 6 "
        "segments; random stream: random recursive trees up to 200 segments, chains, stars, caterpillars) x an id "
        "numbering / file order (identity; reversed = root has the largest id, children precede parents in the "
        "file; scattered ids in a scrambled file order) x per non-root segment {proximal present, absent} x "
        "fraction_along in {0, 1/4, 1/2, 1}; dyadic geometry with exactly representable lengths: half of the segment "
        "vectors axis-aligned, half oblique (Pythagorean quadruples scaled by powers of two); queries: every method of "
        "the property with root / non-root / default sources, several cut-off distances, several segment-group "
        "selections and every call shape of get_ordered_segments_in_groups. History stream: 3-9 operations on ONE cell "
        "object (calls of the eight cached methods with root / non-root / default sources, the same call again, "
        "edits of the morphology -- append / remove a leaf, change a fraction, re-attach a subtree --, the documented "
        "refresh or half of it); after every operation the result and both cache attributes are compared with the "
        "model; the definition is demanded of every answer that the documented cache protocol says is up to date "
        "(always on a never-edited cell). A case is non-trivial when it has >= 3 segments, at least one segment "
        "without proximal point and at least one fraction_along strictly between 0 and 1 (every history counts); "
        "distinct = distinct canonical JSON")
TRUST = [
    "hand-written model of get_ordered_segments_in_groups / get_segment_location_info (Model/Morph.lean), tied by "
    "correspondence and PINNED to the source text by an AST hash (py2lean_morph.PINS): a changed source is a gap",
    "translator translators/py2lean_morph.py (validated, not verified): the eight graph methods are regenerated from "
    "helper_methods.py AND nml.py on every run and proved equal to the hand model (Props/C13Gen.lean); its vocabulary "
    "Model/MorphBase.lean says what dict operations, nx.DiGraph.add_edge / add_nodes_from / out_degree / in_degree mean",
    "networkx single_source_dijkstra / dijkstra_path_length = shortest path (modelled by an executable Bellman-Ford "
    "recurrence on any weighted digraph, proved to be the minimum over walks and, on a forest, the unique chain; "
    "sampled by the correspondence on every case, root / non-root sources, trees and forests); the cut-off variant "
    "assumes non-negative edge weights; nx.add_edge on an existing (u, v) is not modelled (cannot occur for unique ids)",
    "CPython float arithmetic is exact on the generated dyadic inputs (checked: the exact-rational oracle would "
    "disagree otherwise); float division in get_segments_at_distance is compared as the correctly rounded quotient",
]
ASSUMPTIONS = [
    "theorems are parametric in the segment length function len : Nat -> Rat; Props/C13Geom.lean ties it to the point "
    "coordinates (C12's translated get_segment_length over the reals returns exactly that rational) whenever the "
    "Euclidean length is rational -- every generated geometry; irrational lengths stay a parameter (C12 covers sqrt); "
    "segments-at-distance additionally assumes len >= 0 and 0 <= fraction_along",
    "well-formed forest: unique ids, parents exist, acyclic, parentless segments carry a proximal point; exactly one "
    "parentless segment for the root / tips / distance-from-root clauses",
    "call histories: the property is demanded of every answer computed from caches that are up to date under the "
    "documented protocol (never-edited cell: always; after an edit: after get_segment_adjacency_list() + get_graph()); "
    "answers from out-of-date caches are documented API behaviour: compared with the model, not with the definition; "
    "an exception inside the loop of get_extremeties is modelled as leaving the object as it was at loop entry",
    "segment groups used for get_ordered_segments_in_groups list their members directly (group inclusion is C14)",
    "get_segment_location_info (repaired: total on every tree) is modelled without unbranched-section groups (C16)",
]

FRACS = [F(0), F(1, 4), F(1, 2), F(1)]
AXES = [(1, 0, 0), (0, 1, 0), (0, 0, 1), (-1, 0, 0), (0, -1, 0), (0, 0, -1)]
# Pythagorean quadruples (a, b, c, n): a^2 + b^2 + c^2 = n^2; a segment vector k * (+-a, +-b, +-c) in any order with a
# dyadic k has the exactly representable length k * n, and every float operation of the library on it is exact
QUADS = [(3, 4, 0, 5), (1, 2, 2, 3), (2, 3, 6, 7), (1, 4, 8, 9), (4, 4, 7, 9), (2, 6, 9, 11), (6, 6, 7, 11), (3, 4, 12, 13)]
QSCALE = [F(1, 4), F(1, 2), F(1), F(2), F(3, 4), F(1, 8)]


def random_vector(rng):
    """(dx, dy, dz) with an exactly representable Euclidean length; half axis-aligned, half oblique; 4 % zero"""
    if rng.random() < 0.04:
        return (F(0), F(0), F(0))
    if rng.random() < 0.5:
        L, ax = rng.choice(LENS), rng.choice(AXES)
        return (L * ax[0], L * ax[1], L * ax[2])
    a, b, c, _n = rng.choice(QUADS)
    k = rng.choice(QSCALE)
    v = [a, b, c]
    rng.shuffle(v)
    return tuple(k * x * rng.choice((1, -1)) for x in v)

LENS = [F(1), F(2), F(3), F(1, 2), F(5, 4), F(4), F(3, 2), F(8)]
DIAMS = [F(1), F(2), F(1, 2), F(3), F(3, 4)]
SCATTER = [7, 3, 12, 0, 9, 5]
SCATTER_ORDER = [2, 0, 5, 3, 1, 4]
MAXBITS = 20


# ------------------------------------------------------------------ tree shapes
def rooted_shapes(n):
    """every unordered rooted tree with n nodes, once, as a parent array in DFS preorder (parent[0] = -1)"""
    def canon(par):
        ch = {}
        for i, p in enumerate(par):
            ch.setdefault(p, []).append(i)

        def enc(v):
            return "(" + "".join(sorted(enc(c) for c in ch.get(v, []))) + ")"
        return enc(0)
    seen, out = set(), []
    for tail in itertools.product(*[range(i) for i in range(1, n)]):
        par = [-1] + list(tail)
        c = canon(par)
        if c not in seen:
            seen.add(c)
            out.append(par)
    return out


def sstr(x):
    return str(F(x))


def bits(x):
    return F(x).denominator.bit_length() - 1


def build_case(par, numbering, opts, rng, queries=True):
    """par: parent index array (parent before child); numbering in identity/reversed/scattered/random;
    opts[k] = (has_prox, frac) for node k >= 1. Returns the JSON case."""
    n = len(par)
    if numbering == "identity":
        idof = list(range(n)); order = list(range(n))
    elif numbering == "reversed":
        idof = [n - 1 - k for k in range(n)]; order = list(range(n - 1, -1, -1))
    elif numbering == "scattered" and n <= len(SCATTER):
        idof = SCATTER[:n]; order = [k for k in SCATTER_ORDER if k < n]
    else:
        pool = rng.sample(range(0, 3 * n + 5), n)
        if rng.random() < 0.5 and 0 not in pool:
            pool[rng.randrange(n)] = 0
        idof = pool; order = list(range(n)); rng.shuffle(order)
    # geometry (exact rationals): actual proximal by the definition, distal = actual proximal + L * axis
    aprox, dist, prox = [None] * n, [None] * n, [None] * n
    for k in range(n):
        if par[k] < 0:                            # a root (k == 0; k > 0 only in the forest stream)
            prox[k] = (F(rng.choice([0, 0, 1, -2])), F(2 * k), F(rng.choice([0, 3])), rng.choice(DIAMS))
            ap = prox[k]
        else:
            hasp, f = opts[k]
            p = par[k]
            attach = tuple((1 - f) * a + f * b for a, b in zip(aprox[p], dist[p]))
            if not hasp and max(bits(c) for c in attach) > MAXBITS:
                hasp = True                       # keep every float exact: no deeper dyadic refinement
            if hasp:
                r = rng.random()
                if r < 0.6:
                    ap = tuple(F(c.numerator * 4 // c.denominator, 4) for c in attach[:3]) + (rng.choice(DIAMS),)
                    if max(bits(c) for c in attach) <= 4:
                        ap = attach[:3] + (rng.choice(DIAMS),)
                else:                             # proximal point away from the parent (allowed by the schema)
                    ap = (F(rng.randint(-8, 8)), F(rng.randint(-8, 8), 2), F(rng.randint(-4, 4)), rng.choice(DIAMS))
                prox[k] = ap
            else:
                ap = attach
        aprox[k] = ap
        vx, vy, vz = random_vector(rng)
        dist[k] = (ap[0] + vx, ap[1] + vy, ap[2] + vz, rng.choice(DIAMS))
    segs = []
    for k in order:
        s = {"id": idof[k], "par": None, "prox": None, "dist": [sstr(c) for c in dist[k]]}
        if par[k] >= 0:
            s["par"] = [idof[par[k]], sstr(opts[k][1])]
        if prox[k] is not None:
            s["prox"] = [sstr(c) for c in prox[k]]
        segs.append(s)
    case = {"segs": segs}
    if queries:
        add_queries(case, rng)
    return case


def add_queries(case, rng):
    idl = [s["id"] for s in case["segs"]]
    root = [s["id"] for s in case["segs"] if s["par"] is None][0]
    n = len(idl)
    some = idl if n <= 6 else rng.sample(idl, 6)
    other = rng.choice(idl)
    case["srcs"] = sorted({root, other, 0})
    case["pairs"] = [[root, i] for i in some] + [[0, i] for i in some[:3]] + [[other, rng.choice(idl)], [rng.choice(idl), other]]
    ds = [F(0), F(rng.randint(0, 12), 2), F(rng.randint(0, 40), 4), F(rng.randint(0, 8 + 2 * n))]
    case["atd"] = [[sstr(d), root] for d in ds] + [[sstr(ds[1]), other], [sstr(ds[2]), 0]]
    if rng.random() < 0.2:
        case["atd"].append([sstr(F(-rng.randint(1, 6), 2)), root])     # negative: correspondence only
    groups = [list(idl)]
    sub = [i for i in idl if rng.random() < 0.5]
    rng.shuffle(sub)
    groups.append(sub)
    groups.append([rng.choice(idl)])
    if n > 2:
        groups.append(rng.sample(idl, 2))
    case["groups"] = groups
    case["loc"] = some


# ------------------------------------------------------------------ real library
def qstr(x):
    """float / int result of the library -> exact rational string"""
    return str(F(x))


def build_cell(case):
    import neuroml as n
    cell = n.Cell(id="c13")
    cell.morphology = n.Morphology(id="m")
    for s in case["segs"]:
        seg = n.Segment(id=s["id"], name="s%d" % s["id"])
        if s["par"] is not None:
            f = F(s["par"][1])
            if f == 1 and s["id"] % 2 == 0:
                seg.parent = n.SegmentParent(segments=s["par"][0])          # default fraction_along (1)
            else:
                seg.parent = n.SegmentParent(segments=s["par"][0], fraction_along=float(f))
        if s["prox"] is not None:
            x, y, z, d = [float(F(c)) for c in s["prox"]]
            seg.proximal = n.Point3DWithDiam(x=x, y=y, z=z, diameter=d)
        x, y, z, d = [float(F(c)) for c in s["dist"]]
        seg.distal = n.Point3DWithDiam(x=x, y=y, z=z, diameter=d)
        cell.morphology.segments.append(seg)
    for gi, g in enumerate(case.get("groups", [])):
        sg = n.SegmentGroup(id="g%d" % gi)
        for i in g:
            sg.members.append(n.Member(segments=i))
        cell.morphology.segment_groups.append(sg)
    return cell


def attempt(f):
    try:
        return f()
    except Exception as e:  # noqa
        return ("exc", type(e).__name__)


def is_exc(x):
    return isinstance(x, tuple) and len(x) == 2 and x[0] == "exc"


def run_real(case):
    """all observations on a freshly built cell, in the driver's output shape (None = raised)"""
    cell = build_cell(case)
    idl = [s["id"] for s in case["segs"]]
    out = {"exc": {}}

    def note(name, r):
        if is_exc(r):
            out["exc"][name] = r[1]
            return None
        return r

    def ap(i):
        p = cell.get_actual_proximal(i)
        return [qstr(p.x), qstr(p.y), qstr(p.z), qstr(p.diameter)]
    out["aprox"] = [[i, note("aprox", attempt(lambda: ap(i)))] for i in idl]
    out["len"] = [[i, note("len", attempt(lambda: qstr(cell.get_segment_length(i))))] for i in idl]
    # ordered-segments first (it does not touch the graph caches)
    gids = ["g%d" % k for k in range(len(case.get("groups", [])))]
    ordered = []
    if gids:
        r = note("ordered", attempt(lambda: cell.get_ordered_segments_in_groups(
            gids if len(gids) > 1 else gids[0], include_cumulative_lengths=True, include_path_lengths=True)))
        for g in gids:
            if r is None or g not in r[0]:
                ordered.append(None)
                continue
            ordered.append({"ord": [s.id for s in r[0][g]], "cum": [qstr(x) for x in r[1][g]],
                            "prox": sorted([k, qstr(v)] for k, v in r[2][g].items()),
                            "dist": sorted([k, qstr(v)] for k, v in r[3][g].items())})
    out["ordered"] = ordered
    # the other call shapes of the same method (a tenth of the cases of the exhaustive sweep, every other case)
    out["variants"] = ordered_variants(cell, case, gids, r if gids else None) if case.get("variants", True) else []
    adj = note("adj", attempt(lambda: cell.get_segment_adjacency_list()))
    out["adj"] = None if adj is None else [[k, list(v)] for k, v in adj.items()]
    g = note("graph", attempt(lambda: cell.get_graph()))
    out["nodes"] = None if g is None else list(g.nodes)
    # networkx reports edges node-major, the model in insertion order: compared as a sorted list
    out["edges"] = None if g is None else sorted([u, v, qstr(d["weight"])] for u, v, d in g.edges(data=True))
    out["root"] = note("root", attempt(lambda: cell.get_morphology_root()))
    out["branch"] = note("branch", attempt(lambda: list(cell.get_branching_points())))
    t = note("tips", attempt(lambda: cell.get_extremeties()))
    out["tips"] = None if t is None else [[k, qstr(v)] for k, v in t.items()]
    alld = []
    for s in case.get("srcs", []):
        r = note("alld", attempt(lambda: cell.get_all_distances_from_segment(s)))
        alld.append([s, None if r is None else sorted([k, qstr(v)] for k, v in r[0].items())])
        if r is not None:       # the paths dict: every path starts at the source and ends at its key
            for k, pth in r[1].items():
                if pth[0] != s or pth[-1] != k:
                    out["exc"]["alld-path"] = "bad path"
    out["alld"] = alld
    dist = []
    for (s, d) in case.get("pairs", []):
        if s == 0:
            r = note("dist", attempt(lambda: cell.get_distance(d)))           # default source
        else:
            r = note("dist", attempt(lambda: cell.get_distance(d, source=s)))
        dist.append([s, d, None if r is None else qstr(r)])
    out["dist"] = dist
    atd = []
    for (dd, s) in case.get("atd", []):
        if s == 0:
            r = note("atd", attempt(lambda: cell.get_segments_at_distance(float(F(dd)))))
        else:
            r = note("atd", attempt(lambda: cell.get_segments_at_distance(float(F(dd)), s)))
        atd.append([sstr(F(dd)), s, None if r is None else sorted([k, v] for k, v in r.items())])   # floats kept
    out["atd"] = atd
    loc = []
    for i in case.get("loc", []):
        r = note("loc", attempt(lambda: cell.get_segment_location_info(i)))
        loc.append([i, None if r is None else [qstr(r["length"]), qstr(r["distance_from_cell_root"]),
                                                 qstr(r["distance_from_nearest_branching_point"])]])
    out["loc"] = loc
    return out, cell


def ordered_variants(cell, case, gids, full):
    """the other call shapes of get_ordered_segments_in_groups (a single id as a string, a subset of the groups, each
    combination of the two include_* flags, check_parentage): every one must be the corresponding projection of the
    full call; check_parentage must raise exactly when a non-first segment's parent is not an earlier member.
    Returns a list of problems (strings)."""
    bad = []
    if not gids or full is None:
        return bad
    ids = lambda d: {k: [s.id for s in v] for k, v in d.items()}          # noqa: E731
    f_ord, f_cum, f_pp, f_pd = ids(full[0]), full[1], full[2], full[3]
    sub = gids[::2]
    for sel in (gids[0], sub, [gids[-1]]):
        keys = [sel] if isinstance(sel, str) else list(sel)
        want = {k: f_ord[k] for k in keys}
        r0 = attempt(lambda: cell.get_ordered_segments_in_groups(sel))
        if is_exc(r0) or ids(r0) != want or list(r0.keys()) != keys:
            bad.append("plain call on %r differs from the full call" % (sel,))
        r1 = attempt(lambda: cell.get_ordered_segments_in_groups(sel, include_path_lengths=True))
        if is_exc(r1) or len(r1) != 3 or ids(r1[0]) != want or r1[1] != {k: f_pp[k] for k in keys} or r1[2] != {k: f_pd[k] for k in keys}:
            bad.append("include_path_lengths only on %r differs from the full call" % (sel,))
        r2 = attempt(lambda: cell.get_ordered_segments_in_groups(sel, include_cumulative_lengths=True))
        if is_exc(r2) or len(r2) != 2 or ids(r2[0]) != want or r2[1] != {k: f_cum[k] for k in keys}:
            bad.append("include_cumulative_lengths only on %r differs from the full call" % (sel,))
    par = {s["id"]: (None if s["par"] is None else s["par"][0]) for s in case["segs"]}
    for g, gid in zip(case["groups"], gids):
        o = f_ord[gid]
        expect_raise = any(par[i] is None or par[i] not in o[:k] for k, i in enumerate(o) if i != o[0])
        r3 = attempt(lambda: cell.get_ordered_segments_in_groups(gid, check_parentage=True))
        if is_exc(r3) != expect_raise or (not is_exc(r3) and ids(r3) != {gid: o}):
            bad.append("check_parentage on group %r: raised=%s expected=%s" % (g, is_exc(r3), expect_raise))
    return bad


# ------------------------------------------------------------------ model output canonicalisation
def norm_q(s):
    return str(F(s))


def canon_model(m):
    if m.get("res") != "ok":
        return m
    o = {"res": "ok"}
    o["aprox"] = [[i, None if p is None else [norm_q(c) for c in p]] for i, p in m["aprox"]]
    o["len"] = [[i, norm_q(x)] for i, x in m["len"]]
    o["adj"] = m["adj"]
    o["nodes"] = m["nodes"]
    o["edges"] = sorted([u, v, norm_q(w)] for u, v, w in m["edges"])
    o["root"] = m["root"]
    o["branch"] = m["branch"]
    o["tips"] = None if m["tips"] is None else [[k, norm_q(v)] for k, v in m["tips"]]
    o["alld"] = [[s, None if l is None else sorted([k, norm_q(v)] for k, v in l)] for s, l in m["alld"]]
    o["dist"] = [[s, d, None if x is None else norm_q(x)] for s, d, x in m["dist"]]
    # exact quotient -> the correctly rounded double the library must have produced
    o["atd"] = [[norm_q(d), s, None if l is None else sorted([k, float(F(v))] for k, v in l)] for d, s, l in m["atd"]]
    o["loc"] = [[i, None if r is None else [norm_q(c) for c in r]] for i, r in m["loc"]]
    o["ordered"] = [None if r is None else {"ord": r["ord"], "cum": [norm_q(x) for x in r["cum"]],
                                            "prox": sorted([k, norm_q(v)] for k, v in r["prox"]),
                                            "dist": sorted([k, norm_q(v)] for k, v in r["dist"])} for r in m["ordered"]]
    return o


COMPARED = ["aprox", "len", "adj", "nodes", "edges", "root", "branch", "tips", "alld", "dist", "atd", "loc", "ordered"]


# ------------------------------------------------------------------ oracle: recursive reference over the parent relation
class Ref:
    def __init__(self, case):
        self.segs = {s["id"]: s for s in case["segs"]}
        self.order = [s["id"] for s in case["segs"]]
        self._ap, self._tp, self._len = {}, {}, {}

    def parent(self, i):
        p = self.segs[i]["par"]
        return None if p is None else (p[0], F(p[1]))

    def pt(self, l):
        return tuple(F(c) for c in l)

    def actual_prox(self, i):
        if i not in self._ap:
            s = self.segs[i]
            if s["prox"] is not None:
                self._ap[i] = self.pt(s["prox"])
            else:
                p, f = self.parent(i)
                a, b = self.actual_prox(p), self.pt(self.segs[p]["dist"])
                self._ap[i] = tuple(a[k] + f * (b[k] - a[k]) for k in range(4))
        return self._ap[i]

    def length2(self, i):
        a, b = self.actual_prox(i), self.pt(self.segs[i]["dist"])
        return sum((a[k] - b[k]) ** 2 for k in range(3))

    def length(self, i):
        """exact square root (the generator makes it rational); None if irrational"""
        if i not in self._len:
            q = self.length2(i)
            import math
            rn, rd = math.isqrt(q.numerator), math.isqrt(q.denominator)
            self._len[i] = F(rn, rd) if rn * rn == q.numerator and rd * rd == q.denominator else None
        return self._len[i]

    def to_prox(self, i):
        if i not in self._tp:
            par = self.parent(i)
            self._tp[i] = F(0) if par is None else self.to_prox(par[0]) + par[1] * self.length(par[0])
        return self._tp[i]

    def to_dist(self, i):
        return self.to_prox(i) + self.length(i)

    def children(self, p):
        return [i for i in self.order if self.segs[i]["par"] is not None and self.segs[i]["par"][0] == p]

    def roots(self):
        return [i for i in self.order if self.segs[i]["par"] is None]

    def at_distance(self, d):
        res = {}
        for i in self.order:
            L = self.length(i)
            if L != 0 and self.to_prox(i) <= d <= self.to_dist(i):
                res[i] = (d - self.to_prox(i)) / L
        return res


def classify(case, what):
    idl = [s["id"] for s in case["segs"]]
    root = [s["id"] for s in case["segs"] if s["par"] is None]
    if what in ("tips", "root", "distance-root", "all-distances", "at-distance") and len(idl) == 1:
        return "C13:single-segment"
    if what in ("tips",) and root and root[0] != 0:
        return "C13:root-id-nonzero"
    return "C13:" + what


def oracle_ordered(case, real, ref, root):
    """ordered-segments clauses (valid on forests too: path lengths are measured from each tree's own root)"""
    fails = []

    def bad(what, text, detail):
        fails.append((classify(case, what), text, detail))
    # ordered segments: path lengths, cumulative lengths, order
    graph_prox = None
    for s, l in real["alld"]:
        if root is not None and s == root and l is not None:
            graph_prox = {k: v for k, v in l}
    for g, r in zip(case.get("groups", []), real["ordered"]):
        if r is None:
            bad("ordered-segments", "get_ordered_segments_in_groups raised / lost a group", {"group": g, "exc": real["exc"].get("ordered")})
            continue
        exp_ord = sorted(g) if len(g) > 1 else list(g)
        if r["ord"] != exp_ord:
            bad("ordered-segments", "segments are not ordered by id", {"group": g, "got": r["ord"]})
        exp_p = sorted([i, str(ref.to_prox(i))] for i in g)
        exp_d = sorted([i, str(ref.to_dist(i))] for i in g)
        if r["prox"] != exp_p or r["dist"] != exp_d:
            bad("path-lengths", "path lengths to proximal/distal differ from the definition", {"group": g, "got": [r["prox"], r["dist"]], "expected": [exp_p, exp_d]})
        tot, exp_c = F(0), []
        for i in r["ord"]:
            tot += ref.length(i)
            exp_c.append(str(tot))
        if r["cum"] != exp_c:
            bad("cumulative-lengths", "cumulative lengths are not the prefix sums in id order", {"group": g, "got": r["cum"], "expected": exp_c})
        if graph_prox is not None and any(graph_prox.get(k) != v for k, v in r["prox"]):
            bad("graph-vs-ordered", "graph-based and ordered-segments path lengths disagree", {"group": g})
    return fails


def oracle(case, real):
    """evaluate the full property on the real results; returns list of (key, what, detail)"""
    ref = Ref(case)
    fails = []
    idl = ref.order
    roots = ref.roots()
    root = roots[0]
    tree = len(roots) == 1          # the root / tips / distance-from-root clauses are about trees

    def bad(what, text, detail):
        fails.append((classify(case, what), text, detail))
    # effective proximal point
    for i, p in real["aprox"]:
        exp = [str(c) for c in ref.actual_prox(i)]
        if p != exp:
            bad("actual-proximal", "get_actual_proximal is not the point at fraction_along on the parent", {"seg": i, "got": p, "expected": exp})
            break
    # lengths (exact on this geometry)
    for i, x in real["len"]:
        if x is None or F(x) ** 2 != ref.length2(i):
            bad("segment-length", "get_segment_length is not the distance actual proximal -> distal", {"seg": i, "got": x})
            break
    # adjacency list
    # (as a relation: the order of the children inside a list is not part of the property)
    exp_adj = {p: sorted(ref.children(p)) for p in idl if ref.children(p)}
    got_adj = None if real["adj"] is None else {k: sorted(v) for k, v in real["adj"]}
    if got_adj != exp_adj or any(len(set(v)) != len(v) for v in got_adj.values()):
        bad("adjacency", "adjacency list differs from the parent relation", {"got": real["adj"], "expected": exp_adj})
    # root
    if len(roots) == 1 and real["root"] != root:
        bad("root", "get_morphology_root is not the segment without parent", {"got": real["root"], "expected": root, "exc": real["exc"].get("root")})
    # branch points
    exp_b = sorted(p for p in idl if len(ref.children(p)) >= 2)
    if real["branch"] is None or sorted(real["branch"]) != exp_b or len(set(real["branch"])) != len(real["branch"]):
        bad("branch-points", "branching points differ from segments with >= 2 children", {"got": real["branch"], "expected": exp_b})
    if not tree:
        return fails + oracle_ordered(case, real, ref, None)
    # tips with distance from the root
    exp_t = sorted([i, str(ref.to_prox(i))] for i in idl if not ref.children(i))
    if real["tips"] is None or sorted(real["tips"]) != exp_t:
        bad("tips", "extremities / their distances from the root differ from the definition", {"got": real["tips"], "expected": exp_t, "exc": real["exc"].get("tips")})
    # distances from the root
    for s, l in real["alld"]:
        if s == root:
            exp = sorted([i, str(ref.to_prox(i))] for i in idl)
            if l != exp:
                bad("all-distances", "distances from the root differ from the path lengths by definition", {"got": l, "expected": exp})
    for s, d, x in real["dist"]:
        if s == root and (x is None or F(x) != ref.to_prox(d)):
            bad("distance-root", "get_distance from the root differs from the path length by definition", {"dst": d, "got": x, "expected": str(ref.to_prox(d))})
            break
    # segments at distance
    for dd, s, l in real["atd"]:
        if s == root and F(dd) >= 0:
            exp = sorted([i, float(q)] for i, q in ref.at_distance(F(dd)).items())
            if l != exp:
                bad("at-distance", "segments at distance d differ from the definition", {"d": dd, "got": l, "expected": exp})
    fails += oracle_ordered(case, real, ref, root)
    # location info
    for i, r in real["loc"]:
        if r is None:
            fails.append(("C13:location-info:no-branching-ancestor" if no_branching_ancestor(ref, i) else "C13:location-info",
                          "get_segment_location_info raises", {"seg": i, "exc": real["exc"].get("loc")}))
        elif F(r[1]) != ref.to_prox(i) or F(r[0]) ** 2 != ref.length2(i):
            bad("location-info", "location info: length / distance from the root differ from the definition", {"seg": i, "got": r})
        else:
            top = stretch_top(ref, i)
            if F(r[2]) != ref.to_prox(i) - ref.to_prox(top):
                bad("location-info", "location info: distance from the nearest branching point is not the path length from "
                    "the first segment of the unbranched stretch (the root when no branch point lies above)",
                    {"seg": i, "got": r, "stretch_top": top, "expected": str(ref.to_prox(i) - ref.to_prox(top))})
    return fails


def stretch_top(ref, i):
    """first segment of the unbranched stretch containing i: walk up while the segment is an only child"""
    cur = i
    while True:
        par = ref.parent(cur)
        if par is None or len(ref.children(par[0])) != 1:
            return cur
        cur = par[0]


def no_branching_ancestor(ref, i):
    """no segment on the way from i up to the root (i included) has a sibling"""
    cur = i
    while True:
        par = ref.parent(cur)
        if par is None:
            return True
        if len(ref.children(par[0])) != 1:
            return False
        cur = par[0]


# ------------------------------------------------------------------ running cases
def nontrivial(case):
    segs = case["segs"]
    return (len(segs) >= 3 and any(s["prox"] is None for s in segs)
            and any(s["par"] is not None and F(s["par"][1]) not in (0, 1) for s in segs))


def eval_batch(cases, stream):
    """driver + real library + oracle on a batch; returns a summary that `merge` adds to the Ctx
    (so that batches can run in worker processes)"""
    import hashlib
    S = {"evals": 0, "corr": 0, "hashes": [], "counts": {}, "disagree": [], "fails": [], "keys": {}}

    def count(k, by=1):
        S["counts"][k] = S["counts"].get(k, 0) + by
    lines = [json.dumps(c) for c in cases]
    rc, out = fw.run_driver("C13", lines, timeout=3000)
    if rc != 0 or len(out) != len(lines):
        # the model is unavailable: the correspondence obligation is broken, the oracle still runs on the real code
        S["disagree"].append(("driver", "driver failed rc=%s (%d lines for %d cases)" % (rc, len(out), len(lines)),
                              "\n".join(out[-3:])[-600:], None))
        out = [None] * len(lines)
    for case, mo in zip(cases, out):
        m = None
        if mo is not None:
            try:
                m = canon_model(json.loads(mo))
            except Exception as e:  # noqa
                S["disagree"].append(("driver", case, "unparsable driver output: %r" % (e,), mo[:300]))
        real, _cell = run_real(case)
        n = len(case["segs"])
        S["evals"] += 1
        if nontrivial(case):
            S["hashes"].append(hashlib.sha1(json.dumps(case, sort_keys=True).encode()).hexdigest())
        count("stream:" + stream)
        count("segments:%s" % (n if n <= 6 else ("7-20" if n <= 20 else ("21-60" if n <= 60 else "61-200"))))
        rootid = [s["id"] for s in case["segs"] if s["par"] is None][0]
        count("root-id:" + ("0" if rootid == 0 else "nonzero"))
        if sum(1 for s in case["segs"] if s["par"] is None) > 1:
            count("forest(>1 root)")
        count("segments-without-proximal", sum(1 for s in case["segs"] if s["prox"] is None))
        _r = Ref(case)
        if any(sum(1 for k in range(3) if _r.actual_prox(i)[k] != _r.pt(_r.segs[i]["dist"])[k]) > 1 for i in _r.order):
            count("oblique-geometry(some segment not axis-aligned)")
        # ---- correspondence
        if m is not None:
            S["corr"] += 1
            if m.get("res") != "ok":
                S["disagree"].append(("model-domain", case, "real code ran", m))
            else:
                for k in COMPARED:
                    if real[k] != m[k]:
                        if len(S["disagree"]) < 5:
                            S["disagree"].append(("morph-model:" + k, case, real[k], m[k]))
                        break
        if real.get("variants"):
            if len(S["disagree"]) < 5:
                S["disagree"].append(("ordered-variants", case, real["variants"][:3], "projection of the full call"))
        # ---- full property on the real code
        for key, what, detail in oracle(case, real):
            count("fail:" + key)
            S["keys"][key] = S["keys"].get(key, 0) + 1
            if S["keys"][key] <= 2:
                S["fails"].append((key, what, {"case": case, "detail": detail}))
    return S


def merge(ctx, S):
    ctx.evaluations += S["evals"]
    ctx.corr_evals += S["corr"]
    ctx.nontrivial.update(S["hashes"])
    for k, v in S["counts"].items():
        ctx.count(k, v)
    for d in S["disagree"]:
        if len(ctx.corr_disagreements) < 20:
            ctx.disagree(*d)
    per = {}
    for f in ctx.failures:
        per[f["key"]] = per.get(f["key"], 0) + 1
    for key, what, case in S["fails"]:
        if per.get(key, 0) < 3:
            per[key] = per.get(key, 0) + 1
            ctx.fail(key, what, case)


def check_cases(ctx, cases, stream="tree"):
    merge(ctx, eval_batch(cases, stream))


def _exh_worker(job):
    """build + evaluate one slice of the exhaustive space in a worker process"""
    import random
    specs, seed = job
    rng = random.Random(seed)
    cases = []
    for par, numbering, opts in specs:
        c = build_case(par, numbering, opts, rng, queries=False)
        light_queries(c, rng)
        cases.append(c)
    return eval_batch(cases, "exhaustive")


def _rand_worker(job):
    import random
    k, seed = job
    rng = random.Random(seed)
    return eval_batch([random_case(rng, 200 if i % 4 == 0 else 40) for i in range(k)], "random")


def run_parallel(ctx, worker, jobs, procs):
    import multiprocessing as mp
    with mp.get_context("fork").Pool(procs) as pool:
        for S in pool.imap_unordered(worker, jobs):
            merge(ctx, S)


def stale_cache_stream(ctx, rng, k):
    """documented behaviour, reported only: results after editing the morphology come from the cached graph"""
    import neuroml as n
    stale = 0
    for _ in range(k):
        case = build_case([-1, 0, 1], "identity", [None, (True, F(1)), (True, F(1))], rng)
        cell = build_cell(case)
        try:
            before = cell.get_extremeties()
            seg = n.Segment(id=50, name="late", parent=n.SegmentParent(segments=2, fraction_along=1.0),
                            distal=n.Point3DWithDiam(x=99, y=0, z=0, diameter=1))
            cell.morphology.segments.append(seg)
            after = cell.get_extremeties()
            cell.get_segment_adjacency_list()
            cell.get_graph()
            refreshed = cell.get_extremeties()
        except Exception:  # noqa  (reporting only: the history stream is the check)
            continue
        if after == before and 50 in refreshed:
            stale += 1
    ctx.extra["stale_cache_observed"] = "%d/%d edits were invisible until get_segment_adjacency_list()+get_graph() were re-run (documented)" % (stale, k)



# ------------------------------------------------------------------ call histories on ONE cell object (caches)
def set_segments(cell, segs):
    """edit the morphology in place: the cell object (and whatever it cached) stays"""
    import neuroml as n
    new = []
    for s in segs:
        seg = n.Segment(id=s["id"], name="s%d" % s["id"])
        if s["par"] is not None:
            seg.parent = n.SegmentParent(segments=s["par"][0], fraction_along=float(F(s["par"][1])))
        if s["prox"] is not None:
            x, y, z, d = [float(F(c)) for c in s["prox"]]
            seg.proximal = n.Point3DWithDiam(x=x, y=y, z=z, diameter=d)
        x, y, z, d = [float(F(c)) for c in s["dist"]]
        seg.distal = n.Point3DWithDiam(x=x, y=y, z=z, diameter=d)
        new.append(seg)
    cell.morphology.segments[:] = new


def graph_obs(g):
    return {"nodes": list(g.nodes), "edges": sorted([u, v, qstr(d["weight"])] for u, v, d in g.edges(data=True))}


def adj_obs(a):
    return [[k, list(v)] for k, v in a.items()]


def run_real_history(case):
    """the operations of case["ops"] on ONE real Cell; per operation: result (None = raised), exception class, and the
    two cache attributes of the object afterwards"""
    cell = build_cell({"segs": case["segs"]})
    steps = []
    for op in case["ops"]:
        k = op["op"]
        src = op.get("src")
        if k == "edit":
            set_segments(cell, op["segs"])
            r = None
        elif k == "adj":
            r = attempt(lambda: adj_obs(cell.get_segment_adjacency_list()))
        elif k == "graph":
            r = attempt(lambda: graph_obs(cell.get_graph()))
        elif k == "dist":
            r = attempt(lambda: qstr(cell.get_distance(op["dst"]) if src is None else cell.get_distance(op["dst"], source=src)))
        elif k == "alld":
            r = attempt(lambda: sorted([a, qstr(b)] for a, b in (
                cell.get_all_distances_from_segment() if src is None else cell.get_all_distances_from_segment(src))[0].items()))
        elif k == "atd":
            d = float(F(op["d"]))
            r = attempt(lambda: sorted([a, b] for a, b in (
                cell.get_segments_at_distance(d) if src is None else cell.get_segments_at_distance(d, src)).items()))
        elif k == "branch":
            r = attempt(lambda: list(cell.get_branching_points()))
        elif k == "root":
            r = attempt(lambda: cell.get_morphology_root())
        elif k == "tips":
            r = attempt(lambda: [[a, qstr(b)] for a, b in cell.get_extremeties().items()])
        else:
            raise ValueError(k)
        exc = None
        if is_exc(r):
            exc, r = r[1], None
        a = getattr(cell, "adjacency_list", None)
        g = getattr(cell, "cell_graph", None)
        steps.append({"r": r, "exc": exc, "adj": None if a is None else adj_obs(a), "g": None if g is None else graph_obs(g)})
    return steps


def canon_graph(g):
    return None if g is None else {"nodes": g["nodes"], "edges": sorted([u, v, norm_q(w)] for u, v, w in g["edges"])}


def canon_model_history(case, m):
    if m.get("res") != "ok":
        return m
    steps = []
    for op, st in zip(case["ops"], m["steps"]):
        k, r = op["op"], st["r"]
        if r is not None:
            if k == "graph":
                r = canon_graph(r)
            elif k == "dist":
                r = norm_q(r)
            elif k == "alld":
                r = sorted([a, norm_q(b)] for a, b in r)
            elif k == "atd":
                r = sorted([a, float(F(b))] for a, b in r)
            elif k == "tips":
                r = [[a, norm_q(b)] for a, b in r]
        steps.append({"r": r, "adj": st["adj"], "g": canon_graph(st["g"])})
    return {"res": "ok", "steps": steps}


def oracle_history(case, steps):
    """What the property demands of a call history (independent of the Lean model).
    The documented cache protocol: `adjacency_list` is recomputed by every get_segment_adjacency_list(); `cell_graph`
    is rebuilt by every get_graph() from the stored adjacency list; after editing the morphology the user refreshes
    with get_segment_adjacency_list() then get_graph(). So: a result is demanded to equal the definition on the CURRENT
    morphology whenever everything it was computed from is up to date under that protocol (in particular: always on
    a cell that was never edited -- whatever was called before, however often). Results computed from a cache that
    the protocol says is out of date are only compared with the model."""
    fails = []
    segs = case["segs"]
    edits = 0
    adj_epoch = graph_epoch = None          # edit count at which each cache was last brought up to date (None = absent)
    for idx, (op, st) in enumerate(zip(case["ops"], steps)):
        k = op["op"]
        if k == "edit":
            segs = op["segs"]
            edits += 1
            continue
        ref = Ref({"segs": segs})
        roots = ref.roots()
        tree = len(roots) == 1
        # which epoch does this call's answer derive from?
        if k == "adj":
            adj_epoch = edits
            clean = True
        elif k == "graph":
            if adj_epoch is None:
                adj_epoch = edits
            graph_epoch = adj_epoch if st["g"] is not None or st["exc"] is None else graph_epoch
            clean = adj_epoch == edits
        elif k == "root" and 0 in ref.segs and ref.segs[0]["par"] is None:
            clean = True                                         # id-0 shortcut: no cache involved
        else:
            if graph_epoch is None:
                if adj_epoch is None:
                    adj_epoch = edits
                graph_epoch = adj_epoch
            clean = graph_epoch == edits
        if not clean:
            continue

        def bad(what, text, detail):
            fails.append(("C13:history:" + what, text, {"step": idx, "op": op, "got": st["r"], "exc": st["exc"], "detail": detail}))
        src = op.get("src", None)
        src = 0 if src is None and k in ("dist", "alld", "atd") else src
        if k == "adj":
            exp = {p: sorted(ref.children(p)) for p in ref.order if ref.children(p)}
            got = None if st["r"] is None else {a: sorted(b) for a, b in st["r"]}
            if got != exp:
                bad("adjacency", "adjacency list differs from the parent relation of the current morphology", exp)
        elif k == "graph":
            exp_e = sorted([ref.parent(i)[0], i, str(ref.parent(i)[1] * ref.length(ref.parent(i)[0]))] for i in ref.order if ref.parent(i))
            if st["r"] is None or st["r"]["edges"] != exp_e or sorted(st["r"]["nodes"]) != sorted(ref.order):
                bad("graph", "graph is not the parent relation with weight parent length x fraction_along", exp_e)
        elif k == "branch":
            exp = sorted(p for p in ref.order if len(ref.children(p)) >= 2)
            if st["r"] is None or sorted(st["r"]) != exp:
                bad("branch-points", "branching points differ from segments with >= 2 children", exp)
        elif k == "root":
            if tree and st["r"] != roots[0]:
                bad("root", "get_morphology_root is not the segment without parent", roots[0])
        elif k == "tips":
            if tree:
                exp = sorted([i, str(ref.to_prox(i))] for i in ref.order if not ref.children(i))
                if st["r"] is None or sorted(st["r"]) != exp:
                    bad("tips", "extremities / distances from the root differ from the definition", exp)
        elif k == "dist":
            dst = op["dst"]
            if src in ref.segs and dst in ref.segs:
                # src above dst: path length between their proximal ends; otherwise no path
                anc, cur = False, dst
                while True:
                    if cur == src:
                        anc = True
                        break
                    par = ref.parent(cur)
                    if par is None:
                        break
                    cur = par[0]
                if anc:
                    exp = str(ref.to_prox(dst) - ref.to_prox(src))
                    if st["r"] != exp:
                        bad("distance", "get_distance differs from the path length by definition", exp)
                elif st["r"] is not None:
                    bad("distance", "get_distance returns a value although the source is not above the destination", None)
        elif k == "alld":
            if tree and src == roots[0]:
                exp = sorted([i, str(ref.to_prox(i))] for i in ref.order)
                if st["r"] != exp:
                    bad("all-distances", "distances from the root differ from the path lengths by definition", exp)
        elif k == "atd":
            if tree and src == roots[0] and F(op["d"]) >= 0:
                exp = sorted([i, float(q)] for i, q in ref.at_distance(F(op["d"])).items())
                if st["r"] != exp:
                    bad("at-distance", "segments at distance d differ from the definition", exp)
    return fails


def eval_hist_batch(cases):
    import hashlib
    S = {"evals": 0, "corr": 0, "hashes": [], "counts": {}, "disagree": [], "fails": [], "keys": {}}

    def count(k, by=1):
        S["counts"][k] = S["counts"].get(k, 0) + by
    lines = [json.dumps(c) for c in cases]
    rc, out = fw.run_driver("C13", lines, timeout=3000)
    if rc != 0 or len(out) != len(lines):
        S["disagree"].append(("driver", "driver failed rc=%s (%d lines for %d cases)" % (rc, len(out), len(lines)),
                              "\n".join(out[-3:])[-600:], None))
        out = [None] * len(lines)
    for case, mo in zip(cases, out):
        m = None
        if mo is not None:
            try:
                m = canon_model_history(case, json.loads(mo))
            except Exception as e:  # noqa
                S["disagree"].append(("driver", case, "unparsable driver output: %r" % (e,), mo[:300]))
        steps = run_real_history(case)
        S["evals"] += 1
        S["hashes"].append(hashlib.sha1(json.dumps(case, sort_keys=True).encode()).hexdigest())
        count("stream:history")
        ops = [o["op"] for o in case["ops"]]
        count("history:ops", len(ops))
        count("history:edits", ops.count("edit"))
        count("history:calls-that-raised", sum(1 for st in steps if st["exc"]))
        for a, b in zip(case["ops"], case["ops"][1:]):
            if a == b and a["op"] != "edit":
                count("history:same-call-twice-in-a-row")
        if "edit" in ops and any(o != "edit" for o in ops[:ops.index("edit")]) and any(o != "edit" for o in ops[ops.index("edit"):]):
            count("history:call-edit-call")
        if m is not None:
            S["corr"] += 1
            if m.get("res") != "ok":
                S["disagree"].append(("model-domain", case, "real code ran", m))
            else:
                for i, (a, b) in enumerate(zip(steps, m["steps"])):
                    ra = {"r": a["r"], "adj": a["adj"], "g": a["g"]}
                    if ra != b:
                        if len(S["disagree"]) < 5:
                            S["disagree"].append(("morph-model:history", {"case": case, "step": i}, ra, b))
                        break
        for key, what, detail in oracle_history(case, steps):
            count("fail:" + key)
            S["keys"][key] = S["keys"].get(key, 0) + 1
            if S["keys"][key] <= 2:
                S["fails"].append((key, what, {"case": case, "detail": detail}))
    return S


def edit_segments(rng, segs):
    """one well-formedness-preserving edit of a segment list (geometry stays exactly representable); returns new list"""
    segs = json.loads(json.dumps(segs))
    ids = [s["id"] for s in segs]
    by = {s["id"]: s for s in segs}
    children = {}
    for s in segs:
        if s["par"] is not None:
            children.setdefault(s["par"][0], []).append(s["id"])
    kind = rng.random()
    leaves = [i for i in ids if i not in children and by[i]["par"] is not None]
    if kind < 0.35 or len(segs) < 2:
        # append a new leaf (explicit proximal, so its geometry does not depend on the parent's)
        p = rng.choice(ids)
        new_id = max(ids) + rng.choice([1, 1, 2, 5]) if rng.random() < 0.8 or 0 in ids else 0
        px = (F(rng.randint(-8, 8)), F(rng.randint(-8, 8), 2), F(rng.randint(-4, 4)), rng.choice(DIAMS))
        v = random_vector(rng)
        s = {"id": new_id, "par": [p, sstr(rng.choice(FRACS))], "prox": [sstr(c) for c in px],
             "dist": [sstr(px[0] + v[0]), sstr(px[1] + v[1]), sstr(px[2] + v[2]), sstr(rng.choice(DIAMS))]}
        segs.insert(rng.randint(0, len(segs)), s)
    elif kind < 0.55 and leaves:
        i = rng.choice(leaves)
        segs = [s for s in segs if s["id"] != i]                   # remove a leaf
    elif kind < 0.8:
        # change the attachment fraction of a segment that has its own proximal point
        cand = [s for s in segs if s["par"] is not None and s["prox"] is not None]
        if cand:
            c = rng.choice(cand)
            c["par"][1] = sstr(rng.choice([f for f in FRACS if sstr(f) != c["par"][1]]))
    else:
        # re-attach a segment with its own proximal point somewhere outside its subtree
        cand = [s for s in segs if s["par"] is not None and s["prox"] is not None]
        if cand:
            c = rng.choice(cand)
            sub, todo = {c["id"]}, [c["id"]]
            while todo:
                for ch in children.get(todo.pop(), []):
                    sub.add(ch)
                    todo.append(ch)
            outside = [i for i in ids if i not in sub]
            if outside:
                c["par"][0] = rng.choice(outside)
    return segs


def random_call(rng, segs):
    ids = [s["id"] for s in segs]
    roots = [s["id"] for s in segs if s["par"] is None]
    root = roots[0]
    k = rng.choice(["adj", "graph", "dist", "dist", "alld", "atd", "branch", "root", "tips", "tips"])
    op = {"op": k}
    if k == "dist":
        op["dst"] = rng.choice(ids)
        r = rng.random()
        if r < 0.6:
            op["src"] = root
        elif r < 0.85:
            op["src"] = rng.choice(ids)
    elif k == "alld":
        if rng.random() < 0.8:
            op["src"] = root if rng.random() < 0.8 else rng.choice(ids)
    elif k == "atd":
        op["d"] = sstr(F(rng.randint(0, 40), 4))
        if rng.random() < 0.85:
            op["src"] = root if rng.random() < 0.85 else rng.choice(ids)
    return op


def history_case(rng):
    n = rng.choice([1, 2, 3, 3, 4, 5, 6, 8, 12])
    par = random_tree(rng, n)
    opts = [None] + [(rng.random() < 0.5, rng.choice(FRACS)) for _ in range(n - 1)]
    base = build_case(par, rng.choice(["identity", "reversed", "random", "scattered"]), opts, rng, queries=False)
    segs = base["segs"]
    ops = []
    shape = rng.random()
    cur = segs
    for _ in range(rng.randint(3, 9)):
        r = rng.random()
        if shape < 0.3:
            pe = 0.0                                   # never edited: every answer is demanded to be the definition
        elif shape < 0.65:
            pe = 0.2
        else:
            pe = 0.35
        if r < pe:
            cur = edit_segments(rng, cur)
            ops.append({"op": "edit", "segs": cur})
            if rng.random() < 0.5:                     # the documented refresh, sometimes only half of it
                ops.append({"op": "adj"})
                if rng.random() < 0.8:
                    ops.append({"op": "graph"})
        elif r < pe + 0.15 and ops and ops[-1]["op"] != "edit":
            ops.append(json.loads(json.dumps(ops[-1])))          # the same call again
        else:
            ops.append(random_call(rng, cur))
    return {"segs": segs, "ops": ops}


def _hist_worker(job):
    import random
    k, seed = job
    rng = random.Random(seed)
    return eval_hist_batch([history_case(rng) for _ in range(k)])


HIST_CORPUS = [
    # unedited cell, root id 3: tips, then distance with the default source (raises: no path from 0), then the same
    # distance from the root twice, root, graph, adjacency, graph -- every answer must be the definition
    {"segs": [{"id": 3, "par": None, "prox": ["0", "0", "0", "1"], "dist": ["4", "0", "0", "1"]},
              {"id": 2, "par": [3, "1"], "prox": None, "dist": ["8", "3", "0", "1"]},
              {"id": 0, "par": [2, "1/2"], "prox": None, "dist": ["6", "2", "0", "2"]}],
     "ops": [{"op": "tips"}, {"op": "dist", "dst": 2}, {"op": "dist", "dst": 0, "src": 3}, {"op": "dist", "dst": 0, "src": 3},
             {"op": "root"}, {"op": "branch"}, {"op": "graph"}, {"op": "adj"}, {"op": "graph"}, {"op": "tips"},
             {"op": "atd", "d": "5", "src": 3}, {"op": "alld", "src": 3}]},
    # call, edit (a leaf is appended), stale answers, half refresh, full refresh
    {"segs": [{"id": 0, "par": None, "prox": ["0", "0", "0", "2"], "dist": ["3", "4", "0", "2"]},
              {"id": 1, "par": [0, "1/2"], "prox": None, "dist": ["3/2", "2", "6", "1"]}],
     "ops": [{"op": "tips"},
             {"op": "edit", "segs": [{"id": 0, "par": None, "prox": ["0", "0", "0", "2"], "dist": ["3", "4", "0", "2"]},
                                     {"id": 1, "par": [0, "1/2"], "prox": None, "dist": ["3/2", "2", "6", "1"]},
                                     {"id": 5, "par": [1, "1"], "prox": ["3/2", "2", "6", "1"], "dist": ["7/2", "3", "8", "1"]}]},
             {"op": "tips"}, {"op": "graph"}, {"op": "tips"}, {"op": "adj"}, {"op": "tips"}, {"op": "graph"}, {"op": "tips"},
             {"op": "dist", "dst": 5}, {"op": "branch"}]},
]


# ------------------------------------------------------------------ generators
FRACS6 = [F(0), F(1, 4), F(1)]


def fracs_for(n):
    """fraction_along choices of the exhaustive space: all four up to 5 segments, {0, 1/4, 1} at 6 segments
    (1/4 and 1/2 take the same branch of every method; 1/4 is the more discriminating one)"""
    return FRACS if n <= 5 else FRACS6


def exhaustive_space(maxn, minn=1):
    """(parent array, numbering, opts) for every shape x numbering x (proximal?, fraction) assignment"""
    for n in range(minn, maxn + 1):
        for par in rooted_shapes(n):
            for numbering in ("identity", "reversed", "scattered"):
                for combo in itertools.product(itertools.product((True, False), fracs_for(n)), repeat=n - 1):
                    yield par, numbering, [None] + list(combo)


def space_size(maxn, minn=1):
    tot = 0
    for n in range(minn, maxn + 1):
        tot += len(rooted_shapes(n)) * 3 * (2 * len(fracs_for(n))) ** (n - 1)
    return tot


def random_tree(rng, n):
    kind = rng.random()
    if kind < 0.15:
        return [-1] + list(range(0, n - 1))                          # chain
    if kind < 0.25:
        return [-1] + [0] * (n - 1)                                  # star
    if kind < 0.4:
        spine = max(1, n // 2)
        return [-1] + [(k - 1) if k < spine else rng.randrange(spine) for k in range(1, n)]   # caterpillar
    if kind < 0.7:
        return [-1] + [rng.randrange(max(0, k - 3), k) for k in range(1, n)]   # deep
    return [-1] + [rng.randrange(k) for k in range(1, n)]            # random recursive tree


def random_forest_case(rng):
    """two or three trees in one cell: get_morphology_root must refuse (assert), the rest still holds per tree"""
    n = rng.randint(2, 14)
    par = random_tree(rng, n)
    for k in rng.sample(range(1, n), min(n - 1, rng.choice([1, 1, 2]))):
        par[k] = -1
    opts = [None] + [(rng.random() < 0.5, rng.choice(FRACS)) for _ in range(n - 1)]
    return build_case(par, rng.choice(["identity", "reversed", "random"]), opts, rng)


def random_case(rng, maxn):
    if rng.random() < 0.06:
        return random_forest_case(rng)
    n = rng.choice([1, 2, 3, 5, 8, 13, 21, 34, 60, 100, 150, 200]) if rng.random() < 0.5 else rng.randint(1, maxn)
    n = min(n, maxn)
    par = random_tree(rng, n)
    pprox = rng.choice([0.2, 0.5, 0.9])
    opts = [None] + [(rng.random() < pprox, rng.choice(FRACS)) for _ in range(n - 1)]
    numbering = rng.choice(["identity", "reversed", "random", "random", "scattered"])
    return build_case(par, numbering, opts, rng)


CORPUS = [
    # chain rooted at id 3 whose tip has id 0 (was: get_extremeties() == {0: 0})
    {"segs": [{"id": 3, "par": None, "prox": ["0", "0", "0", "1"], "dist": ["4", "0", "0", "1"]},
              {"id": 2, "par": [3, "1"], "prox": None, "dist": ["8", "0", "0", "1"]},
              {"id": 0, "par": [2, "1/2"], "prox": None, "dist": ["6", "2", "0", "2"]}],
     "srcs": [3, 0], "pairs": [[3, 0], [3, 2], [0, 2], [0, 0]], "atd": [["5", 3], ["13/2", 3], ["1", 0]],
     "groups": [[3, 2, 0], [0], [0, 3]], "loc": [0, 2, 3]},
    # chain rooted at id 3 without a segment 0 (was: NodeNotFound from get_extremeties())
    {"segs": [{"id": 1, "par": [2, "1/4"], "prox": None, "dist": ["1", "3", "0", "1"]},
              {"id": 3, "par": None, "prox": ["0", "0", "0", "1"], "dist": ["4", "0", "0", "1"]},
              {"id": 2, "par": [3, "1/4"], "prox": None, "dist": ["1", "2", "0", "3"]}],
     "srcs": [3], "pairs": [[3, 1], [0, 1]], "atd": [["2", 3]], "groups": [[1, 2, 3], [1]], "loc": [1]},
    # single segment, id != 0 (was: AssertionError from get_morphology_root, tips {})
    {"segs": [{"id": 5, "par": None, "prox": ["0", "0", "0", "1"], "dist": ["4", "0", "0", "1"]}],
     "srcs": [5], "pairs": [[5, 5]], "atd": [["2", 5], ["5", 5]], "groups": [[5]], "loc": [5]},
    # single segment, id 0 (was: tips {})
    {"segs": [{"id": 0, "par": None, "prox": ["1", "0", "0", "1"], "dist": ["1", "0", "2", "1"]}],
     "srcs": [0], "pairs": [[0, 0]], "atd": [["1", 0]], "groups": [[0]], "loc": [0]},
    # branched tree, conventional numbering, location info below a branch point works
    {"segs": [{"id": 0, "par": None, "prox": ["0", "0", "0", "2"], "dist": ["2", "0", "0", "2"]},
              {"id": 1, "par": [0, "1"], "prox": None, "dist": ["2", "3", "0", "1"]},
              {"id": 2, "par": [0, "1/2"], "prox": None, "dist": ["1", "0", "4", "1"]},
              {"id": 3, "par": [1, "1/4"], "prox": ["2", "1", "0", "1"], "dist": ["5", "1", "0", "1/2"]},
              {"id": 4, "par": [3, "1"], "prox": None, "dist": ["5", "1", "2", "1/2"]}],
     "srcs": [0, 1], "pairs": [[0, 4], [1, 4], [2, 4], [0, 0]], "atd": [["3", 0], ["0", 0], ["7/2", 1]],
     "groups": [[0, 1, 2, 3, 4], [4, 3], [2]], "loc": [0, 1, 2, 3, 4]},
]


def run(ctx):
    rng = ctx.rng
    procs = int(os.environ.get("VERIF_C13_PROCS", "8"))
    check_cases(ctx, [json.loads(json.dumps(c)) for c in CORPUS], stream="corpus")
    # ---- exhaustive stream over trees with <= 6 segments
    maxn = 6
    total = space_size(maxn)
    ctx.extra["exhaustive_space"] = (
        "%d cases: every unordered rooted tree shape with <= %d segments (1,1,2,4,9,20 shapes) x 3 numberings / file "
        "orders x {proximal present, absent} x fraction_along in {0,1/4,1/2,1} (<= 5 segments) or {0,1/4,1} "
        "(6 segments) per non-root segment" % (total, maxn))
    if ctx.tier == "thorough":
        jobs, cur = [], []
        for spec in exhaustive_space(maxn):
            cur.append(spec)
            if len(cur) >= 6000:
                jobs.append((cur, rng.getrandbits(40)))
                cur = []
        if cur:
            jobs.append((cur, rng.getrandbits(40)))
        before = ctx.evaluations
        run_parallel(ctx, _exh_worker, jobs, procs)
        done = ctx.evaluations - before
        ctx.extra["exhaustive_done"] = done
        ctx.extra["exhaustive"] = (done == total and not ctx.corr_disagreements)
    else:
        # all trees with <= 3 segments, and a uniform sample of the rest
        batch = [build_case(par, nb, opts, rng) for par, nb, opts in exhaustive_space(3)]
        rest = space_size(maxn, 4)
        k = min(rest, 1600 * ctx.search_mult)
        want = set(rng.sample(range(rest), k))
        specs = [spec for idx, spec in enumerate(exhaustive_space(maxn, 4)) if idx in want]
        if ctx.search_mult > 1:
            # an obligation is broken: ten times the budget, spread over worker processes
            check_cases(ctx, batch, stream="exhaustive-sample")
            jobs = [(specs[i:i + 2000], rng.getrandbits(40)) for i in range(0, len(specs), 2000)]
            run_parallel(ctx, _exh_worker, jobs, min(procs, 4))
        else:
            batch += [build_case(par, nb, opts, rng) for par, nb, opts in specs]
            check_cases(ctx, batch, stream="exhaustive-sample")
        ctx.extra["exhaustive"] = False
    # ---- random trees up to 200 segments
    if ctx.tier == "thorough":
        nrand = 4000 * ctx.search_mult
        run_parallel(ctx, _rand_worker, [(250, rng.getrandbits(40)) for _ in range(nrand // 250)], procs)
    elif ctx.search_mult > 1:
        run_parallel(ctx, _rand_worker, [(250, rng.getrandbits(40)) for _ in range(ctx.search_mult)], min(procs, 4))
    else:
        cases = [random_case(rng, 200 if i % 4 == 0 else 40) for i in range(250)]
        check_cases(ctx, cases, stream="random")
    # ---- call histories on one cell object (second call, priming, edits, refresh)
    merge(ctx, eval_hist_batch([json.loads(json.dumps(c)) for c in HIST_CORPUS]))
    if ctx.tier == "thorough":
        run_parallel(ctx, _hist_worker, [(250, rng.getrandbits(40)) for _ in range(12 * ctx.search_mult)], procs)
    elif ctx.search_mult > 1:
        run_parallel(ctx, _hist_worker, [(400, rng.getrandbits(40)) for _ in range(ctx.search_mult)], min(procs, 4))
    else:
        merge(ctx, eval_hist_batch([history_case(rng) for _ in range(400)]))
    stale_cache_stream(ctx, rng, 5)
    for c in [random_case(rng, 12), CORPUS[0]]:
        ctx.sample({"segs": c["segs"][:8], "n_segments": len(c["segs"])})


def light_queries(case, rng):
    """fewer queries per case for the 2M-case exhaustive sweep (every method is still called)"""
    idl = [s["id"] for s in case["segs"]]
    root = [s["id"] for s in case["segs"] if s["par"] is None][0]
    case["srcs"] = [root]
    case["pairs"] = [[root, idl[-1]], [0, idl[0]]]
    case["atd"] = [[sstr(F(rng.randint(0, 24), 4)), root]]
    sub = [i for i in idl if rng.random() < 0.5]
    case["groups"] = [list(idl), sub]
    case["loc"] = [idl[-1]]
    case["variants"] = rng.random() < 0.1


def regenerate(ctx):
    """translator step: the graph / tree-metric methods of Cell in the CURRENT working tree (helper_methods.py AND
    nml.py) -> lean/NmlVerif/Gen/Morph.lean (Props/C13Gen.lean proves it equal to the hand model); and C12's
    translation of get_actual_proximal / get_segment_length -> Gen/Geom.lean, which Props/C13Geom.lean builds on"""
    tdir = os.path.join(fw.VERIF, "translators")
    if tdir not in sys.path:
        sys.path.insert(0, tdir)
    import py2lean_morph
    import py2lean_geom
    gaps = list(py2lean_morph.regenerate(fw.REPO, os.path.join(fw.LEAN, "NmlVerif", "Gen", "Morph.lean")))
    gaps += [g for g in py2lean_geom.regenerate(fw.REPO, os.path.join(fw.LEAN, "NmlVerif", "Gen", "Geom.lean"))
             if "get_actual_proximal" in g or "get_segment_length" in g or "distance_to" in g or "Segment.length" in g]
    return gaps


def replay(ctx, payload):
    c = payload.get("case", payload)
    case = c["case"] if isinstance(c, dict) and "case" in c else c
    if isinstance(case, dict) and "case" in case and "step" in case:
        case = case["case"]
    if "ops" in case:
        merge(ctx, eval_hist_batch([case]))
    else:
        check_cases(ctx, [case], stream="replay")
    known = fw.known_findings(ctx.pid)
    new = [f for f in ctx.failures if f["key"] not in known]
    return {"fails": bool(new or ctx.corr_disagreements), "failures": new,
            "known_findings": sorted({f["key"] for f in ctx.failures if f["key"] in known}),
            "disagreements": ctx.corr_disagreements}
