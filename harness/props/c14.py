"""C14 — segment-group membership is the transitive closure; optimising never changes it.

Tie: hand model (lean/NmlVerif/Model/Groups.lean) + correspondence on generated cells (random group DAGs, duplicate
members/includes, overlapping members, the implicit "all" group, natural-sort-sensitive ids), each evaluated on the cell
built in memory AND on the same cell after an XML write/load round trip; the same cases are evaluated against a
harness-side reference (set reachability) for the full property statement on the real code.
"""
import json
import os
import re
import shutil
import sys
import tempfile

import fw

LEAN_PROPS = ["NmlVerif.Props.C14"]
LEVEL = "proof"
RULE = ("random cells: 0-6 groups (thorough 0-9) drawn from a pool of ids that natural sort orders differently from "
        "string sort (g2/g10/g01/g1, 9a/10, a1b2/a1b10, standard all/soma_group/...), include DAG in a random "
        "topological order (0-4 includes per group, duplicates, chains >= 3 deep, includes of an undefined 'all'), "
        "members overlapping the included closures with duplicates (same object or equal-valued objects), op = "
        "optimise_segment_groups or optimise_segment_group(g); malformed stream: include cycles, dangling includes, "
        "duplicate group ids, empty id, unknown g. Every case runs twice: built in memory and after an XML round trip. "
        "A case is non-trivial when it is acyclic, nothing raises and some optimised group has >= 2 distinct includes, "
        ">= 1 direct member and >= 1 member supplied by an include; distinct = distinct canonical (cell, op, mode)")
TRUST = [
    "hand-written model of Cell.get_all_segments_in_group / get_segment_group / optimise_segment_group(s), tied by correspondence only",
    "natsort.natsorted(xs, key=k) modelled as a stable sort by a key; the key order of group ids is computed by the harness "
    "(natural-sort chunks) and compared with natsort on every case; Member.segments are non-negative ints",
    "lxml/generateDS writer+parser keep the order and values of <member>/<include> children (sampled by the XML stream)",
]
ASSUMPTIONS = [
    "theorems assume an acyclic include graph (Acyclic = a rank function strictly decreasing along includes exists; "
    "c14_acyclic_iff proves this equivalent to 'no group is reachable from one of its own includes'); totality theorems "
    "additionally assume no dangling include and no empty group id",
    "group ids are interned: 'all' -> 0, '' -> 1; a group with a duplicate id is invisible to the API (first one wins) and "
    "minimality is claimed for the visible group of each id",
    "the cell is not modified concurrently; Member/Include objects carry int segment ids / str group ids",
]

POOL = ["soma_group", "dendrite_group", "axon_group", "g1", "g2", "g10", "g01", "G3", "a1b2", "a1b10", "dend_3",
        "dend_12", "10", "9a", "soma_0", "x-y", "x_y", "all", "g001", "apical"]


# ---------------------------------------------------------------- natural sort key (independent of natsort)
def natkey(s):
    out = []
    for idx, p in enumerate(re.split(r"([0-9]+)", s)):
        if idx % 2:
            out.append((1, int(p), ""))
        elif p:
            out.append((0, 0, p))
    if out and out[0][0] == 1:
        out.insert(0, (0, 0, ""))
    return tuple(out)


def intern(case):
    """group id string -> Nat ('all' -> 0, '' -> 1), and the natural-sort rank of every id"""
    ids = []
    for g in case["groups"]:
        ids.append(g["id"])
        ids += g["includes"]
    if case["op"] == "group":
        ids.append(case["g"])
    tbl = {"all": 0, "": 1}
    for i in ids:
        if i not in tbl:
            tbl[i] = len(tbl)
    keys = sorted({natkey(i) for i in tbl})
    rank = {i: keys.index(natkey(i)) for i in tbl}
    return tbl, rank


# ---------------------------------------------------------------- generator
def gen_case(rng, big=False, malformed=False):
    ng = rng.choice([0, 1, 2, 2, 3, 3, 4, 4, 5, 6] + ([7, 8, 9] if big else []))
    ids = rng.sample(POOL, ng)
    nseg = rng.randint(0, 9 if big else 7)
    if rng.random() < 0.2:
        segs = sorted(rng.sample(range(0, 30), nseg))
    else:
        segs = list(range(nseg))
    if rng.random() < 0.1:
        rng.shuffle(segs)
    topo = list(ids)
    rng.shuffle(topo)                      # topo[k] may include only topo[j], j > k
    chain = rng.random() < 0.45            # force a chain >= 3 deep when there are enough groups
    groups = {}
    closure = {}
    for k in range(len(topo) - 1, -1, -1):
        gid = topo[k]
        later = topo[k + 1:]
        incs = []
        if later:
            for _ in range(rng.choice([0, 0, 1, 1, 2, 2, 3, 4])):
                incs.append(rng.choice(later))
            if chain and k + 1 < len(topo) and topo[k + 1] not in incs:
                incs.insert(rng.randint(0, len(incs)), topo[k + 1])
        if "all" not in ids and gid != "all" and rng.random() < 0.12:
            incs.insert(rng.randint(0, len(incs)), "all")     # the undefined "all": every segment
        if incs and rng.random() < 0.4:
            for _ in range(rng.randint(1, 2)):
                incs.insert(rng.randint(0, len(incs)), rng.choice(incs))   # duplicate include
        cov = set()
        for i in incs:
            cov |= closure.get(i, set(segs))
        mem = []
        universe = segs + ([rng.randint(30, 40)] if rng.random() < 0.1 else [])
        if universe:
            for _ in range(rng.choice([0, 1, 2, 3, 3, 4, 5, 6])):
                if cov and rng.random() < 0.45:
                    mem.append(rng.choice(sorted(cov)))          # supplied by an include as well
                else:
                    mem.append(rng.choice(universe))
            if mem and rng.random() < 0.45:
                for _ in range(rng.randint(1, 3)):
                    mem.insert(rng.randint(0, len(mem)), rng.choice(mem))  # duplicate member
        groups[gid] = {"id": gid, "members": mem, "includes": incs}
        closure[gid] = set(mem) | cov
    glist = [groups[i] for i in ids]
    case = {"segs": segs, "groups": glist, "alias": rng.random() < 0.3}
    if ids and rng.random() < 0.4:
        case["op"], case["g"] = "group", rng.choice(ids)
    else:
        case["op"] = "all"
    if malformed:
        kind = rng.choice(["self", "cycle2", "cycle3", "dangling", "dupid", "emptyid", "unknown-g", "dupseg"])
        case["malformed"] = kind
        if kind == "self" and glist:
            g = rng.choice(glist)
            g["includes"].insert(rng.randint(0, len(g["includes"])), g["id"])
        elif kind in ("cycle2", "cycle3") and len(topo) >= 2:
            # close a back edge from a late group to an early one that reaches it
            a, b = topo[0], topo[min(len(topo) - 1, 1 if kind == "cycle2" else 2)]
            if b not in groups[a]["includes"]:
                groups[a]["includes"].append(b)
            groups[b]["includes"].insert(rng.randint(0, len(groups[b]["includes"])), a)
        elif kind == "dangling" and glist:
            g = rng.choice(glist)
            g["includes"].insert(rng.randint(0, len(g["includes"])), "nosuch")
        elif kind == "dupid" and glist:
            g = rng.choice(glist)
            glist.insert(rng.randint(0, len(glist)),
                         {"id": g["id"], "members": [rng.choice(segs)] * 2 if segs else [], "includes": []})
        elif kind == "emptyid":
            glist.insert(rng.randint(0, len(glist)), {"id": "", "members": list(segs[:2]) * 2, "includes": []})
        elif kind == "unknown-g":
            case["op"], case["g"] = "group", rng.choice(["nosuch", "", "all"])
        elif kind == "dupseg" and segs:
            case["segs"] = segs + [segs[0]]
    return case


# ---------------------------------------------------------------- real library
def build_cell(case):
    import neuroml as n
    c = n.Cell(id="cell0")
    c.morphology = n.Morphology(id="morph0")
    for s in case["segs"]:
        c.morphology.segments.append(n.Segment(
            id=s, name="s%d" % s,
            proximal=n.Point3DWithDiam(x=0, y=0, z=0, diameter=1), distal=n.Point3DWithDiam(x=1, y=0, z=0, diameter=1)))
    for g in case["groups"]:
        sg = n.SegmentGroup(id=g["id"])
        mobj, iobj = {}, {}
        for m in g["members"]:
            if case.get("alias") and m in mobj:
                sg.members.append(mobj[m])           # the very same object twice
            else:
                mobj[m] = n.Member(segments=m)
                sg.members.append(mobj[m])
        for i in g["includes"]:
            if case.get("alias") and i in iobj:
                sg.includes.append(iobj[i])
            else:
                iobj[i] = n.Include(segment_groups=i)
                sg.includes.append(iobj[i])
        c.morphology.segment_groups.append(sg)
    return c


def roundtrip(cell, root, k):
    import neuroml as n
    import neuroml.loaders as L
    import neuroml.writers as W
    doc = n.NeuroMLDocument(id="doc0")
    doc.cells.append(cell)
    p = os.path.join(root, "c%d.cell.nml" % k)
    W.NeuroMLWriter.write(doc, p)
    doc2 = L.read_neuroml2_file(p)
    os.remove(p)
    return doc2.cells[0]


def exc_tag(e):
    if isinstance(e, RecursionError):
        return "outOfFuel"
    if isinstance(e, ValueError) and "not found in cell" in str(e):
        return "notFound"
    if type(e) is Exception and str(e).startswith("No segment group"):
        return "unknownGroup"
    return "exc:" + type(e).__name__ + ":" + str(e)[:80]


def guarded(f):
    lim = sys.getrecursionlimit()
    sys.setrecursionlimit(250)
    try:
        return f()
    except BaseException as e:  # noqa
        if isinstance(e, (KeyboardInterrupt, SystemExit)):
            raise
        return exc_tag(e)
    finally:
        sys.setrecursionlimit(lim)


def dump_groups(cell):
    return [{"id": sg.id, "members": [m.segments for m in sg.members],
             "includes": [i.segment_groups for i in sg.includes]} for sg in cell.morphology.segment_groups]


def ask_ids(case):
    out = []
    for g in case["groups"]:
        for i in [g["id"]] + list(g["includes"]):
            if i not in out:
                out.append(i)
    if "all" not in out:
        out.append("all")
    return out


def run_real(case, mode, root, k):
    cell = build_cell(case)
    if mode == "xml":
        cell = roundtrip(cell, root, k)
    ask = ask_ids(case)

    def resolved():
        out = [[i, guarded(lambda: list(cell.get_all_segments_in_group(i)))] for i in ask]
        # the same question asked with the SegmentGroup object instead of its id (first group of each id)
        byid = dict((i, v) for i, v in out)
        seen = set()
        for sg in cell.morphology.segment_groups:
            if sg.id in seen:
                continue
            seen.add(sg.id)
            v = guarded(lambda: list(cell.get_all_segments_in_group(sg)))
            if v != byid.get(sg.id):
                objdiff.append([sg.id, byid.get(sg.id), v])
        return out
    objdiff = []

    def op():
        if case["op"] == "group":
            r = guarded(lambda: cell.optimise_segment_group(case["g"]))
        else:
            r = guarded(lambda: cell.optimise_segment_groups())
        return dump_groups(cell) if r is None else r
    out = {"before": resolved(), "objdiff": objdiff}
    out["once"] = op()
    if isinstance(out["once"], str):
        out["after"], out["twice"] = None, None
    else:
        out["after"] = resolved()
        out["twice"] = op()
    return out


# ---------------------------------------------------------------- model (Lean driver)
def model_line(case):
    tbl, rank = intern(case)
    j = {"segs": case["segs"],
         "groups": [{"id": tbl[g["id"]], "members": g["members"], "includes": [tbl[i] for i in g["includes"]]}
                    for g in case["groups"]],
         "keys": [[tbl[i], rank[i]] for i in tbl],
         "fuel": len(case["groups"]) + 3,
         "ask": [tbl[i] for i in ask_ids(case)],
         "op": case["op"]}
    if case["op"] == "group":
        j["g"] = tbl[case["g"]]
    return json.dumps(j)


def canon_real(case, r):
    """real result in the model's vocabulary (interned ids)"""
    tbl, _ = intern(case)

    def res(x):
        return x if isinstance(x, str) else [int(v) for v in x]

    def groups(x):
        if x is None or isinstance(x, str):
            return x
        return [{"id": tbl.get(g["id"], -1), "members": [int(m) for m in g["members"]],
                 "includes": [tbl.get(i, -1) for i in g["includes"]]} for g in x]
    return {"before": [[tbl[i], res(v)] for i, v in r["before"]],
            "once": groups(r["once"]),
            "after": None if r["after"] is None else [[tbl[i], res(v)] for i, v in r["after"]],
            "twice": groups(r["twice"])}


# ---------------------------------------------------------------- reference (independent of the Lean model)
def reference(case):
    """closure of every id by plain set reachability; which ids are on/reach a cycle or a dangling include"""
    first = {}
    for g in case["groups"]:
        first.setdefault(g["id"], g)

    def lookup(i):
        if i in first:
            return first[i]
        if i == "all":
            return {"id": "all", "members": list(case["segs"]), "includes": []}
        return None
    clo, bad = {}, {}
    for start in ask_ids(case):
        seen, todo, segs, isbad = set(), [start], set(), False
        while todo:
            i = todo.pop()
            if i in seen:
                continue
            seen.add(i)
            g = lookup(i)
            if g is None:
                isbad = True
                continue
            segs |= set(g["members"])
            todo += g["includes"]
        clo[start], bad[start] = segs, isbad
    # cycles: i reaches i through >= 1 include
    cyc = {}
    for start in ask_ids(case):
        seen, todo, hit = set(), list((lookup(start) or {"includes": []})["includes"]), False
        reach = set()
        while todo:
            i = todo.pop()
            if i in reach:
                continue
            reach.add(i)
            g = lookup(i)
            if g is not None:
                todo += g["includes"]
        cyc[start] = reach
    oncycle = {i for i in cyc if i in cyc[i]}
    reaches_cycle = {i for i in cyc if i in oncycle or (cyc[i] & oncycle)}
    return {"first": first, "lookup": lookup, "clo": clo, "bad": bad, "cyclic": reaches_cycle}


def wellformed(case):
    """inside the property's quantifier: acyclic, no dangling include, distinct non-empty group ids, distinct segment ids"""
    ids = [g["id"] for g in case["groups"]]
    if len(set(ids)) != len(ids) or "" in ids:
        return False
    if len(set(case["segs"])) != len(case["segs"]):
        return False
    ref = reference(case)
    return not ref["cyclic"] and not any(ref["bad"].values())


def oracle(ctx, case, mode, real):
    """the full property statement on the real code"""
    payload = {"case": case, "mode": mode}
    if not wellformed(case):
        return False
    ref = reference(case)
    built = "loaded" if mode == "xml" else "built"
    if real.get("objdiff"):
        ctx.fail("C14:object-vs-id", "get_all_segments_in_group(group object) differs from (group id): %s" % (real["objdiff"][:2],), payload)
    # 1. resolve = closure, each once
    for i, v in real["before"]:
        if isinstance(v, str):
            ctx.fail("C14:resolve-error", "get_all_segments_in_group(%r) raised %s on an acyclic cell" % (i, v), payload)
            return False
        if set(v) != ref["clo"][i]:
            ctx.fail("C14:resolve-not-closure", "get_all_segments_in_group(%r) = %s, closure is %s" % (i, v, sorted(ref["clo"][i])), payload)
        elif len(set(v)) != len(v):
            ctx.fail("C14:resolve-duplicate", "get_all_segments_in_group(%r) reports a segment twice: %s" % (i, v), payload)
    # 2. optimise
    if case["op"] == "group" and case["g"] not in ref["first"]:
        if real["once"] != "notFound":
            ctx.fail("C14:unknown-group-accepted", "optimise_segment_group of an undefined group: %s" % (real["once"],), payload)
        return False
    if isinstance(real["once"], str):
        ctx.fail("C14:unexpected-error", "optimising a well-formed cell raised %s" % real["once"], payload)
        return False
    targets = [case["g"]] if case["op"] == "group" else [g["id"] for g in case["groups"]]
    nontrivial = False
    for i, v in real["after"]:
        if isinstance(v, str) or set(v) != ref["clo"][i]:
            ctx.fail("C14:closure-changed", "segments of group %r changed by optimising: before %s after %s" % (
                i, sorted(ref["clo"][i]), v), payload)
    after = {g["id"]: g for g in real["once"]}
    if [g["id"] for g in real["once"]] != [g["id"] for g in case["groups"]]:
        ctx.fail("C14:groups-changed", "the list of groups changed", payload)
        return False
    for g0, g1 in zip(case["groups"], real["once"]):
        if g0["id"] not in targets:
            if g0["members"] != g1["members"] or g0["includes"] != g1["includes"]:
                ctx.fail("C14:other-group-touched", "group %r was not optimised but changed" % g0["id"], payload)
            continue
        ninc = len(set(g0["includes"]))
        if set(g1["includes"]) != set(g0["includes"]):
            ctx.fail("C14:include-set-changed", "includes of %r changed as a set" % g0["id"], payload)
        if len(set(g1["includes"])) != len(g1["includes"]):
            ctx.fail("C14:duplicate-include:" + built, "group %r keeps a duplicate include: %s" % (g0["id"], g1["includes"]), payload)
        if len(set(g1["members"])) != len(g1["members"]):
            key = "C14:duplicate-member:" + ("includes>=2" if ninc >= 2 else built)
            ctx.fail(key, "group %r keeps a duplicate member: %s" % (g0["id"], g1["members"]), payload)
        cov = set()
        for i in g1["includes"]:
            cov |= ref["clo"][i]
        resid = [m for m in g1["members"] if m in cov]
        if resid:
            ctx.fail("C14:residual-member:includes%s" % (">=2" if ninc >= 2 else "=1"),
                     "group %r keeps members %s that its includes %s already supply" % (g0["id"], resid, g1["includes"]), payload)
        if not set(g1["members"]) <= set(g0["members"]):
            ctx.fail("C14:member-invented", "group %r gained a member" % g0["id"], payload)
        if ninc >= 2 and g0["members"] and (set(g0["members"]) & cov):
            nontrivial = True
    # 3. idempotence
    if real["twice"] != real["once"]:
        ctx.fail("C14:not-idempotent", "optimising twice differs from once: %s vs %s" % (real["once"], real["twice"]), payload)
    return nontrivial


# ---------------------------------------------------------------- corpus
CORPUS = [
    # the two defects repaired by fixes/C14-optimise-segment-group.patch:
    # (1) two includes: a member covered by only one include survived and an uncovered one was duplicated
    {"segs": [0, 1, 2], "alias": False, "op": "group", "g": "g",
     "groups": [{"id": "a", "members": [0], "includes": []}, {"id": "b", "members": [1], "includes": []},
                {"id": "g", "members": [0, 1, 2], "includes": ["a", "b"]}]},
    # (2) duplicate <member>/<include> (never de-duplicated after loading from XML)
    {"segs": [0, 1], "alias": False, "op": "all",
     "groups": [{"id": "a", "members": [1], "includes": []},
                {"id": "g", "members": [0, 0], "includes": ["a", "a"]}]},
    # the repo's own test shape: one include repeated, member supplied by it
    {"segs": [0], "alias": False, "op": "group", "g": "all",
     "groups": [{"id": "soma_0", "members": [0], "includes": []},
                {"id": "all", "members": [0, 0], "includes": ["soma_0", "soma_0", "soma_0", "soma_0"]}]},
    # natural sort of includes (g2 < g10, tie g01/g1 keeps list order), chain 3 deep, implicit all
    {"segs": [0, 1, 2, 3, 4], "alias": True, "op": "all",
     "groups": [{"id": "top", "members": [4, 3, 4, 0], "includes": ["g10", "g2", "g1", "g01", "g10"]},
                {"id": "g10", "members": [3], "includes": ["g2"]}, {"id": "g2", "members": [2], "includes": ["g1"]},
                {"id": "g1", "members": [1, 1], "includes": []}, {"id": "g01", "members": [0], "includes": []},
                {"id": "everything", "members": [2], "includes": ["all"]}]},
    # malformed: self include / two-cycle / dangling include before a cycle / duplicate ids / empty id
    {"segs": [0], "alias": False, "op": "all", "malformed": "self",
     "groups": [{"id": "g", "members": [0], "includes": ["g"]}]},
    {"segs": [0, 1], "alias": False, "op": "all", "malformed": "cycle2",
     "groups": [{"id": "a", "members": [0], "includes": ["b"]}, {"id": "b", "members": [1, 1], "includes": ["nosuch", "a"]}]},
    {"segs": [0, 1], "alias": False, "op": "all", "malformed": "dupid",
     "groups": [{"id": "a", "members": [0, 0], "includes": []}, {"id": "a", "members": [1, 1], "includes": []}]},
    {"segs": [0, 1], "alias": False, "op": "all", "malformed": "emptyid",
     "groups": [{"id": "a", "members": [0, 0], "includes": []}, {"id": "", "members": [1, 1], "includes": []},
                {"id": "b", "members": [1, 1], "includes": []}]},
]


def check_natsort(ctx, case):
    """the harness' natural-sort key agrees with natsort on this case's ids"""
    import natsort
    tbl, rank = intern(case)
    ids = list(tbl)
    a = natsort.natsorted(ids)
    b = sorted(ids, key=natkey)
    if a != b:
        ctx.disagree("natsort-key", {"ids": ids}, a, b)


def run_cases(ctx, cases):
    lines = [model_line(c) for c in cases]
    rc, out = fw.run_driver("C14", lines)
    if rc != 0 or len(out) != len(lines):
        ctx.disagree("driver", "driver failed rc=%s" % rc, "\n".join(out[-5:]), None)
        mouts = [None] * len(lines)
    else:
        mouts = [json.loads(l) for l in out]
    root = tempfile.mkdtemp(prefix="verif_c14_")
    try:
        for k, c in enumerate(cases):
            check_natsort(ctx, c)
            for mode in ("mem", "xml"):
                real = run_real(c, mode, root, k)
                canon = {"segs": c["segs"], "groups": c["groups"], "op": c["op"], "g": c.get("g"), "mode": mode,
                         "alias": bool(c.get("alias")) and mode == "mem"}
                nt = oracle(ctx, c, mode, real)
                ctx.seen(canon, nontrivial=nt)
                ctx.count("mode:" + mode)
                ctx.count("op:" + c["op"])
                ctx.count("stream:" + ("malformed:" + c["malformed"] if c.get("malformed") else "valid"))
                ctx.count("ngroups:%d" % len(c["groups"]))
                ctx.count("max-includes:%d" % max([len(set(g["includes"])) for g in c["groups"]] + [0]))
                ctx.count("result:" + (real["once"] if isinstance(real["once"], str) else "ok").split(":")[0])
                ctx.corr_evals += 1
                m = mouts[k]
                r_c = canon_real(c, real)
                if m != r_c:
                    ctx.disagree("groups-model", {"case": c, "mode": mode}, r_c, m)
            ctx.sample({"groups": [(g["id"], g["members"], g["includes"]) for g in c["groups"]], "segs": c["segs"],
                        "op": c["op"], "g": c.get("g")})
    finally:
        shutil.rmtree(root, ignore_errors=True)


def run(ctx):
    n = ctx.n(2000, 12000) * ctx.search_mult
    cases = [json.loads(json.dumps(c)) for c in CORPUS]
    big = ctx.tier == "thorough"
    for i in range(n):
        cases.append(gen_case(ctx.rng, big=big, malformed=(i % 6 == 5)))
    for s in range(0, len(cases), 2000):
        run_cases(ctx, cases[s:s + 2000])


def replay(ctx, payload):
    case = payload["case"]["case"] if "case" in payload.get("case", {}) else payload["case"]
    run_cases(ctx, [case])
    return {"fails": bool(ctx.failures or ctx.corr_disagreements), "failures": ctx.failures,
            "disagreements": ctx.corr_disagreements}
