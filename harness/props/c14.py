"""C14 — segment-group membership is the transitive closure; optimising never changes it.

Tie: (1) TRANSLATOR: translators/groups_extract.py rewrites lean/NmlVerif/Gen/Groups.lean from the Python source of the
four anchored methods on every run (statement by statement, refusing what it does not understand); Props/C14.lean proves
the generated definitions equal to the hand model (lean/NmlVerif/Model/Groups.lean) for all inputs (`c14_gen_*`), and
`c14_main` states the property on the generated definitions. (2) correspondence on generated cells (random group DAGs,
duplicate members/includes, overlapping members, the implicit "all" group, natural-sort-sensitive ids, list objects and
Member/Include objects shared between groups, negative / missing segment ids, both kinds of argument and both values
of assume_all_means_all, include chains deeper than the recursion limit), each evaluated on the cell built in memory
AND on the same cell after an XML write/load round trip; the same cases are evaluated against a harness-side reference
(set reachability) for the full property statement on the real code.
"""
import json
import os
import re
import shutil
import sys
import tempfile

import fw

LEAN_PROPS = ["NmlVerif.Props.C14", "NmlVerif.Props.C14Gen"]
LEAN_EXTRA = ["NmlVerif.Gen.Groups"]
LEVEL = "proof"
RULE = ("random cells: 0-6 groups (thorough 0-9) drawn from a pool of ids that natural sort orders differently from "
        "string sort (g2/g10/g01/g1, 9a/10, a1b2/a1b10, standard all/soma_group/...), include DAG in a random "
        "topological order (0-4 includes per group, duplicates, chains >= 3 deep, includes of an undefined 'all'), "
        "members overlapping the included closures with duplicates (same object or equal-valued objects), op = "
        "optimise_segment_groups or optimise_segment_group(g); malformed stream: include cycles, dangling includes, "
        "duplicate group ids, empty id, unknown g, a cycle next to a dangling include. 15% of the valid cases make two "
        "groups share one members/includes list object or share Member/Include objects across groups; 8% use negative "
        "or missing (None) segment ids (memory only: the loader rejects them); every case also asks every id with "
        "assume_all_means_all=False and every SegmentGroup object (plus one that is not in the cell) instead of its id; "
        "one chain deeper than the interpreter's recursion limit per run. "
        "Every case runs twice: built in memory and after an XML round trip. "
        "A case is non-trivial when it is acyclic, nothing raises and some optimised group has >= 2 distinct includes, "
        ">= 1 direct member and >= 1 member supplied by an include; distinct = distinct canonical (cell, op, mode)")
TRUST = [
    "translators/groups_extract.py (Python ast -> Lean do-notation; value representation of Member/Include objects, lists, "
    "sets and group references as documented in its header; refuses anything else) and Lean's `do` elaboration; the hand "
    "model is proved equal to its output, so it is no longer trusted by itself",
    "natsort.natsorted(xs, key=k) modelled as a stable sort by a key; the key order of group ids is computed by the harness "
    "(natural-sort chunks) and compared with natsort on every case; Member.segments are non-negative ints",
    "lxml/generateDS writer+parser keep the order and values of <member>/<include> children (sampled by the XML stream)",
]
ASSUMPTIONS = [
    "theorems assume an acyclic include graph (Acyclic = a rank function strictly decreasing along includes exists; "
    "c14_acyclic_iff proves this equivalent to 'no group is reachable from one of its own includes'); totality theorems "
    "additionally assume no dangling include and no empty group id",
    "group ids are interned: 'all' -> 0, '' -> 1; a group with a duplicate id is invisible to the API (first one wins) and "
    "minimality is claimed for the visible group of each id",
    "the cell is not modified concurrently; Member/Include objects carry int segment ids / str group ids; Cell.id is a str",
    "segment ids are compared and sorted only: when a case has a negative or missing id the harness interns the ids by "
    "their rank in natsort's order (None first, then numeric)",
    "recursion depth: the theorems allow a depth above the number of groups; CPython allows sys.getrecursionlimit() frames "
    "(open known finding C14:recursion-limit:acyclic-chain, c14_depth_full/_partial/_witness)",
]

POOL = ["soma_group", "dendrite_group", "axon_group", "g1", "g2", "g10", "g01", "G3", "a1b2", "a1b10", "dend_3",
        "dend_12", "10", "9a", "soma_0", "x-y", "x_y", "all", "g001", "apical"]


# ---------------------------------------------------------------- natural sort key (independent of natsort)
def natkey(s):
    out = []
    for idx, p in enumerate(re.split(r"([0-9]+)", s)):
        if idx % 2:
            out.append((1, int(p), ""))
        elif p:
            out.append((0, 0, p))
    if out and out[0][0] == 1:
        out.insert(0, (0, 0, ""))
    return tuple(out)


def intern(case):
    """group id string -> Nat ('all' -> 0, '' -> 1), and the natural-sort rank of every id"""
    ids = []
    for g in case["groups"]:
        ids.append(g["id"])
        ids += g["includes"]
    if case["op"] == "group":
        ids.append(case["g"])
    for g in case.get("foreign", []):
        ids.append(g["id"])
        ids += g["includes"]
    tbl = {"all": 0, "": 1}
    for i in ids:
        if i not in tbl:
            tbl[i] = len(tbl)
    keys = sorted({natkey(i) for i in tbl})
    rank = {i: keys.index(natkey(i)) for i in tbl}
    return tbl, rank


def segkey(v):
    """natsort's order of Member.segments values: None first, then numeric"""
    return (0, 0) if v is None else (1, v)


def intern_segs(case):
    """segment id -> Nat: identity for ordinary cells, rank in natsort's order when a negative or missing id occurs"""
    vals = set(case["segs"])
    for g in list(case["groups"]) + list(case.get("foreign", [])):
        vals |= set(g["members"])
    if all(isinstance(v, int) and v >= 0 for v in vals):
        return {v: v for v in vals}
    return {v: k for k, v in enumerate(sorted(vals, key=segkey))}


# ---------------------------------------------------------------- generator
def gen_case(rng, big=False, malformed=False):
    ng = rng.choice([0, 1, 2, 2, 3, 3, 4, 4, 5, 6] + ([7, 8, 9] if big else []))
    ids = rng.sample(POOL, ng)
    nseg = rng.randint(0, 9 if big else 7)
    if rng.random() < 0.2:
        segs = sorted(rng.sample(range(0, 30), nseg))
    else:
        segs = list(range(nseg))
    if rng.random() < 0.1:
        rng.shuffle(segs)
    topo = list(ids)
    rng.shuffle(topo)                      # topo[k] may include only topo[j], j > k
    chain = rng.random() < 0.45            # force a chain >= 3 deep when there are enough groups
    groups = {}
    closure = {}
    for k in range(len(topo) - 1, -1, -1):
        gid = topo[k]
        later = topo[k + 1:]
        incs = []
        if later:
            for _ in range(rng.choice([0, 0, 1, 1, 2, 2, 3, 4])):
                incs.append(rng.choice(later))
            if chain and k + 1 < len(topo) and topo[k + 1] not in incs:
                incs.insert(rng.randint(0, len(incs)), topo[k + 1])
        if "all" not in ids and gid != "all" and rng.random() < 0.12:
            incs.insert(rng.randint(0, len(incs)), "all")     # the undefined "all": every segment
        if incs and rng.random() < 0.4:
            for _ in range(rng.randint(1, 2)):
                incs.insert(rng.randint(0, len(incs)), rng.choice(incs))   # duplicate include
        cov = set()
        for i in incs:
            cov |= closure.get(i, set(segs))
        mem = []
        universe = segs + ([rng.randint(30, 40)] if rng.random() < 0.1 else [])
        if universe:
            for _ in range(rng.choice([0, 1, 2, 3, 3, 4, 5, 6])):
                if cov and rng.random() < 0.45:
                    mem.append(rng.choice(sorted(cov)))          # supplied by an include as well
                else:
                    mem.append(rng.choice(universe))
            if mem and rng.random() < 0.45:
                for _ in range(rng.randint(1, 3)):
                    mem.insert(rng.randint(0, len(mem)), rng.choice(mem))  # duplicate member
        groups[gid] = {"id": gid, "members": mem, "includes": incs}
        closure[gid] = set(mem) | cov
    glist = [groups[i] for i in ids]
    case = {"segs": segs, "groups": glist, "alias": rng.random() < 0.3}
    if not malformed and len(topo) >= 2 and rng.random() < 0.15:
        # two groups share ONE list object (members, or includes when that keeps the graph acyclic), or Member/Include
        # objects are shared across groups
        kind = rng.choice(["members", "members", "includes", "objects"])
        if kind == "objects":
            case["xalias"] = True
        else:
            a, b = sorted(rng.sample(range(len(topo)), 2))      # topo[a] is above topo[b]
            src, dst = (topo[b], topo[a]) if kind == "includes" or rng.random() < 0.5 else (topo[a], topo[b])
            groups[dst][kind] = list(groups[src][kind])
            case["share"] = [[kind, ids.index(src), ids.index(dst)]]
    if not malformed and rng.random() < 0.08:
        # unusual Member.segments / Segment.id values: negative, missing; only the order and equality matter
        pool = sorted({v for g in glist for v in g["members"]} | set(segs))
        ren = {v: v for v in pool}
        for v in rng.sample(pool, min(len(pool), rng.randint(1, 3))):
            ren[v] = -1 - v
        if pool and rng.random() < 0.5:
            ren[rng.choice(pool)] = None
        for g in glist:
            g["members"] = [ren[m] for m in g["members"]]
        case["segs"] = [ren[v] for v in segs if ren[v] is not None]
        case["kinds"] = True
    if rng.random() < 0.5:
        # a SegmentGroup object that does not belong to the cell, passed to get_all_segments_in_group
        fm = [rng.choice(case["segs"]) for _ in range(rng.randint(0, 3))] if case["segs"] else []
        case["foreign"] = [{"id": rng.choice(["foreign", "all"] + ids), "members": fm + fm[:1],
                            "includes": [rng.choice(ids + ["all"]) for _ in range(rng.randint(0, 2))]}]
    if ids and rng.random() < 0.4:
        case["op"], case["g"] = "group", rng.choice(ids)
    else:
        case["op"] = "all"
    if malformed:
        kind = rng.choice(["self", "cycle2", "cycle3", "dangling", "dupid", "emptyid", "unknown-g", "dupseg", "cycle-dangling"])
        case["malformed"] = kind
        if kind == "self" and glist:
            g = rng.choice(glist)
            g["includes"].insert(rng.randint(0, len(g["includes"])), g["id"])
        elif kind in ("cycle2", "cycle3") and len(topo) >= 2:
            # close a back edge from a late group to an early one that reaches it
            a, b = topo[0], topo[min(len(topo) - 1, 1 if kind == "cycle2" else 2)]
            if b not in groups[a]["includes"]:
                groups[a]["includes"].append(b)
            groups[b]["includes"].insert(rng.randint(0, len(groups[b]["includes"])), a)
        elif kind == "dangling" and glist:
            g = rng.choice(glist)
            g["includes"].insert(rng.randint(0, len(g["includes"])), "nosuch")
        elif kind == "dupid" and glist:
            g = rng.choice(glist)
            glist.insert(rng.randint(0, len(glist)),
                         {"id": g["id"], "members": [rng.choice(segs)] * 2 if segs else [], "includes": []})
        elif kind == "emptyid":
            glist.insert(rng.randint(0, len(glist)), {"id": "", "members": list(segs[:2]) * 2, "includes": []})
        elif kind == "unknown-g":
            case["op"], case["g"] = "group", rng.choice(["nosuch", "", "all"])
        elif kind == "dupseg" and segs:
            case["segs"] = segs + [segs[0]]
        elif kind == "cycle-dangling" and glist:
            # the optimised group has a cycle through one include and a dangling include below another one: which
            # error is met first depends on the order of its includes AFTER they were sorted
            g = rng.choice(glist)
            cyc, dang = rng.sample(["zz_cyc", "aa_dang", "m5", "m40"], 2)
            glist.append({"id": cyc, "members": list(segs[:1]), "includes": [g["id"]]})
            glist.append({"id": dang, "members": list(segs[:1]), "includes": ["nosuch"]})
            extra = [cyc, dang]
            rng.shuffle(extra)
            for e in extra:
                g["includes"].insert(rng.randint(0, len(g["includes"])), e)
            if not g["members"] and segs:
                g["members"] = [segs[0]]
            if rng.random() < 0.7:
                case["op"], case["g"] = "group", g["id"]
    return case


# ---------------------------------------------------------------- real library
def build_cell(case):
    import neuroml as n
    c = n.Cell(id="cell0")
    c.morphology = n.Morphology(id="morph0")
    for s in case["segs"]:
        c.morphology.segments.append(n.Segment(
            id=s, name="s%d" % s,
            proximal=n.Point3DWithDiam(x=0, y=0, z=0, diameter=1), distal=n.Point3DWithDiam(x=1, y=0, z=0, diameter=1)))
    mobj, iobj = {}, {}
    for g in case["groups"]:
        sg = n.SegmentGroup(id=g["id"])
        if not case.get("xalias"):
            mobj, iobj = {}, {}
        for m in g["members"]:
            if (case.get("alias") or case.get("xalias")) and m in mobj:
                sg.members.append(mobj[m])           # the very same object twice
            else:
                mobj[m] = n.Member(segments=m)
                sg.members.append(mobj[m])
        for i in g["includes"]:
            if (case.get("alias") or case.get("xalias")) and i in iobj:
                sg.includes.append(iobj[i])
            else:
                iobj[i] = n.Include(segment_groups=i)
                sg.includes.append(iobj[i])
        c.morphology.segment_groups.append(sg)
    sgs = c.morphology.segment_groups
    for kind, src, dst in case.get("share", []):
        if kind == "members":
            sgs[dst].members = sgs[src].members          # the very same list object
        else:
            sgs[dst].includes = sgs[src].includes
    return c


def foreign_objects(case):
    import neuroml as n
    out = []
    for g in case.get("foreign", []):
        sg = n.SegmentGroup(id=g["id"])
        for m in g["members"]:
            sg.members.append(n.Member(segments=m))
        for i in g["includes"]:
            sg.includes.append(n.Include(segment_groups=i))
        out.append(sg)
    return out


def roundtrip(cell, root, k):
    import neuroml as n
    import neuroml.loaders as L
    import neuroml.writers as W
    doc = n.NeuroMLDocument(id="doc0")
    doc.cells.append(cell)
    p = os.path.join(root, "c%d.cell.nml" % k)
    W.NeuroMLWriter.write(doc, p)
    doc2 = L.read_neuroml2_file(p)
    os.remove(p)
    return doc2.cells[0]


def exc_tag(e):
    if isinstance(e, RecursionError):
        return "outOfFuel"
    if isinstance(e, ValueError) and "not found in cell" in str(e):
        return "notFound"
    if type(e) is Exception and str(e).startswith("No segment group"):
        return "unknownGroup"
    return "exc:" + type(e).__name__ + ":" + str(e)[:80]


def guarded(f):
    lim = sys.getrecursionlimit()
    sys.setrecursionlimit(250)
    try:
        return f()
    except BaseException as e:  # noqa
        if isinstance(e, (KeyboardInterrupt, SystemExit)):
            raise
        return exc_tag(e)
    finally:
        sys.setrecursionlimit(lim)


def dump_groups(cell):
    return [{"id": sg.id, "members": [m.segments for m in sg.members],
             "includes": [i.segment_groups for i in sg.includes]} for sg in cell.morphology.segment_groups]


def ask_ids(case):
    out = []
    for g in case["groups"]:
        for i in [g["id"]] + list(g["includes"]):
            if i not in out:
                out.append(i)
    if "all" not in out:
        out.append("all")
    return out


def run_real(case, mode, root, k):
    cell = build_cell(case)
    if mode == "xml":
        cell = roundtrip(cell, root, k)
    ask = ask_ids(case)

    def resolved():
        out = [[i, guarded(lambda: list(cell.get_all_segments_in_group(i)))] for i in ask]
        # the same question asked with the SegmentGroup object instead of its id (first group of each id)
        byid = dict((i, v) for i, v in out)
        seen = set()
        for sg in cell.morphology.segment_groups:
            if sg.id in seen:
                continue
            seen.add(sg.id)
            v = guarded(lambda: list(cell.get_all_segments_in_group(sg)))
            if v != byid.get(sg.id):
                objdiff.append([sg.id, byid.get(sg.id), v])
        return out
    objdiff = []

    def op():
        if case["op"] == "group":
            r = guarded(lambda: cell.optimise_segment_group(case["g"]))
        else:
            r = guarded(lambda: cell.optimise_segment_groups())
        return dump_groups(cell) if r is None else r
    out = {"before": resolved(), "objdiff": objdiff}
    # assume_all_means_all=False (keyword and positional), every SegmentGroup object of the list and a foreign one
    out["noall"] = [[i, guarded(lambda: list(cell.get_all_segments_in_group(i, assume_all_means_all=False)))] for i in ask]
    pos = [[i, guarded(lambda: list(cell.get_all_segments_in_group(i, False)))] for i in ask]
    if pos != out["noall"]:
        objdiff.append(["positional-flag", out["noall"], pos])
    out["objs"] = [guarded(lambda: list(cell.get_all_segments_in_group(sg)))
                   for sg in list(cell.morphology.segment_groups) + foreign_objects(case)]
    out["once"] = op()
    if isinstance(out["once"], str):
        out["after"], out["twice"] = None, None
    else:
        out["after"] = resolved()
        out["twice"] = op()
    return out


# ---------------------------------------------------------------- model (Lean driver)
def model_line(case):
    tbl, rank = intern(case)
    st = intern_segs(case)

    def grp(g):
        return {"id": tbl[g["id"]], "members": [st[m] for m in g["members"]], "includes": [tbl[i] for i in g["includes"]]}
    j = {"segs": [st[v] for v in case["segs"]],
         "groups": [grp(g) for g in case["groups"]],
         "foreign": [grp(g) for g in case.get("foreign", [])],
         "keys": [[tbl[i], rank[i]] for i in tbl],
         "fuel": case.get("fuel", len(case["groups"]) + 3),
         "ask": [tbl[i] for i in ask_ids(case)],
         "op": case["op"]}
    if case["op"] == "group":
        j["g"] = tbl[case["g"]]
    return json.dumps(j)


def canon_real(case, r):
    """real result in the model's vocabulary (interned ids)"""
    tbl, _ = intern(case)
    st = intern_segs(case)

    def res(x):
        return x if isinstance(x, str) else [st.get(v, -1) for v in x]

    def groups(x):
        if x is None or isinstance(x, str):
            return x
        return [{"id": tbl.get(g["id"], -1), "members": [st.get(m, -1) for m in g["members"]],
                 "includes": [tbl.get(i, -1) for i in g["includes"]]} for g in x]
    return {"before": [[tbl[i], res(v)] for i, v in r["before"]],
            "once": groups(r["once"]),
            "after": None if r["after"] is None else [[tbl[i], res(v)] for i, v in r["after"]],
            "twice": groups(r["twice"]),
            "noall": [[tbl[i], res(v)] for i, v in r["noall"]],
            "objs": [res(v) for v in r["objs"]]}


# ---------------------------------------------------------------- reference (independent of the Lean model)
def reference(case):
    """closure of every id by plain set reachability; which ids are on/reach a cycle or a dangling include"""
    first = {}
    for g in case["groups"]:
        first.setdefault(g["id"], g)

    def lookup(i):
        if i in first:
            return first[i]
        if i == "all":
            return {"id": "all", "members": list(case["segs"]), "includes": []}
        return None
    clo, bad = {}, {}
    for start in ask_ids(case):
        seen, todo, segs, isbad = set(), [start], set(), False
        while todo:
            i = todo.pop()
            if i in seen:
                continue
            seen.add(i)
            g = lookup(i)
            if g is None:
                isbad = True
                continue
            segs |= set(g["members"])
            todo += g["includes"]
        clo[start], bad[start] = segs, isbad
    # cycles: i reaches i through >= 1 include
    cyc = {}
    for start in ask_ids(case):
        seen, todo, hit = set(), list((lookup(start) or {"includes": []})["includes"]), False
        reach = set()
        while todo:
            i = todo.pop()
            if i in reach:
                continue
            reach.add(i)
            g = lookup(i)
            if g is not None:
                todo += g["includes"]
        cyc[start] = reach
    oncycle = {i for i in cyc if i in cyc[i]}
    reaches_cycle = {i for i in cyc if i in oncycle or (cyc[i] & oncycle)}
    return {"first": first, "lookup": lookup, "clo": clo, "bad": bad, "cyclic": reaches_cycle}


def wellformed(case):
    """inside the property's quantifier: acyclic, no dangling include, distinct non-empty group ids, distinct segment ids"""
    ids = [g["id"] for g in case["groups"]]
    if len(set(ids)) != len(ids) or "" in ids:
        return False
    if len(set(case["segs"])) != len(case["segs"]):
        return False
    ref = reference(case)
    return not ref["cyclic"] and not any(ref["bad"].values())


def oracle(ctx, case, mode, real):
    """the full property statement on the real code"""
    payload = {"case": case, "mode": mode}
    if not wellformed(case):
        return False
    ref = reference(case)
    built = "loaded" if mode == "xml" else "built"
    if real.get("objdiff"):
        ctx.fail("C14:object-vs-id", "get_all_segments_in_group(group object) differs from (group id): %s" % (real["objdiff"][:2],), payload)
    # 1. resolve = closure, each once
    for i, v in real["before"]:
        if isinstance(v, str):
            ctx.fail("C14:resolve-error", "get_all_segments_in_group(%r) raised %s on an acyclic cell" % (i, v), payload)
            return False
        if set(v) != ref["clo"][i]:
            ctx.fail("C14:resolve-not-closure", "get_all_segments_in_group(%r) = %s, closure is %s" % (i, v, sorted(ref["clo"][i], key=segkey)), payload)
        elif len(set(v)) != len(v):
            ctx.fail("C14:resolve-duplicate", "get_all_segments_in_group(%r) reports a segment twice: %s" % (i, v), payload)
    # 1b. the flag changes nothing for a defined group; a SegmentGroup object resolves to its members + its includes
    for i, v in real.get("noall", []):
        if i in ref["first"] and (isinstance(v, str) or set(v) != ref["clo"][i] or len(set(v)) != len(v)):
            ctx.fail("C14:resolve-not-closure:flag", "get_all_segments_in_group(%r, assume_all_means_all=False) = %s, "
                     "closure is %s" % (i, v, sorted(ref["clo"][i], key=segkey)), payload)
    objs = list(case["groups"]) + list(case.get("foreign", []))
    for g, v in zip(objs, real.get("objs", [])):
        want = set(g["members"])
        for i in g["includes"]:
            want |= ref["clo"].get(i, set())
        if isinstance(v, str) or set(v) != want or len(set(v)) != len(v):
            ctx.fail("C14:resolve-not-closure:object", "get_all_segments_in_group(<SegmentGroup %r>) = %s, closure is %s" % (
                g["id"], v, sorted(want, key=segkey)), payload)
    # 2. optimise
    if case["op"] == "group" and case["g"] not in ref["first"]:
        if real["once"] != "notFound":
            ctx.fail("C14:unknown-group-accepted", "optimise_segment_group of an undefined group: %s" % (real["once"],), payload)
        return False
    if isinstance(real["once"], str):
        ctx.fail("C14:unexpected-error", "optimising a well-formed cell raised %s" % real["once"], payload)
        return False
    targets = [case["g"]] if case["op"] == "group" else [g["id"] for g in case["groups"]]
    nontrivial = False
    for i, v in real["after"]:
        if isinstance(v, str) or set(v) != ref["clo"][i]:
            ctx.fail("C14:closure-changed", "segments of group %r changed by optimising: before %s after %s" % (
                i, sorted(ref["clo"][i], key=segkey), v), payload)
    after = {g["id"]: g for g in real["once"]}
    if [g["id"] for g in real["once"]] != [g["id"] for g in case["groups"]]:
        ctx.fail("C14:groups-changed", "the list of groups changed", payload)
        return False
    for g0, g1 in zip(case["groups"], real["once"]):
        if g0["id"] not in targets:
            if g0["members"] != g1["members"] or g0["includes"] != g1["includes"]:
                ctx.fail("C14:other-group-touched", "group %r was not optimised but changed" % g0["id"], payload)
            continue
        ninc = len(set(g0["includes"]))
        if set(g1["includes"]) != set(g0["includes"]):
            ctx.fail("C14:include-set-changed", "includes of %r changed as a set" % g0["id"], payload)
        if len(set(g1["includes"])) != len(g1["includes"]):
            ctx.fail("C14:duplicate-include:" + built, "group %r keeps a duplicate include: %s" % (g0["id"], g1["includes"]), payload)
        if len(set(g1["members"])) != len(g1["members"]):
            key = "C14:duplicate-member:" + ("includes>=2" if ninc >= 2 else built)
            ctx.fail(key, "group %r keeps a duplicate member: %s" % (g0["id"], g1["members"]), payload)
        cov = set()
        for i in g1["includes"]:
            cov |= ref["clo"][i]
        resid = [m for m in g1["members"] if m in cov]
        if resid:
            ctx.fail("C14:residual-member:includes%s" % (">=2" if ninc >= 2 else "=1"),
                     "group %r keeps members %s that its includes %s already supply" % (g0["id"], resid, g1["includes"]), payload)
        if not set(g1["members"]) <= set(g0["members"]):
            ctx.fail("C14:member-invented", "group %r gained a member" % g0["id"], payload)
        if ninc >= 2 and g0["members"] and (set(g0["members"]) & cov):
            nontrivial = True
    # 3. idempotence
    if real["twice"] != real["once"]:
        ctx.fail("C14:not-idempotent", "optimising twice differs from once: %s vs %s" % (real["once"], real["twice"]), payload)
    return nontrivial


# ---------------------------------------------------------------- corpus
CORPUS = [
    # the two defects repaired by fixes/C14-optimise-segment-group.patch:
    # (1) two includes: a member covered by only one include survived and an uncovered one was duplicated
    {"segs": [0, 1, 2], "alias": False, "op": "group", "g": "g",
     "groups": [{"id": "a", "members": [0], "includes": []}, {"id": "b", "members": [1], "includes": []},
                {"id": "g", "members": [0, 1, 2], "includes": ["a", "b"]}]},
    # (2) duplicate <member>/<include> (never de-duplicated after loading from XML)
    {"segs": [0, 1], "alias": False, "op": "all",
     "groups": [{"id": "a", "members": [1], "includes": []},
                {"id": "g", "members": [0, 0], "includes": ["a", "a"]}]},
    # the repo's own test shape: one include repeated, member supplied by it
    {"segs": [0], "alias": False, "op": "group", "g": "all",
     "groups": [{"id": "soma_0", "members": [0], "includes": []},
                {"id": "all", "members": [0, 0], "includes": ["soma_0", "soma_0", "soma_0", "soma_0"]}]},
    # natural sort of includes (g2 < g10, tie g01/g1 keeps list order), chain 3 deep, implicit all
    {"segs": [0, 1, 2, 3, 4], "alias": True, "op": "all",
     "groups": [{"id": "top", "members": [4, 3, 4, 0], "includes": ["g10", "g2", "g1", "g01", "g10"]},
                {"id": "g10", "members": [3], "includes": ["g2"]}, {"id": "g2", "members": [2], "includes": ["g1"]},
                {"id": "g1", "members": [1, 1], "includes": []}, {"id": "g01", "members": [0], "includes": []},
                {"id": "everything", "members": [2], "includes": ["all"]}]},
    # two groups share one `members` list object, a third shares its `includes` list object with the first; Member
    # objects shared across groups (value semantics: nothing leaks through the shared objects)
    {"segs": [0, 1, 2, 3], "alias": False, "xalias": True, "op": "all", "share": [["members", 1, 2], ["includes", 1, 0]],
     "groups": [{"id": "top", "members": [3, 1, 3], "includes": ["leaf", "leaf"]},
                {"id": "mid", "members": [2, 0, 2, 1], "includes": ["leaf", "leaf"]},
                {"id": "twin", "members": [2, 0, 2, 1], "includes": []},
                {"id": "leaf", "members": [1, 1], "includes": []}],
     "foreign": [{"id": "foreign", "members": [3, 3], "includes": ["mid", "all"]}]},
    # negative and missing segment ids (natsort: None first, then numeric), memory only
    {"segs": [-2, 0, 5], "alias": False, "op": "all", "kinds": True,
     "groups": [{"id": "a", "members": [-2, None, 5, -2], "includes": []},
                {"id": "b", "members": [5], "includes": []},
                {"id": "g", "members": [0, None, -2, 0, 5], "includes": ["b", "a", "b"]}]},
    # past disagreement (model repaired): a cycle g > zz > g and a dangling include below aa; the includes are resolved
    # in the cell whose group g is ALREADY sorted, so the unknown group is met before the cycle
    {"segs": [0, 1], "alias": False, "op": "group", "g": "g", "malformed": "cycle-dangling",
     "groups": [{"id": "g", "members": [0], "includes": ["zz", "aa"]}, {"id": "zz", "members": [1], "includes": ["g"]},
                {"id": "aa", "members": [1], "includes": ["nosuch"]}]},
    # malformed: self include / two-cycle / dangling include before a cycle / duplicate ids / empty id
    {"segs": [0], "alias": False, "op": "all", "malformed": "self",
     "groups": [{"id": "g", "members": [0], "includes": ["g"]}]},
    {"segs": [0, 1], "alias": False, "op": "all", "malformed": "cycle2",
     "groups": [{"id": "a", "members": [0], "includes": ["b"]}, {"id": "b", "members": [1, 1], "includes": ["nosuch", "a"]}]},
    {"segs": [0, 1], "alias": False, "op": "all", "malformed": "dupid",
     "groups": [{"id": "a", "members": [0, 0], "includes": []}, {"id": "a", "members": [1, 1], "includes": []}]},
    {"segs": [0, 1], "alias": False, "op": "all", "malformed": "emptyid",
     "groups": [{"id": "a", "members": [0, 0], "includes": []}, {"id": "", "members": [1, 1], "includes": []},
                {"id": "b", "members": [1, 1], "includes": []}]},
]


def check_natsort(ctx, case):
    """the harness' natural-sort key agrees with natsort on this case's ids"""
    import natsort
    tbl, rank = intern(case)
    ids = list(tbl)
    a = natsort.natsorted(ids)
    b = sorted(ids, key=natkey)
    if a != b:
        ctx.disagree("natsort-key", {"ids": ids}, a, b)


def run_cases(ctx, cases):
    lines = [model_line(c) for c in cases]
    rc, out = fw.run_driver("C14", lines)
    if rc != 0 or len(out) != len(lines):
        ctx.disagree("driver", "driver failed rc=%s" % rc, "\n".join(out[-5:]), None)
        mouts = [None] * len(lines)
    else:
        mouts = [json.loads(l) for l in out]
    root = tempfile.mkdtemp(prefix="verif_c14_")
    try:
        for k, c in enumerate(cases):
            check_natsort(ctx, c)
            for mode in ("mem", "xml"):
                if mode == "xml" and c.get("kinds"):
                    continue                      # the loader rejects negative / missing segment ids
                real = run_real(c, mode, root, k)
                canon = {"segs": c["segs"], "groups": c["groups"], "op": c["op"], "g": c.get("g"), "mode": mode,
                         "alias": bool(c.get("alias")) and mode == "mem",
                         "share": (c.get("share"), c.get("xalias")) if mode == "mem" else None}
                nt = oracle(ctx, c, mode, real)
                ctx.seen(canon, nontrivial=nt)
                ctx.count("mode:" + mode)
                ctx.count("op:" + c["op"])
                ctx.count("stream:" + ("malformed:" + c["malformed"] if c.get("malformed") else "valid"))
                ctx.count("ngroups:%d" % len(c["groups"]))
                if mode == "mem":
                    for feat in ("share", "xalias", "kinds", "foreign"):
                        if c.get(feat):
                            ctx.count("feature:" + (feat if feat != "share" else "share-" + c["share"][0][0]))
                ctx.count("max-includes:%d" % max([len(set(g["includes"])) for g in c["groups"]] + [0]))
                ctx.count("result:" + (real["once"] if isinstance(real["once"], str) else "ok").split(":")[0])
                ctx.corr_evals += 1
                m = mouts[k]
                r_c = canon_real(c, real)
                if m != r_c:
                    ctx.disagree("groups-model", {"case": c, "mode": mode}, r_c, m)
            ctx.sample({"groups": [(g["id"], g["members"], g["includes"]) for g in c["groups"]], "segs": c["segs"],
                        "op": c["op"], "g": c.get("g")})
    finally:
        shutil.rmtree(root, ignore_errors=True)


def deep_chain(ctx):
    """An acyclic chain deeper than the interpreter's recursion limit (known finding C14:recursion-limit): the real
    code raises RecursionError on it. The depth the interpreter really allows here is measured (bisection on the
    chain's suffixes) and the model is run with that much fuel: it must then agree on every group asked."""
    import neuroml as n
    lim = sys.getrecursionlimit()
    N = lim + 40
    names = ["c%04d" % k for k in range(N)]
    case = {"segs": [0, 1, 2], "alias": False, "op": "group", "g": names[0],
            "groups": [{"id": names[k], "members": [k % 3], "includes": [names[k + 1]] if k + 1 < N else []}
                       for k in range(N)]}
    cell = build_cell(case)

    def ask(k):       # group k has a chain of N-k groups below it (itself included)
        try:
            return list(cell.get_all_segments_in_group(names[k]))
        except BaseException as e:  # noqa
            if isinstance(e, (KeyboardInterrupt, SystemExit)):
                raise
            return exc_tag(e)
    lo, hi = 1, N                       # depth lo resolves, depth hi does not (if hi does, the finding is gone)
    top = ask(0)
    payload = {"case": {"deep_chain": N, "recursion_limit": lim}, "mode": "mem"}
    ctx.count("stream:deep-chain")
    if top == "outOfFuel":
        ctx.fail("C14:recursion-limit:acyclic-chain",
                 "get_all_segments_in_group on an acyclic chain of %d nested groups raises RecursionError "
                 "(recursion limit %d)" % (N, lim), payload)
        while hi - lo > 1:
            mid = (lo + hi) // 2
            if isinstance(ask(N - mid), str):
                hi = mid
            else:
                lo = mid
        depth = lo
    else:
        depth = N
    ctx.extra["deep_chain"] = {"groups": N, "recursion_limit": lim, "deepest_chain_resolved": depth}
    # the optimiser needs the same resolutions: it raises on the deep group as well and leaves a shallow one minimal
    shallow = max(0, N - max(1, depth - 20))
    r0 = guarded_full(lambda: cell.optimise_segment_group(names[0]))
    r1 = guarded_full(lambda: cell.optimise_segment_group(names[shallow]))
    if r0 == "outOfFuel":
        ctx.fail("C14:recursion-limit:acyclic-chain", "optimise_segment_group on the same chain raises RecursionError", payload)
    elif r0 is not None:
        ctx.fail("C14:unexpected-error", "optimise_segment_group on a deep chain raised %s" % r0, payload)
    if r1 is not None:
        ctx.fail("C14:unexpected-error", "optimise_segment_group on a chain of depth %d raised %s" % (N - shallow, r1), payload)
    # model with exactly the measured depth as fuel, asked at the boundary and far from it
    probes = sorted({0, N - 1, N - depth, max(0, N - depth - 1), min(N - 1, N - depth + 1), N // 2})
    tbl, rank = intern(case)
    st = intern_segs(case)
    line = {"segs": case["segs"], "foreign": [], "op": "none", "fuel": depth, "ask": [tbl[names[k]] for k in probes],
            "groups": [{"id": tbl[g["id"]], "members": g["members"], "includes": [tbl[i] for i in g["includes"]]}
                       for g in case["groups"]],
            "keys": [[tbl[i], rank[i]] for i in tbl]}
    rc, out = fw.run_driver("C14", [json.dumps(line)])
    real = [[tbl[names[k]], ask(k)] for k in probes]
    ctx.corr_evals += 1
    ctx.seen({"deep_chain": N}, nontrivial=False)
    if rc != 0 or len(out) != 1:
        ctx.disagree("driver", "driver failed on the deep chain rc=%s" % rc, "\n".join(out[-3:]), None)
    else:
        m = json.loads(out[0])["before"]
        if m != real:
            ctx.disagree("groups-model-depth", {"deep_chain": N, "fuel": depth, "probes": probes},
                         [[i, v if isinstance(v, str) else len(v)] for i, v in real],
                         [[i, v if isinstance(v, str) else len(v)] for i, v in m])


def guarded_full(f):
    """like `guarded` but with the interpreter's own recursion limit"""
    try:
        return f()
    except BaseException as e:  # noqa
        if isinstance(e, (KeyboardInterrupt, SystemExit)):
            raise
        return exc_tag(e)


def regenerate(ctx):
    tdir = os.path.join(fw.VERIF, "translators")
    if tdir not in sys.path:
        sys.path.insert(0, tdir)
    import groups_extract
    gaps = groups_extract.regenerate(fw.REPO, os.path.join(fw.LEAN, "NmlVerif", "Gen", "Groups.lean"))
    ctx.extra["translator"] = {"file": "lean/NmlVerif/Gen/Groups.lean", "methods": groups_extract.TARGETS,
                               "gaps": gaps, "assumptions": getattr(groups_extract.regenerate, "assumptions", [])}
    return gaps


def run(ctx):
    deep_chain(ctx)
    n = ctx.n(2000, 12000) * ctx.search_mult
    cases = [json.loads(json.dumps(c)) for c in CORPUS]
    big = ctx.tier == "thorough"
    for i in range(n):
        cases.append(gen_case(ctx.rng, big=big, malformed=(i % 6 == 5)))
    for s in range(0, len(cases), 2000):
        run_cases(ctx, cases[s:s + 2000])


def replay(ctx, payload):
    case = payload["case"]["case"] if "case" in payload.get("case", {}) else payload["case"]
    if "deep_chain" in case:
        deep_chain(ctx)
    else:
        run_cases(ctx, [case])
    return {"fails": bool(ctx.failures or ctx.corr_disagreements), "failures": ctx.failures,
            "disagreements": ctx.corr_disagreements}
