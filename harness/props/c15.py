"""C15 — any sequence of cell-builder calls leaves a well-formed, valid cell.

Tie: hand model (lean/NmlVerif/Model/Builder.lean) + correspondence through the line protocol: random builder
histories are run on a real `Cell` (neuroml from fw.REPO) and on `Drivers/C15.lean`; after EVERY operation the two
dumps (segment ids / parent relation / names, groups in list order with their resolved sets, property lists, or the
class of the exception that ended the history) are compared, at the end additionally the result of the documented
reorder + optimise step and the verdicts of `validate(recursive=True)` and of libxml2 on the written cell
(vs the model's `shapeOK`).  The property's clauses are evaluated harness-side on the real cell (oracle, independent
of the Lean model).
"""
import contextlib
import io
import json
import logging
import os
import re
import shutil
import sys
import tempfile
import warnings

import fw

LEAN_PROPS = ["NmlVerif.Props.C15", "NmlVerif.Props.C15Second", "NmlVerif.Props.C15Valid", "NmlVerif.Props.C15Gen"]
LEAN_EXTRA = ["NmlVerif.Proofs.BuilderLeave", "NmlVerif.Proofs.BuilderValid", "NmlVerif.Proofs.BuilderGen", "NmlVerif.Model.BuilderObj", "NmlVerif.Model.BuilderIR",
              "NmlVerif.Gen.Builder"]
LEVEL = "proof"
RULE = ("random builder histories of 1-40 calls (add_segment / add_unbranched_segments / add_segment_group / "
        "add_unbranched_segment_group / setup_default_segment_groups / setup_nml_cell / reorder / optimise / "
        "membrane + intracellular properties incl. the set_* wrappers): parents among existing segments or none, "
        "fractions in {0,1/4,1/2,1}, group ids new/reused/none, three segment types, automatic / explicit / mixed "
        "ids incl. 0 and ids in use, with/without proximal, reorder/optimise flags on/off; plus a malformed stream "
        "(missing/unknown seg_type, fraction out of range, missing parent, <2 points, bad group ids and quantity "
        "strings, use_convention=False, foreign parent objects, overwrite).  A history is non-trivial when it ends "
        "with >=3 segments, >=1 user group included in a default group and >=1 call with an explicit id or a "
        "deferred reorder/optimise flag; distinct = distinct canonical op lists.  Second pass: segment ids also negative "
        "and in other lexical forms ('5', 5.5, 5.0), group ids None and '' mixed, malformed points (3-element lists, "
        "diameter 0), channel densities (add_channel_density / add_channel_density_v with and without a definition "
        "file), and in half of the malformed histories the caller CATCHES every exception and goes on (the state a "
        "raising call leaves behind is compared too)")
TRUST = [
    "hand-written model of Cell.add_segment & co. (Model/Builder.lean), tied to the code by per-operation correspondence and, for the "
    "statement sequence of add_segment and the constants of the other builder methods, by the translator translators/py2lean_builder.py "
    "(Gen/Builder.lean regenerated from helper_methods.py AND nml.py on every run; Props/C15Gen.lean: generated = expected by rfl, "
    "expected statement list = hand model for all inputs); the statement vocabulary (Model/BuilderIR.lean) and the whole-method "
    "templates of the small methods are hand-written",
    "natsort on integer segment ids modelled as numeric sort; order inside members/includes is not compared (only resolved sets, group order, names)",
    "validate(recursive=True) is the binding-level model of C02/C03 (validateAll over the regenerated binding table) run on the model's "
    "cell (cellObj); its verdict and the hand characterisation shapeOK are compared with the real validate and with libxml2 on every "
    "finished history; libxml2 itself is not modelled (the XSD verdict = validateAll with the schema's NonNegativeInteger check)",
]
ASSUMPTIONS = [
    "the property speaks about sequences of calls that each returned normally; what a raising call leaves behind is modelled (leaveWith) "
    "and compared in the histories where the caller catches exceptions, but only ids/parents are proved to survive (c15_caught_*)",
    "c15_partial is stated for every optimise_segment_groups meeting OptSpec (segments, group positions/ids, include sets and every resolved set kept: C14's statement); c15_optimise_meets_spec proves it for the model's own function (shipped and C14-repaired loop), the real function is tied to that by correspondence",
    "theorem hypotheses: the parent passed is a segment of the cell, use_convention=True (property's quantifier); "
    "OneTypePerGroup excludes the open finding group-reused-across-types; UserGroupNamesFresh is a hypothesis only for the tree "
    "WITHOUT fixes/C15-default-group-name.patch (on the repaired tree the refusal provides it: c15_names_fixed_full, c15_repaired_full)",
    "segment ids are integers as stored (int(seg_id)); fractions multiples of 1/4; point coordinates are not modelled (parameter geom of cellObj)",
    "c15_validate_accepts leaves the facet checks of the concrete strings (facetsOK st) and the generated code's max_occurs=9999999 (small) as decidable side conditions",
]

DEFAULTS = ["soma_group", "axon_group", "dendrite_group", "all"]
TYPE_GROUP = {"soma": "soma_group", "axon": "axon_group", "dendrite": "dendrite_group"}
# dend_1 / dend_01 and sec2 / sec02 have the same natural-sort key (zero padding), sec2 < sec10 naturally but not
# lexicographically, Sec2 / sec2 differ in case only: all are DIFFERENT groups (seeded change C15-4)
USER_GROUPS = ["g0", "g1", "g2", "dend_0", "dend_1", "dend_01", "axon_0", "soma_0", "sec10", "sec2", "sec02", "Sec2", "_x"]
KIND_LIST = {"SpikeThresh": "spike_threshes", "InitMembPotential": "init_memb_potentials",
             "SpecificCapacitance": "specific_capacitances", "Resistivity": "resistivities"}
KIND_ORDER = ["SpikeThresh", "InitMembPotential", "SpecificCapacitance", "Resistivity"]
GOOD_VALUES = {"SpikeThresh": ["40mV", "0.04 V", "-20mV", "4e1mV", ".5mV"],
               "InitMembPotential": ["-70mV", "-65 mV", "-0.07V", "-7E1 mV"],
               "SpecificCapacitance": ["1 uF_per_cm2", "1.0uF_per_cm2", "0.01 F_per_m2"],
               "Resistivity": ["2000 ohm_cm", "0.1 kohm_cm", "1ohm_m", "0ohm_cm"]}
BAD_VALUES = {"SpikeThresh": ["40 furlongs", "40", "4.mV", "40mVV", "1e mV", "--4mV"],
              "InitMembPotential": ["-65 cm", "-70 mv", "e3mV"],
              "SpecificCapacitance": ["kilo", "1 uF_per_cm", "1 uF per cm2"],
              "Resistivity": ["2000 kilO", "2000", "ohm"]}
UNITS = {"SpikeThresh": "V|mV", "InitMembPotential": "V|mV", "SpecificCapacitance": "F_per_m2|uF_per_cm2",
         "Resistivity": "ohm_cm|kohm_cm|ohm_m"}
NMLID = re.compile(r"[a-zA-Z_][a-zA-Z0-9_]*\Z")


def chan_ok(c):
    q = r"-?([0-9]*(\.[0-9]+)?)([eE]-?[0-9]+)?[\s]*(%s)\Z"
    return bool(NMLID.match(c["id"]) and NMLID.match(c["ion_channel"]) and NMLID.match(c["group"]) and NMLID.match(c["ion"])
                and re.match(q % "S_per_m2|mS_per_cm2|S_per_cm2", c["cond_density"]) and re.match(q % "V|mV", c["erev"]))


def quantity_ok(kind, v):
    """the XSD pattern of the kind's dimension, read off NeuroML_v2.3.1.xsd (reference for the oracle)"""
    return re.match(r"-?([0-9]*(\.[0-9]+)?)([eE]-?[0-9]+)?[\s]*(%s)\Z" % UNITS[kind], v) is not None


# ---------------------------------------------------------------- generator
def gen_case(rng, malformed=False, maxops=40):
    nops = rng.randint(1, maxops)
    idmode = rng.choice(["auto", "auto", "explicit", "mixed", "mixed"])
    reuse_types = rng.random() < 0.12          # a user group used with two segment types (open finding)
    default_named = rng.random() < 0.06        # a user group named like a default group (open finding)
    flags_mode = rng.choice(["default", "deferred", "random", "random"])
    grp_type = {}
    ids = []            # predicted ids of the segments present
    next_explicit = [rng.choice([0, 1, 3, 10])]
    explicit_low = rng.random() < 0.25
    caught = malformed and rng.random() < 0.5   # the caller catches every exception and goes on (second pass)
    lexical = rng.random() < 0.08              # some explicit ids are passed as "5" / 5.5 / 5.0 (docstring: `:type seg_id: str`)
    negative = rng.random() < 0.04             # some explicit ids are negative
    ops = []

    def junk():
        return rng.choice([None, ""])          # the two falsy group ids are different list entries

    def pick_group(t):
        r = rng.random()
        if r < 0.3:
            return None
        if default_named and rng.random() < 0.3:
            return rng.choice(DEFAULTS)
        cands = [g for g in USER_GROUPS if grp_type.get(g, t) == t or reuse_types]
        g = rng.choice(cands or USER_GROUPS)
        grp_type.setdefault(g, t)
        return g

    def pick_id():
        if idmode == "auto":
            return None
        if idmode == "explicit":
            next_explicit[0] += rng.choice([1, 1, 1, 2, 5])
            base = 0 if explicit_low else 200          # low explicit ids collide with later automatic ones
            return base + next_explicit[0] - 1 if rng.random() < 0.99 else (rng.choice(ids) if ids else 0)
        r = rng.random()
        if r < 0.5:
            return None
        if r < 0.52:
            return 0
        if r < 0.535 and ids:
            return rng.choice(ids)                      # an id in use
        if r < 0.56:
            return len(ids) + rng.choice([0, 1, 2])     # a later automatic id will collide with it
        next_explicit[0] += rng.choice([1, 2, 9])
        return 100 + next_explicit[0]

    def flags():
        if flags_mode == "default":
            return True, True
        if flags_mode == "deferred":
            return False, False
        return rng.random() < 0.5, rng.random() < 0.5

    for k in range(nops):
        r = rng.random()
        bad = malformed and rng.random() < 0.12
        if r < 0.6 or (k == 0 and r < 0.9):
            t = rng.choice(["soma", "dendrite", "dendrite", "axon"])
            g = pick_group(t)
            sid = pick_id()
            ro, op_ = flags()
            parent = rng.choice(ids) if ids else None
            if ids and rng.random() < 0.003:
                parent = None                               # forgotten parent -> Exception
            if negative and sid is not None and rng.random() < 0.4:
                sid = -rng.choice([1, 2, 3, 7])
            op = {"op": "addSegment", "prox": "ok" if (rng.random() < 0.6 or not ids) else rng.choice(["absent", "absent", "empty"]),
                  "dist": "ok", "seg_id": sid, "id_kind": "int",
                  "name": rng.choice([None, None, None, "nm%d" % k, ""]), "parent": parent,
                  "frac4": rng.choice([0, 1, 2, 4, 4, 4]), "group_id": g, "use_convention": True, "seg_type": t,
                  "reorder": ro, "optimise": op_}
            if lexical and sid is not None and sid >= 0 and rng.random() < 0.6:
                op["id_kind"] = rng.choice(["str", "half", "float"])
            if bad:
                what = rng.choice(["notype", "badtype", "frac", "noparent", "noconv", "foreign", "emptygroup", "badgroup",
                                   "proxshort", "distshort", "proxdiam", "distdiam"])
                if what == "proxshort":
                    op["prox"] = "short"
                elif what == "distshort":
                    op["dist"] = "short"
                elif what == "proxdiam":
                    op["prox"] = "badDiam"
                elif what == "distdiam":
                    op["dist"] = "badDiam"
                if what == "notype":
                    op["seg_type"] = rng.choice([None, ""])
                elif what == "badtype":
                    op["seg_type"] = rng.choice(["blah", "Soma", "dend"])
                elif what == "frac":
                    op["frac4"] = rng.choice([6, -1, 5])
                elif what == "noparent":
                    op["parent"] = None
                elif what == "noconv":
                    op["use_convention"] = False
                    op["seg_type"] = rng.choice([None, t, "blah"])
                elif what == "foreign":
                    op["parent"] = 900 + k
                elif what == "emptygroup":
                    op["group_id"] = ""
                else:
                    op["group_id"] = rng.choice(["1bad", "has space", "a-b"])
            ops.append(op)
            ids.append(sid if sid is not None else len(ids))
        elif r < 0.7:
            t = rng.choice(["soma", "dendrite", "axon"])
            g = pick_group(t) or rng.choice(USER_GROUPS[:3])
            grp_type.setdefault(g, t)
            if (grp_type[g] != t) and not reuse_types:
                t = grp_type[g]
            ro, op_ = flags()
            npts = rng.choice([2, 3, 3, 4, 6])
            op = {"op": "addUnbranched", "npoints": npts, "parent": rng.choice(ids) if ids else None,
                  "frac4": rng.choice([0, 2, 4, 4]), "group_id": g, "use_convention": True, "seg_type": t,
                  "reorder": ro, "optimise": op_}
            if bad:
                what = rng.choice(["npoints", "nogroup", "notype", "noconv"])
                if what == "npoints":
                    op["npoints"] = rng.choice([0, 1])
                elif what == "nogroup":
                    op["group_id"] = None
                elif what == "notype":
                    op["seg_type"] = None
                else:
                    op["use_convention"] = False
            ops.append(op)
            for _ in range(max(op["npoints"] - 1, 0)):
                ids.append(len(ids))
        elif r < 0.74:
            g = rng.choice(USER_GROUPS + (DEFAULTS if default_named or malformed else []))
            if bad:
                g = rng.choice([junk(), junk(), "9x"])
            ops.append({"op": "addSegmentGroup", "group_id": g})
        elif r < 0.77:
            g = rng.choice(USER_GROUPS)
            if bad and rng.random() < 0.3:
                g = junk()
            ops.append({"op": "addUnbranchedSegmentGroup", "group_id": g})
        elif r < 0.79:
            names = rng.choice([["all", "soma_group"], ["all", "dendrite_group"], ["axon_group"], ["all"], [],
                                ["dendrite_group", "axon_group", "all"]])
            if bad:
                names = rng.choice([["all", "basal"], ["nope"], ["soma_group", "x", "axon_group"]])
            ops.append({"op": "setupDefault", "use_convention": rng.random() < 0.85, "names": names})
        elif r < 0.81:
            ow = malformed and rng.random() < 0.3
            ops.append({"op": "setupNmlCell", "use_convention": rng.random() < 0.8, "overwrite": ow,
                        "names": rng.choice([["all", "soma_group"], ["all", "axon_group"], []])})
            if ow:
                ids.clear()
                grp_type.clear()
        elif r < 0.84:
            ops.append({"op": "reorder"})
        elif r < 0.87:
            ops.append({"op": "optimise"})
        elif r < 0.89:
            cid = rng.choice(["pas", "na", "kd", "pas", "leak_1"])
            ch = {"op": "addChannelDensity", "id": cid, "ion_channel": rng.choice([cid, "pas"]),
                  "cond_density": rng.choice(["0.1 mS_per_cm2", "1 S_per_m2", "3e-2S_per_cm2", "0.1 mS_per_cm2"]),
                  "erev": rng.choice(["-70 mV", "50mV", "-0.07 V"]), "group": rng.choice(["all", "all", "soma_group", rng.choice(USER_GROUPS)]),
                  "ion": rng.choice(["non_specific", "na", "k"]), "def_file": rng.choice(["", "", cid + ".channel.nml", "chans.nml"]),
                  "via": rng.choice(["add_channel_density", "add_channel_density_v"])}
            if bad or rng.random() < 0.03:
                what = rng.choice(["cond", "erev", "id", "ion"])
                if what == "cond":
                    ch["cond_density"] = rng.choice(["0.1 mS_per_cm", "kilo", "1 S"])
                elif what == "erev":
                    ch["erev"] = rng.choice(["-70", "50 mv"])
                elif what == "id":
                    ch["id"] = rng.choice(["1pas", "a b"])
                else:
                    ch["ion"] = "non specific"
            ops.append(ch)
        else:
            kind = rng.choice(KIND_ORDER)
            v = rng.choice(GOOD_VALUES[kind])
            if bad or rng.random() < 0.03:
                v = rng.choice(BAD_VALUES[kind])
            grp = rng.choice(["all", "all", "all", "soma_group", rng.choice(USER_GROUPS)])
            if bad and rng.random() < 0.3:
                grp = "no such"
            ops.append({"op": "addIntra" if kind == "Resistivity" else "addMembrane", "kind": kind, "value": v,
                        "group": grp, "via": rng.choice(["set", "add"])})
    if (not malformed and rng.random() < 0.7) or (malformed and rng.random() < 0.3):
        # give the cell its basic biophysical properties somewhere in the history
        for kind in KIND_ORDER[:3]:
            ops.insert(rng.randint(0, len(ops)), {"op": "addMembrane", "kind": kind, "value": rng.choice(GOOD_VALUES[kind]),
                                                  "group": "all", "via": rng.choice(["set", "add"])})
    return {"ops": ops, "caught": caught}


def stored_id(op):
    """the id as `Segment` stores it (`int(seg_id)`), the raw argument, and its `str()` where that differs"""
    sid = op["seg_id"]
    if sid is None:
        return None, None, None, False
    kind = op.get("id_kind", "int")
    if kind == "str":
        raw = str(sid)
    elif kind == "half":
        raw = sid + 0.5
    elif kind == "float":
        raw = float(sid)
    else:
        raw = sid
    text = str(raw) if str(raw) != str(sid) else None
    lex = not (raw == sid)              # Python equality of the raw argument with the stored int
    return sid, raw, text, lex


def wire_ops(ops):
    """the ops as the driver reads them"""
    out = []
    for op in ops:
        if op["op"] == "addSegment":
            o = dict(op)
            sid, raw, text, lex = stored_id(op)
            o["id_text"] = text
            o["lex"] = lex
            o["prox"] = "absent" if op["prox"] == "empty" else op["prox"]
            o.pop("id_kind", None)
            out.append(o)
        else:
            out.append(op)
    return out


# ---------------------------------------------------------------- real library
_XSD = {}


def xsd():
    if "s" not in _XSD:
        from lxml import etree
        _XSD["s"] = etree.XMLSchema(etree.parse(os.path.join(fw.REPO, "neuroml", "nml", "NeuroML_v2.3.1.xsd")))
    return _XSD["s"]


@contextlib.contextmanager
def quiet():
    logging.disable(logging.CRITICAL)
    lim = sys.getrecursionlimit()
    sys.setrecursionlimit(max(400, min(lim, 600)))
    try:
        with warnings.catch_warnings():
            warnings.simplefilter("ignore")
            with contextlib.redirect_stdout(io.StringIO()):
                yield
    finally:
        sys.setrecursionlimit(lim)
        logging.disable(logging.NOTSET)


def exc_name(e):
    n = type(e).__name__
    return n if n in ("ValueError", "Exception", "IndexError", "RecursionError", "UnboundLocalError") else "Other:" + n


def frac4_of(f):
    try:
        x = float(f) * 4
        return int(x) if x == int(x) else "inexact:%r" % (f,)
    except Exception:
        return "bad:%r" % (f,)


def dump_real(cell, doc=None):
    m = cell.morphology
    segs = []
    for s in m.segments:
        p = s.parent
        segs.append([s.id, p.segments if p is not None else None, frac4_of(p.fraction_along) if p is not None else None,
                     s.proximal is not None, s.name])
    groups = []
    for g in m.segment_groups:
        try:
            r = sorted(cell.get_all_segments_in_group(g))
        except BaseException as e:  # noqa
            r = "err:" + exc_name(e)
        groups.append([g.id, g.neuro_lex_id, r])
    bp = cell.biophysical_properties
    memb, intra = [], []
    for kind in KIND_ORDER[:3]:
        for x in getattr(bp.membrane_properties, KIND_LIST[kind]):
            memb.append([kind, x.value, x.segment_groups])
    for x in bp.intracellular_properties.resistivities:
        intra.append(["Resistivity", x.value, x.segment_groups])
    chans = [[x.id, x.ion_channel, x.cond_density, x.erev, x.segment_groups, x.ion] for x in bp.membrane_properties.channel_densities]
    return {"segs": segs, "groups": groups, "memb": memb, "intra": intra, "chans": chans,
            "docIncs": [i.href for i in doc.includes] if doc is not None else []}


def canon_model_dump(d):
    d = dict(d)
    d["memb"] = sorted(d["memb"], key=lambda p: KIND_ORDER.index(p[0]))     # stable: per-kind insertion order kept
    return d


def find_seg(cell, sid):
    import neuroml
    for s in cell.morphology.segments:
        if s.id == sid:
            return s, False
    return neuroml.Segment(id=sid), True


def apply_op(cell, op, k, track):
    """run one builder call on the real cell; `track` collects what the oracle needs"""
    o = op["op"]
    segs = cell.morphology.segments
    before = list(segs)
    if o == "addSegment":
        parent = None
        if op["parent"] is not None:
            parent, foreign = find_seg(cell, op["parent"])
            track["foreign"] |= foreign
        sid, raw, _text, lex = stored_id(op)
        in_use = sid is not None and any(s.id == sid for s in segs)
        prox = {"ok": [float(k), 0.0, 0.0, 2.0], "absent": None, "empty": [], "short": [float(k), 0.0, 0.0],
                "badDiam": [float(k), 0.0, 0.0, 0.0]}[op["prox"]]
        dist = {"ok": [float(k), 1.0, 0.0, 1.0], "short": [float(k), 1.0], "badDiam": [float(k), 1.0, 0.0, -1.0]}[op.get("dist", "ok")]
        track["pending_in_use"] = {"op_index": k, "seg_id": sid, "lex": lex} if in_use else None
        cell.add_segment(prox, dist, seg_id=raw, name=op["name"], parent=parent,
                         fraction_along=op["frac4"] / 4.0, group_id=op["group_id"],
                         use_convention=op["use_convention"], seg_type=op["seg_type"],
                         reorder_segment_groups=op["reorder"], optimise_segment_groups=op["optimise"])
        if in_use:
            track["in_use_accepted"].append({"op_index": k, "seg_id": sid, "lex": lex})
    elif o == "addUnbranched":
        parent = None
        if op["parent"] is not None:
            parent, foreign = find_seg(cell, op["parent"])
            track["foreign"] |= foreign
        pts = [[float(k), float(i), 0.0, 1.0] for i in range(op["npoints"])]
        cell.add_unbranched_segments(pts, parent=parent, fraction_along=op["frac4"] / 4.0, group_id=op["group_id"],
                                     use_convention=op["use_convention"], seg_type=op["seg_type"],
                                     reorder_segment_groups=op["reorder"], optimise_segment_groups=op["optimise"])
    elif o == "addSegmentGroup":
        cell.add_segment_group(op["group_id"])
        track["junk_group"] |= not op["group_id"]
    elif o == "addUnbranchedSegmentGroup":
        cell.add_unbranched_segment_group(op["group_id"])
        track["junk_group"] |= not op["group_id"]
    elif o == "setupDefault":
        cell.setup_default_segment_groups(use_convention=op["use_convention"], default_groups=list(op["names"]))
    elif o == "setupNmlCell":
        cell.setup_nml_cell(use_convention=op["use_convention"], overwrite=op["overwrite"], default_groups=list(op["names"]))
        if op["overwrite"]:
            track["typed"] = []
            track["nonconv"] = False
            track["foreign"] = False
            track["group_types"] = {}
            track["default_named"] = False
            track["dup_cause"] = []
            track["junk_group"] = False
            track["props"] = []
            track["chans"] = []
            before = []
    elif o == "reorder":
        cell.reorder_segment_groups()
    elif o == "optimise":
        cell.optimise_segment_groups()
    elif o in ("addMembrane", "addIntra"):
        kind, v, g = op["kind"], op["value"], op["group"]
        if op.get("via") == "set":
            {"SpikeThresh": cell.set_spike_thresh, "InitMembPotential": cell.set_init_memb_potential,
             "SpecificCapacitance": cell.set_specific_capacitance, "Resistivity": cell.set_resistivity}[kind](v, group_id=g)
        elif o == "addMembrane":
            cell.add_membrane_property(kind, value=v, segment_groups=g)
        else:
            cell.add_intracellular_property(kind, value=v, segment_groups=g)
        track["props"].append((kind, v, g))
    elif o == "addChannelDensity":
        doc = track["doc"]
        if op.get("via") == "add_channel_density_v":
            cell.add_channel_density_v("ChannelDensity", doc, op["def_file"], id=op["id"], ion_channel=op["ion_channel"],
                                       cond_density=op["cond_density"], erev=op["erev"], segment_groups=op["group"], ion=op["ion"])
        else:
            cell.add_channel_density(doc, op["id"], op["ion_channel"], op["cond_density"], erev=op["erev"], group_id=op["group"],
                                     ion=op["ion"], ion_chan_def_file=op["def_file"])
        track["chans"].append(op)
    else:
        raise RuntimeError("unknown op " + o)
    # bookkeeping for the oracle (only reached when the call returned normally)
    if o in ("addSegment", "addUnbranched"):
        new = [s for s in cell.morphology.segments if not any(s is b for b in before)]
        t = op["seg_type"] if op["use_convention"] else None
        if not op["use_convention"]:
            track["nonconv"] = True
        for s in new:
            track["typed"].append((s, t))
            if sum(1 for x in cell.morphology.segments if x.id == s.id) > 1:
                sid = op.get("seg_id")
                lexk = op.get("id_kind", "int") != "int"
                track["dup_cause"].append("lexical-form" if lexk else "explicit-zero" if sid == 0 else
                                          ("explicit-reuse" if sid is not None else "auto-collision"))
        g = op["group_id"]
        if g:
            if g in DEFAULTS:
                track["default_named"] = True
            if t:
                track["group_types"].setdefault(g, set()).add(t)


def run_real(case):
    """returns (steps, final, track): steps = list of {"ok": dump} / {"err": name}"""
    from neuroml.utils import component_factory
    import neuroml
    import neuroml.writers as W
    track = {"typed": [], "nonconv": False, "foreign": False, "in_use_accepted": [], "group_types": {},
             "default_named": False, "dup_cause": [], "junk_group": False, "props": [], "chans": [], "raised": 0,
             "doc": neuroml.NeuroMLDocument(id="c15doc")}
    doc = track["doc"]
    caught = bool(case.get("caught"))
    steps, final = [], None
    with quiet():
        cell = component_factory("Cell", id="c15")
        alive = True
        for k, op in enumerate(case["ops"]):
            try:
                apply_op(cell, op, k, track)
            except BaseException as e:  # noqa
                track["raised"] += 1
                if caught:
                    # the caller catches the exception and goes on: what did the call leave behind?
                    steps.append({"err": exc_name(e), "left": dump_real(cell, doc)})
                    # segments a raising call appended are typed by what the call said (oracle: ids/parents only)
                    continue
                steps.append({"err": exc_name(e)})
                alive = False
                break
            steps.append({"ok": dump_real(cell, doc)})
        if alive:
            final = {}
            try:
                cell.reorder_segment_groups()
                cell.optimise_segment_groups()
                final["finish"] = {"ok": dump_real(cell, doc)}
            except BaseException as e:  # noqa
                final["finish"] = {"err": exc_name(e), "left": dump_real(cell, doc)}
            try:
                cell.validate(recursive=True)
                final["validate"] = True
            except ValueError as e:
                final["validate"] = False
                final["validate_msg"] = str(e)[:300]
            except BaseException as e:  # noqa
                final["validate"] = "exc:" + exc_name(e)
            d = tempfile.mkdtemp(prefix="verif_c15_")
            try:
                from lxml import etree
                wdoc = neuroml.NeuroMLDocument(id="c15doc")
                wdoc.cells.append(cell)
                p = os.path.join(d, "c15.cell.nml")
                W.NeuroMLWriter.write(wdoc, p)
                ok = xsd().validate(etree.parse(p))
                final["xsd"] = bool(ok)
                if not ok:
                    final["xsd_msg"] = str(xsd().error_log)[:300]
                    final["xsd_msgs"] = [e.message for e in xsd().error_log]
            except BaseException as e:  # noqa
                final["xsd"] = "exc:" + exc_name(e) + ":" + str(e)[:100]
            finally:
                shutil.rmtree(d, ignore_errors=True)
            final["cell"] = cell
    return steps, final, track


def probe_opt_fixed():
    """which optimise_segment_group does the tree have? (C14 repairs it concurrently; the model has both)"""
    import neuroml
    from neuroml.utils import component_factory
    with quiet():
        c = component_factory("Cell", id="probe")
        m = c.morphology
        m.segment_groups.append(neuroml.SegmentGroup(id="a", members=[neuroml.Member(segments=1)]))
        m.segment_groups.append(neuroml.SegmentGroup(id="b", members=[neuroml.Member(segments=2)]))
        m.segment_groups.append(neuroml.SegmentGroup(id="g", members=[neuroml.Member(segments=1), neuroml.Member(segments=3)],
                                                     includes=[neuroml.Include(segment_groups="a"), neuroml.Include(segment_groups="b")]))
        c.optimise_segment_group("g")
        return [x.segments for x in c.get_segment_group("g").members] == [3]


def probe_id_fixed():
    """does add_segment compare the id as it is stored (proposed repair fixes/C15-segment-id-as-stored.patch)?"""
    from neuroml.utils import component_factory
    with quiet():
        c = component_factory("Cell", id="probe")
        s0 = c.add_segment([0, 0, 0, 1], [1, 0, 0, 1], seg_id=5, seg_type="soma")
        try:
            c.add_segment(None, [2, 0, 0, 1], seg_id="5", parent=s0, seg_type="soma")
        except ValueError:
            return True
        return False


def probe_names_fixed():
    """does add_segment refuse a group_id that names a default group of another type (fixes/C15-default-group-name.patch)?"""
    from neuroml.utils import component_factory
    with quiet():
        c = component_factory("Cell", id="probe")
        try:
            c.add_segment([0, 0, 0, 1], [1, 0, 0, 1], group_id="dendrite_group", seg_type="soma", optimise_segment_groups=False)
        except ValueError:
            return len(c.morphology.segments) == 0
        return False


# ---------------------------------------------------------------- oracle: the property's clauses on the real cell
def suffix(track):
    if track["default_named"]:
        return "default-named-user-group"
    if any(len(v) > 1 for v in track["group_types"].values()):
        return "group-reused-across-types"
    return "other"


SUFFIXED = ("C15:finish-raises:", "C15:all-mismatch:", "C15:default-group-mismatch:", "C15:include-before-definition:")


def group_types_of(case):
    """group id -> set of segment types it is used with in conventional add calls (read off the calls)"""
    gt = {}
    for op in case["ops"]:
        if op["op"] in ("addSegment", "addUnbranched") and op.get("group_id") and op.get("use_convention") and op.get("seg_type"):
            gt.setdefault(op["group_id"], set()).add(op["seg_type"])
    return gt


def without_pattern(case, reuse=False, named=False):
    """the same history with a known pattern taken out: `reuse` — a user group used with several segment types gets one
    name per type; `named` — a user group named like a default group gets a fresh name"""
    # a default-named group used with several types belongs to the `named` pattern only (one of the uses is foreign)
    multi = set(g for g, ts in group_types_of(case).items() if len(ts) > 1 and g not in DEFAULTS)
    ops = []
    for op in case["ops"]:
        op = dict(op)
        if op["op"] in ("addSegment", "addUnbranched") and op.get("group_id"):
            g = op["group_id"]
            if named and g in DEFAULTS:
                # one fresh group per (name, type): taking the pattern out must not create a group reused across types
                g = "ug_%s_%s" % (g, op.get("seg_type") if op.get("use_convention") else "nc")
            if reuse and op["group_id"] in multi and op.get("use_convention") and op.get("seg_type"):
                g = "%s_%s" % (g, op["seg_type"])
            op["group_id"] = g
        ops.append(op)
    return {"ops": ops, "caught": case.get("caught")}


def model_clause_fails(cases, variant):
    """`clauseFails` of the MODEL (driver only, the real library is not run) on each history"""
    lines = [json.dumps({"optFixed": variant["optFixed"], "idFixed": variant["idFixed"], "namesFixed": variant["namesFixed"],
                         "old": False, "caught": bool(c.get("caught")), "ops": wire_ops(c["ops"])}) for c in cases]
    rc, out = fw.run_driver("C15", lines)
    if rc != 0 or len(out) != len(lines):
        return None
    res = []
    for l in out:
        d = json.loads(l)
        # a counterfactual history that ends with a raise is inconclusive: count every clause as failing (no attribution)
        res.append(set(d.get("clauseFails") or []) if "finish" in d else set(SUFFIXED))
    return res


def oracle(ctx, case, steps, final, track, model=None, agrees=True, variant=None):
    """the property's clauses on the real cell, classified.  A failure of a group clause is filed under the key of a
    KNOWN pattern only if (1) the real cell agreed with the model — the code as it is, bug for bug — at every step of
    this history (`agrees`), (2) the model predicts the failure of that very clause on this very history
    (`clauseFails` of the driver), and (3) the model says the pattern is the REASON: the same clause holds in the
    model when exactly that pattern is taken out of the history (group used with one type only / user group not named
    like a default group) and still fails when only the OTHER pattern is taken out.  A failure that needs both
    patterns gets a combined key; everything else is `other`.  So a regression, or a residue of a repaired finding, is
    never suppressed under the key of a different open finding that merely also occurs in the history."""
    fails = clauses(ctx, case, steps, final, track)
    if not any(k.startswith(SUFFIXED) for k, _ in fails):
        return fails
    predicted = set((model or {}).get("clauseFails") or [])
    cf = None
    if agrees and variant is not None and (predicted & set(k.rsplit(":", 1)[0] + ":" for k, _ in fails)):
        cf = model_clause_fails([without_pattern(case, reuse=True), without_pattern(case, named=True),
                                 without_pattern(case, reuse=True, named=True)], variant)
        ctx.count("oracle:model-counterfactuals")
    out = []
    for k, what in fails:
        if not k.startswith(SUFFIXED):
            out.append((k, what))
            continue
        prefix = k.rsplit(":", 1)[0] + ":"
        if not agrees or prefix not in predicted or cf is None:
            if suffix(track) != "other":
                ctx.count("oracle:known-pattern-present-but-not-the-cause")
            out.append((prefix + "other", what + ("" if suffix(track) == "other" else
                        "  [the history contains a known pattern, but the model of the code as it is does not predict this failure]")))
            continue
        no_reuse, no_named, no_both = cf
        reuse_explains = prefix not in no_reuse
        named_explains = prefix not in no_named
        if reuse_explains and not named_explains:
            suf = "group-reused-across-types"
        elif named_explains and not reuse_explains:
            suf = "default-named-user-group"
        elif (reuse_explains and named_explains) or prefix not in no_both:
            suf = "group-reused-across-types+default-named-user-group"
        else:
            suf = "other"
        out.append((prefix + suf, what))
    return out


def clauses(ctx, case, steps, final, track):
    fails = []
    # explicit id already in use must be refused with ValueError
    for x in track["in_use_accepted"]:
        fails.append(("C15:explicit-id-in-use-not-refused" + (":lexical-form" if x.get("lex") else ""),
                      "add_segment(seg_id=%s) returned normally although a segment with id %d exists" % ("<str/float form of %d>" % x["seg_id"] if x.get("lex") else x["seg_id"], x["seg_id"])))
        break
    if final is None:
        return fails
    if case.get("caught") and track["raised"]:
        # outside the statement ("calls that each returned normally"): only the two clauses the model proves to
        # survive caught exceptions (c15_caught_ids_unique_parents_exist) are evaluated
        ids = [s.id for s in final["cell"].morphology.segments]
        if len(set(ids)) != len(ids) and not any(c == "lexical-form" for c in track["dup_cause"]):
            fails.append(("C15:caught:duplicate-id", "after caught exceptions: segment ids are not unique: %s" % ids[:12]))
        if not track["foreign"]:
            for s in final["cell"].morphology.segments:
                if s.parent is not None and s.parent.segments not in ids:
                    fails.append(("C15:caught:dangling-parent", "after caught exceptions: segment %s has parent %s which does not exist" % (s.id, s.parent.segments)))
                    break
        ctx.count("oracle:caught-history-ids-parents-only")
        return fails
    cell = final["cell"]
    segs = cell.morphology.segments
    ids = [s.id for s in segs]
    if len(set(ids)) != len(ids):
        for cause in (sorted(set(track["dup_cause"])) or ["unknown"]):
            fails.append(("C15:duplicate-id:" + cause, "segment ids are not unique: %s" % ids[:12]))
    if not track["foreign"]:
        for s in segs:
            if s.parent is not None and s.parent.segments not in ids:
                fails.append(("C15:dangling-parent", "segment %s has parent %s which does not exist" % (s.id, s.parent.segments)))
                break
    if "err" in final["finish"] and track["junk_group"] and final["finish"]["err"] == "ValueError":
        # add_segment_group(None) / ("") is outside the property's quantifier: it leaves a group without an id
        ctx.count("oracle-skipped:group-without-id")
        return fails
    if "err" in final["finish"]:
        fails.append(("C15:finish-raises:" + suffix(track), "reorder_segment_groups()+optimise_segment_groups() raised %s" % final["finish"]["err"]))
        return fails
    groups = cell.morphology.segment_groups
    gids = [g.id for g in groups]
    if not track["nonconv"]:
        def res(gid):
            try:
                return set(cell.get_all_segments_in_group(gid, assume_all_means_all=False))
            except BaseException as e:  # noqa
                return "err:" + exc_name(e)
        if segs or "all" in gids:
            r = res("all")
            if r != set(ids):
                fails.append(("C15:all-mismatch:" + suffix(track), "group 'all' resolves to %s, segments are %s" % (sorted(r) if isinstance(r, set) else r, sorted(ids))))
        for t, gname in TYPE_GROUP.items():
            want = set(s.id for (s, tt) in track["typed"] if tt == t)
            if gname in gids:
                r = res(gname)
                if r != want:
                    fails.append(("C15:default-group-mismatch:" + suffix(track),
                                  "%s resolves to %s but the segments added as %s are %s" % (gname, sorted(r) if isinstance(r, set) else r, t, sorted(want))))
            elif want:
                fails.append(("C15:default-group-missing", "no %s although segments %s were added as %s" % (gname, sorted(want), t)))
    for j, g in enumerate(groups):
        for inc in g.includes:
            if inc.segment_groups not in gids[:j]:
                fails.append(("C15:include-before-definition:" + suffix(track),
                              "group %s includes %s which is not defined before it (order %s)" % (g.id, inc.segment_groups, gids)))
                break
    # validity of a cell that was given its basic biophysical properties
    # "given its basic biophysical properties" is read off the calls that returned normally, not off the cell
    given = all(any(k == kind for (k, _, _) in track["props"]) for kind in KIND_ORDER[:3])
    given = given and all(quantity_ok(k, v) and NMLID.match(g or "") for (k, v, g) in track["props"])
    given = given and all(chan_ok(c) for c in track["chans"])
    ids_ok = all(isinstance(g, str) and NMLID.match(g) for g in gids)
    if given and ids_ok and len(segs) >= 1:
        # the negative-id finding explains an XSD failure only if EVERY schema error is about a negative NonNegativeInteger
        msgs = final.get("xsd_msgs") or []
        neg = bool(msgs) and any(i < 0 for i in ids) and all(("NonNegativeInteger" in m and ": '-" in m) for m in msgs)
        if final["validate"] is not True:
            fails.append(("C15:invalid-cell:validate", "validate(recursive=True) fails: %s" % final.get("validate_msg", final["validate"])))
        if final["xsd"] is not True:
            fails.append(("C15:invalid-cell:xsd" + (":negative-segment-id" if neg else ""),
                          "written cell is not schema-valid: %s" % final.get("xsd_msg", final["xsd"])))
    return fails


# ---------------------------------------------------------------- one batch
def nontrivial(case, steps, final):
    if final is None or "ok" not in final["finish"]:
        return False
    d = final["finish"]["ok"]
    if len(d["segs"]) < 3:
        return False
    user_included = any(op["op"] in ("addSegment", "addUnbranched") and op.get("group_id") and op.get("use_convention")
                        for op in case["ops"])
    special = any((op["op"] == "addSegment" and op.get("seg_id") is not None) or
                  (op["op"] in ("addSegment", "addUnbranched") and (not op["reorder"] or not op["optimise"]))
                  for op in case["ops"])
    return user_included and special


def canon_step(b):
    if b is None:
        return None
    b = dict(b)
    for k in ("ok", "left"):
        if k in b:
            b[k] = canon_model_dump(b[k])
    return b


def run_cases(ctx, cases, variant, old=False):
    opt_fixed = variant["optFixed"]
    lines = [json.dumps({"optFixed": opt_fixed, "idFixed": variant["idFixed"], "namesFixed": variant["namesFixed"], "old": old,
                         "caught": bool(c.get("caught")), "ops": wire_ops(c["ops"])}) for c in cases]
    rc, out = fw.run_driver("C15", lines)
    if rc != 0 or len(out) != len(lines):
        ctx.disagree("driver", "driver failed rc=%s lines=%d/%d" % (rc, len(out), len(lines)), "\n".join(out[-3:])[:500], None)
        mouts = [None] * len(lines)
    else:
        mouts = [json.loads(l) for l in out]
    for case, m in zip(cases, mouts):
        steps, final, track = run_real(case)
        ctx.seen(case["ops"], nontrivial=nontrivial(case, steps, final))
        ctx.count("ops:%d-%d" % ((len(case["ops"]) - 1) // 10 * 10 + 1, (len(case["ops"]) - 1) // 10 * 10 + 10))
        ctx.count("ended:" + ("finished" if final is not None else steps[-1]["err"]))
        if case.get("caught"):
            ctx.count("caught-history:%s" % ("no-raise" if not track["raised"] else "1-2 raises" if track["raised"] < 3 else "3+ raises"))
            for st_ in steps:
                if "err" in st_:
                    ctx.count("caught:" + st_["err"])
        for op in case["ops"][:len(steps)]:
            ctx.count("op:" + op["op"])
            if op["op"] == "addSegment":
                if op.get("id_kind", "int") != "int":
                    ctx.count("seg-id:lexical:" + op["id_kind"])
                elif op["seg_id"] is not None and op["seg_id"] < 0:
                    ctx.count("seg-id:negative")
                if op["prox"] not in ("ok", "absent") or op.get("dist", "ok") != "ok":
                    ctx.count("points:malformed")
            if op["op"] in ("addSegmentGroup", "addUnbranchedSegmentGroup", "addUnbranched") and not op["group_id"]:
                ctx.count("group-id:" + repr(op["group_id"]))
        if final is not None:
            ctx.count("final-segments:%s" % ("0" if not final["cell"].morphology.segments else
                                            "1-2" if len(final["cell"].morphology.segments) < 3 else
                                            "3-9" if len(final["cell"].morphology.segments) < 10 else "10+"))
            ctx.count("final-verdict:validate=%s,xsd=%s" % (final["validate"], final["xsd"]))
        # --- correspondence, step by step
        n_dis = len(ctx.corr_disagreements)
        if m is not None:
            msteps = m.get("steps", [])
            nsteps = max(len(steps), len(msteps))
            for k in range(nsteps):
                ctx.corr_evals += 1
                a = steps[k] if k < len(steps) else None
                b = canon_step(msteps[k] if k < len(msteps) else None)
                if a != b:
                    ctx.disagree("builder-step", {"ops": case["ops"][:k + 1], "step": k}, a, b)
                    break
            else:
                if final is not None:
                    ctx.corr_evals += 1
                    mf = canon_step(m.get("finish"))
                    if mf != final["finish"]:
                        ctx.disagree("builder-finish", {"ops": case["ops"], "caught": case.get("caught")}, final["finish"], mf)
                    else:
                        # the verdicts of the real validate(recursive=True) and of libxml2 vs the binding-level model of
                        # validate (C02/C03's validateAll over today's table) run on the model's cell (cellObj)
                        ctx.corr_evals += 1
                        verdict = [final["validate"], final["xsd"]]
                        if verdict != [m.get("validate"), m.get("xsd")]:
                            ctx.disagree("builder-verdict", {"ops": case["ops"], "caught": case.get("caught")},
                                         {"validate": final["validate"], "xsd": final["xsd"],
                                          "msg": final.get("validate_msg") or final.get("xsd_msg")},
                                         {"validate": m.get("validate"), "xsd": m.get("xsd")})
                        # the hand characterisation shapeOK (+ non-negative ids) against the schema's verdict
                        ctx.corr_evals += 1
                        if (m.get("shapeOK") and m.get("idsNonNeg")) != final["xsd"]:
                            ctx.disagree("builder-shape", {"ops": case["ops"], "caught": case.get("caught")},
                                         {"xsd": final["xsd"], "msg": final.get("xsd_msg")},
                                         {"shapeOK": m.get("shapeOK"), "idsNonNeg": m.get("idsNonNeg")})
                elif "finish" in m:
                    ctx.disagree("builder-finish", {"ops": case["ops"]}, None, m.get("finish"))
        # --- oracle on the real cell
        for key, what in oracle(ctx, case, steps, final, track, m, agrees=(m is not None and len(ctx.corr_disagreements) == n_dis),
                                variant=variant):
            ctx.fail(key, what, {"ops": case["ops"], "caught": bool(case.get("caught"))})
        ctx.sample({"ops": [(o["op"], {k: v for k, v in o.items() if k != "op"}) for o in case["ops"][:4]],
                    "n_ops": len(case["ops"]), "ended": "finished" if final is not None else steps[-1]["err"]})


def _seg(**kw):
    d = {"op": "addSegment", "prox": True, "dist": "ok", "seg_id": None, "id_kind": "int", "name": None, "parent": None, "frac4": 4,
         "group_id": None, "use_convention": True, "seg_type": "soma", "reorder": True, "optimise": True}
    d.update(kw)
    if isinstance(d["prox"], bool):
        d["prox"] = "ok" if d["prox"] else "absent"
    return d


BASIC = [{"op": "addMembrane", "kind": "SpikeThresh", "value": "40mV", "group": "all", "via": "set"},
         {"op": "addMembrane", "kind": "InitMembPotential", "value": "-70mV", "group": "all", "via": "set"},
         {"op": "addMembrane", "kind": "SpecificCapacitance", "value": "1 uF_per_cm2", "group": "all", "via": "set"}]

CORPUS = [
    # (i) explicit id already in use: ids [0,5,5] before the fix; now refused with ValueError
    {"ops": BASIC + [_seg(), _seg(seg_id=5, parent=0, seg_type="dendrite", group_id="d0", prox=False),
                     _seg(seg_id=5, parent=5, seg_type="dendrite", group_id="d0", prox=False)]},
    # (i) seg_id=0 was treated as "not given"
    {"ops": [_seg(), _seg(seg_id=0, parent=0, seg_type="dendrite")]},
    # (ii) explicit 1 then automatic: ids [1,1] before the fix
    {"ops": BASIC + [_seg(seg_id=1), _seg(parent=1, seg_type="dendrite", group_id="d0", prox=False)]},
    # (ii) inside add_unbranched_segments
    {"ops": [_seg(seg_id=2), {"op": "addUnbranched", "npoints": 4, "parent": 2, "frac4": 4, "group_id": "dend_0",
                               "use_convention": True, "seg_type": "dendrite", "reorder": True, "optimise": True}]},
    # KNOWN FINDING: one user group used with two segment types
    {"ops": BASIC + [_seg(group_id="g0"), _seg(parent=0, seg_type="dendrite", group_id="g0", prox=False)]},
    # KNOWN FINDING: user group named like a default group: soma_group precedes the dendrite_group it includes
    {"ops": BASIC + [_seg(group_id="dendrite_group")]},
    # KNOWN FINDING: group_id="all" makes 'all' include itself; with optimise deferred the call returns, the final step raises
    {"ops": BASIC + [_seg(group_id="all", optimise=False)]},
    # deferred reorder/optimise with explicit ids, several groups and types; valid cell
    {"ops": BASIC + [_seg(seg_id=3, group_id="soma_0", reorder=False, optimise=False),
                     _seg(seg_id=7, parent=3, frac4=2, seg_type="dendrite", group_id="dend_0", prox=False, reorder=False, optimise=False),
                     _seg(seg_id=0, parent=7, frac4=0, seg_type="dendrite", group_id="dend_0", reorder=False, optimise=False),
                     _seg(seg_id=8, parent=3, frac4=1, seg_type="axon", reorder=False, optimise=False),
                     {"op": "addUnbranched", "npoints": 3, "parent": 8, "frac4": 4, "group_id": "axon_0",
                      "use_convention": True, "seg_type": "axon", "reorder": False, "optimise": False}]},
    # group id equal to the default group of the same type (members appended twice, name counts them)
    {"ops": [_seg(group_id="soma_group", optimise=False), _seg(parent=0, group_id="soma_group", frac4=1)]},
    # malformed: seg_type missing after the group was created; add_unbranched_segments without a group id
    {"ops": [_seg(), _seg(parent=0, group_id="g1", seg_type=None)]},
    {"ops": [{"op": "addUnbranched", "npoints": 3, "parent": None, "frac4": 4, "group_id": None,
              "use_convention": True, "seg_type": "soma", "reorder": True, "optimise": True}]},
    # add_segment_group without an id: morphology.add() does not append a second equal (empty) group
    {"ops": [_seg(), {"op": "addSegmentGroup", "group_id": ""}, {"op": "addSegmentGroup", "group_id": ""},
             {"op": "addUnbranchedSegmentGroup", "group_id": ""}, {"op": "addUnbranchedSegmentGroup", "group_id": ""},
             _seg(parent=0, group_id="g0", optimise=False), {"op": "optimise"}]},
    # KNOWN FINDING (second pass): an id in use passed in another lexical form ("5": the docstring's declared type is str) is
    # not refused: ids [5, 5]
    {"ops": BASIC + [_seg(seg_id=5), _seg(seg_id=5, id_kind="str", parent=5, seg_type="dendrite", prox=False)]},
    {"ops": [_seg(seg_id=2), _seg(seg_id=2, id_kind="half", parent=2, seg_type="dendrite", group_id="d0")]},
    # exact float form: refused as it should (2 == 2.0); the name shows the raw argument ("Seg4.0")
    {"ops": [_seg(seg_id=2), _seg(seg_id=4, id_kind="float", parent=2), _seg(seg_id=2, id_kind="float", parent=2)]},
    # KNOWN FINDING (second pass): a negative id is accepted; validate passes, the written cell is not schema-valid
    {"ops": BASIC + [_seg(seg_id=-1)]},
    # a raising call leaves something behind: seg_type missing after the user group was created and filled; the caller
    # catches and goes on (caught=True): the next automatic id goes to a soma segment, g1 reaches dendrite_group
    {"ops": [_seg(), _seg(parent=0, group_id="g1", seg_type=None), _seg(parent=0), _seg(parent=0, group_id="g1", seg_type="dendrite")],
     "caught": True},
    # add_unbranched_segments without a group id raises at its last line, after adding the segments (caught)
    {"ops": [_seg(), {"op": "addUnbranched", "npoints": 3, "parent": 0, "frac4": 4, "group_id": None, "use_convention": True,
                      "seg_type": "dendrite", "reorder": True, "optimise": True}, _seg(parent=2, seg_type="axon")], "caught": True},
    # group_id="all": RecursionError inside add_segment after the segment was appended and some groups optimised (caught)
    {"ops": [_seg(group_id="all"), _seg(parent=0, seg_type="dendrite", group_id="d0"), {"op": "optimise"}], "caught": True},
    # malformed points: 3-element prox (UnboundLocalError after the id check), diameter 0 (ValueError first)
    {"ops": [_seg(), _seg(parent=0, prox="short", seg_id=0), _seg(parent=0, prox="short"), _seg(parent=0, dist="badDiam", seg_id=0),
             _seg(parent=0, prox="empty")], "caught": True},
    # group ids None and "" are different list entries; add_unbranched_segment_group likewise
    {"ops": [_seg(), {"op": "addSegmentGroup", "group_id": None}, {"op": "addSegmentGroup", "group_id": ""},
             {"op": "addSegmentGroup", "group_id": None}, {"op": "addUnbranchedSegmentGroup", "group_id": None},
             {"op": "addUnbranchedSegmentGroup", "group_id": ""}, {"op": "optimise"}], "caught": True},
    # channel densities: equal entry not re-added, definition file included once, both entry points; valid cell
    {"ops": BASIC + [_seg(),
                     {"op": "addChannelDensity", "id": "pas", "ion_channel": "pas", "cond_density": "0.1 mS_per_cm2", "erev": "-70 mV",
                      "group": "all", "ion": "non_specific", "def_file": "pas.channel.nml", "via": "add_channel_density"},
                     {"op": "addChannelDensity", "id": "pas", "ion_channel": "pas", "cond_density": "0.1 mS_per_cm2", "erev": "-70 mV",
                      "group": "all", "ion": "non_specific", "def_file": "pas.channel.nml", "via": "add_channel_density_v"},
                     {"op": "addChannelDensity", "id": "na", "ion_channel": "na", "cond_density": "1 S_per_m2", "erev": "50mV",
                      "group": "soma_group", "ion": "na", "def_file": "", "via": "add_channel_density_v"}]},
    # a bad conductance density is accepted at build time (validate=False), refused by validate and the schema
    {"ops": BASIC + [_seg(), {"op": "addChannelDensity", "id": "pas", "ion_channel": "pas", "cond_density": "kilo", "erev": "-70 mV",
                              "group": "all", "ion": "non_specific", "def_file": "", "via": "add_channel_density"}]},
    # two DIFFERENT groups whose ids have the same natural-sort key (zero padding), both dendrites: both stay included
    {"ops": BASIC + [_seg(), _seg(parent=0, seg_type="dendrite", group_id="dend_1"), _seg(parent=0, seg_type="dendrite", group_id="dend_01"),
                     _seg(parent=1, seg_type="dendrite", group_id="dend_1", prox=False)]},
    {"ops": [_seg(group_id="sec2"), _seg(parent=0, group_id="sec10"), _seg(parent=0, group_id="sec02", optimise=False),
             _seg(parent=0, group_id="Sec2", reorder=False), {"op": "optimise"}]},
    # follow-up: the open group-reuse finding in a history that ALSO uses the default group of a segment's own type as
    # group_id (allowed, and proved harmless: c15_names_fixed_full): the failure must be keyed group-reused-across-types
    {"ops": BASIC + [_seg(group_id="g2"), _seg(parent=0, group_id="axon_group", seg_type="axon", optimise=False),
                     _seg(parent=0, group_id="g2", seg_type="axon", reorder=False)]},
    # the default group of the segment's own type as group_id, twice, with deferred optimise: a good cell
    {"ops": BASIC + [_seg(group_id="soma_group", optimise=False), _seg(parent=0, group_id="soma_group", frac4=1),
                     _seg(parent=1, group_id="dendrite_group", seg_type="dendrite", reorder=False)]},
    # an unbranched section whose group IS the default group of its type (members, not includes): every segment in 'all'
    {"ops": BASIC + [_seg(), {"op": "addUnbranched", "npoints": 4, "parent": 0, "frac4": 4, "group_id": "dendrite_group",
                              "use_convention": True, "seg_type": "dendrite", "reorder": True, "optimise": True},
                     {"op": "addUnbranched", "npoints": 3, "parent": 0, "frac4": 2, "group_id": "axon_group",
                      "use_convention": True, "seg_type": "axon", "reorder": False, "optimise": False}]},
    # bad quantity accepted at build time (validate=False), refused by validate and the schema
    {"ops": [BASIC[0], BASIC[1], {"op": "addMembrane", "kind": "SpecificCapacitance", "value": "kilo", "group": "all", "via": "set"}, _seg()]},
]


def regenerate(ctx):
    """translator step: Gen/Builder.lean from the CURRENT helper_methods.py and nml.py of fw.REPO"""
    sys.path.insert(0, os.path.join(fw.VERIF, "translators"))
    import importlib
    import py2lean_builder
    importlib.reload(py2lean_builder)
    return py2lean_builder.regenerate(fw.REPO, os.path.join(fw.VERIF, "lean", "NmlVerif", "Gen", "Builder.lean"))


def variant_of_tree():
    return {"optFixed": probe_opt_fixed(), "idFixed": probe_id_fixed(), "namesFixed": probe_names_fixed()}


def norm_case(c):
    """cases stored by earlier versions of the check (prox as bool, no id_kind)"""
    ops = []
    for op in c["ops"]:
        op = dict(op)
        if op["op"] == "addSegment":
            if isinstance(op.get("prox"), bool):
                op["prox"] = "ok" if op["prox"] else "absent"
            op.setdefault("dist", "ok")
            op.setdefault("id_kind", "int")
        ops.append(op)
    return {"ops": ops, "caught": bool(c.get("caught"))}


def run(ctx):
    variant = variant_of_tree()
    ctx.extra["optimise_segment_group_variant"] = "repaired (C14)" if variant["optFixed"] else "shipped"
    ctx.extra["add_segment_id_check"] = "on the stored id (proposed repair)" if variant["idFixed"] else "on the raw argument (shipped)"
    ctx.extra["add_segment_default_group_names"] = "refused (proposed repair)" if variant["namesFixed"] else "accepted (shipped)"
    n = ctx.n(1200, 10000)
    cases = [norm_case(json.loads(json.dumps(c))) for c in CORPUS]
    for i in range(n):
        cases.append(gen_case(ctx.rng, malformed=(i % 5 == 4)))
    run_cases(ctx, cases, variant)
    if ctx.search_mult > 1:
        # an obligation is broken (translator gap / proof no longer matches): look for a failing input with a larger budget,
        # but BOUNDED — in batches, until a concrete failing input is there (an oracle failure that is not an open finding) or the extra time is used up (quick: ~100 s, thorough: ~8 min).  A rewrite that is
        # merely not understood must not cost minutes of search.
        import time
        known = set(fw.known_findings("C15")) if hasattr(fw, "known_findings") else set()
        budget = ctx.n(100, 480)
        t0 = time.time()
        done, total, batch = n, n * ctx.search_mult, ctx.n(300, 1000)

        def found():
            return any(f.get("key") not in known for f in ctx.failures)
        while done < total and not found() and time.time() - t0 < budget:
            more = [gen_case(ctx.rng, malformed=(i % 5 == 4)) for i in range(done, min(done + batch, total))]
            run_cases(ctx, more, variant)
            done += len(more)
        ctx.extra["failing_input_search"] = {"extra_histories": done - n, "seconds": round(time.time() - t0, 1), "found": found()}


def replay(ctx, payload):
    case = payload["case"]
    if "ops" not in case and "case" in case:
        case = case["case"]
    run_cases(ctx, [norm_case({"ops": case["ops"], "caught": case.get("caught", payload["case"].get("caught"))})], variant_of_tree())
    return {"fails": bool(ctx.failures or ctx.corr_disagreements), "failures": ctx.failures,
            "disagreements": ctx.corr_disagreements}
