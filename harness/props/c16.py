"""C16 — unbranched sectioning partitions the tree into maximal chains, altering nothing.

Tie: hand model (lean/NmlVerif/Model/Section.lean) + correspondence on generated cells (real
`Cell.create_unbranched_segment_group_branches` vs `Drivers/C16.lean` on the same cell), and an independent
harness-side oracle that evaluates the full property statement on the real code (before/after snapshots).
All numbers are dyadic rationals so that the float arithmetic of `get_actual_proximal` is exact; they travel as
[num, den].
"""
import copy
import itertools
import json
import re
import sys
from fractions import Fraction as Fr

import fw

LEAN_PROPS = ["NmlVerif.Props.C16"]
# helper theorems that carry the argument (audited for axioms as well)
EXTRA_THEOREMS = ["NmlVerif.Section.run_spec", "NmlVerif.Section.sectionPhase_spec", "NmlVerif.Section.sectD_spec",
                  "NmlVerif.Section.sectKids_spec", "NmlVerif.Section.hypB_sound", "NmlVerif.Section.buildTree_sound",
                  "NmlVerif.Section.lookup_adjacency", "NmlVerif.Section.genName_inj",
                  "NmlVerif.Section.actualProximal_sound", "NmlVerif.Section.Refines.implied_iff"]
LEVEL = "proof"
RULE = ("cells = random segment trees / forests (1-40 segments; exhaustive parent structures up to 6 (quick) or 7 "
        "(thorough) segments; chains longer than the recursion limit; caterpillars) with arbitrary non-contiguous "
        "ids, shuffled document order, fraction_along in {0,1/4,1/2,1}, dyadic coordinates, explicit or implied "
        "proximals, 0-5 pre-existing groups (default names, includes, duplicate members, section-marked, "
        "generated-looking names) x root (true root or inner segment) x use_convention x reorder x optimise x "
        "adjacency cache (none/fresh/stale/hand-made) x available Python frames; a case is non-trivial when the "
        "tree reachable from the root has >= 1 branch point (>= 3 new groups); distinct = distinct canonical case")
TRUST = [
    "hand-written model of Cell.create_unbranched_segment_group_branches/__sectionise/add_(unbranched_)segment_group/"
    "get_segment_group/get_segment_adjacency_list/get_segment/get_actual_proximal/reorder_segment_groups, tied by "
    "correspondence only",
    "optimise_segment_group on a group WITH includes is a parameter of the model (property C14); on a group without "
    "includes it is modelled (member de-duplication)",
    "CPython f-string formatting of ints, float arithmetic on dyadic values (exact), the generic add()/validate() "
    "of generateDS objects (modelled as: append unless an equal Member exists)",
    "the interpreter's recursion limit is a model parameter `lim`; the harness sets the limit relative to the "
    "call depth and stays >= 10 frames away from the threshold",
]
ASSUMPTIONS = [
    "theorems assume: distinct segment ids; the adjacency list unfolds from the root to a tree without repeated ids "
    "(evaluated per case by the driver: hypB); no stale adjacency_list cache; no pre-existing group carrying one of "
    "the generated names; enough Python frames (nest depth + proximal chain below the limit) -- the three excluded "
    "classes are known findings reproduced every run",
    "with optimise_segment_groups=True a pre-existing group that has includes or duplicate members is rewritten by "
    "optimise_segment_group (C14); for it C16 checks id, neuro_lex_id, include set and resolved segment set only",
]

SECTION = "sao864921383"
GEN_RE = re.compile(r"^seg_group_(0|[1-9][0-9]*)_seg_(0|[1-9][0-9]*)$")
FRAME_OFFSET = 9          # lim = F - FRAME_OFFSET (calibrated: nest depth D needs F >= D + 10 frames)
DEFAULT_GROUPS = ["soma_group", "axon_group", "dendrite_group", "all"]


# ---------------------------------------------------------------- small exact helpers
def fr(q):
    return Fr(q[0], q[1])


def q(x):
    x = Fr(x)
    return [x.numerator, x.denominator]


def exact_float(x):
    x = Fr(x)
    return Fr(float(x)) == x


def lerp(f, a, b):
    return [(1 - f) * a[i] + f * b[i] for i in range(4)]


# ---------------------------------------------------------------- independent tree reference (oracle side)
class Ref:
    """what the property talks about, computed from the case description only (never from library code)"""

    def __init__(self, segs):
        self.segs = segs
        self.by_id = {}
        for s in segs:
            self.by_id.setdefault(s["id"], s)
        self.kids = {}
        for s in segs:                                   # document order
            if s["parent"] is not None:
                self.kids.setdefault(s["parent"], []).append(s["id"])

    def reach(self, root):
        out, todo, seen = [], [root], set()
        while todo:
            x = todo.pop()
            if x in seen:
                return None                              # not a tree
            seen.add(x)
            out.append(x)
            todo.extend(reversed(self.kids.get(x, [])))
        return out

    def implied(self, i, depth=0):
        """proximal implied by parent + fraction_along (uniform interpolation), exact; None if undefined"""
        path = []
        cur = i
        while True:
            s = self.by_id.get(cur)
            if s is None or len(path) > len(self.segs) + 1:
                return None
            if s["prox"] is not None:
                val = [fr(c) for c in s["prox"]]
                break
            if s["parent"] is None:
                return None
            p = self.by_id.get(s["parent"])
            if p is None:
                return None
            f = fr(s["frac"])
            if f == 1:
                val = [fr(c) for c in p["dist"]]
                break
            path.append((f, [fr(c) for c in p["dist"]]))
            cur = s["parent"]
        for f, pd in reversed(path):
            val = lerp(f, val, pd)
        return val

    def ap_depth(self, i):
        """number of nested get_actual_proximal frames for segment i"""
        d, cur = 0, i
        while True:
            d += 1
            s = self.by_id.get(cur)
            if s is None or d > len(self.segs) + 2:
                return d
            if s["prox"] is not None or s["parent"] is None or fr(s["frac"]) == 1:
                return d
            cur = s["parent"]

    def nest_and_pressure(self, root):
        """(nest depth of __sectionise below the first frame, frames the nesting needs, frames the deepest
        get_actual_proximal chain needs) -- as the model counts them"""
        nest, pn, pa = 0, 1, 1
        r = self.by_id.get(root)
        if r is not None and r["prox"] is None and r["parent"] is not None:
            pa = max(pa, self.ap_depth(root))
        todo = [(root, 0)]
        while todo:
            x, d = todo.pop()
            ks = self.kids.get(x, [])
            while len(ks) == 1:
                x = ks[0]
                ks = self.kids.get(x, [])
            if len(ks) > 1:
                nest = max(nest, d + 1)
                pn = max(pn, d + 2)
                for c in ks:
                    pa = max(pa, d + 1 + self.ap_depth(c))
                    todo.append((c, d + 1))
        return nest, pn, pa


# ---------------------------------------------------------------- generator
IDS_POOL = [0, 1, 2, 3, 5, 7, 8, 10, 11, 19, 20, 21, 42, 99, 100, 101, 255, 1000, 4096, 99999, 123456, 2 ** 31]


def rand_pt(rng):
    return [q(Fr(rng.randint(-200, 200), 4)) for _ in range(3)] + [q(Fr(rng.randint(1, 40), 4))]


def parents_random(rng, n, pchain):
    par = [None]
    for k in range(1, n):
        par.append(k - 1 if rng.random() < pchain else rng.randrange(k))
    return par


def mk_segs(rng, par, ids=None, fracs=(Fr(0), Fr(1, 4), Fr(1, 2), Fr(1)), p_explicit=0.3, shuffle=True, p_frac1=0.55):
    n = len(par)
    if ids is None:
        if rng.random() < 0.3:
            ids = rng.sample(range(0, 3 * n + 5), n)
        else:
            pool = list(IDS_POOL) + [rng.randrange(10 ** 6) for _ in range(n)]
            ids = []
            for x in rng.sample(pool, len(pool)):
                if x not in ids:
                    ids.append(x)
                if len(ids) == n:
                    break
            while len(ids) < n:
                x = rng.randrange(10 ** 7)
                if x not in ids:
                    ids.append(x)
    segs = []
    for k in range(n):
        s = {"id": ids[k], "parent": None if par[k] is None else ids[par[k]], "frac": [1, 1], "prox": None,
             "dist": rand_pt(rng)}
        if par[k] is None:
            s["prox"] = rand_pt(rng)
        else:
            s["frac"] = q(Fr(1) if rng.random() < p_frac1 else rng.choice(fracs))
            if rng.random() < p_explicit:
                s["prox"] = "implied" if rng.random() < 0.5 else rand_pt(rng)
        segs.append(s)
    ref = Ref(segs)
    for s in segs:                                        # explicit proximal placed exactly where it is implied
        if s["prox"] == "implied":
            s["prox"] = None
            v = ref.implied(s["id"])
            s["prox"] = [q(c) for c in v] if v is not None and all(exact_float(c) for c in v) else rand_pt(rng)
            ref = Ref(segs)
    for s in segs:                                        # keep every implied proximal exactly representable
        v = Ref(segs).implied(s["id"]) if s["prox"] is None else None
        if v is not None and any(c.denominator > 2 ** 24 for c in v):
            s["frac"] = [1, 1]
    if shuffle and rng.random() < 0.5:
        rng.shuffle(segs)
    return segs


def mk_groups(rng, segs, root, collide=False):
    ids = [s["id"] for s in segs]
    names = rng.sample(["soma_group", "axon_group", "dendrite_group", "all", "g1", "g9", "g10", "dend_a", "apical",
                        "seg_group_x", "seg_group_1_seg", "Seg_group_0_seg_0"], rng.choice([0, 0, 1, 2, 3, 4, 5]))
    groups = []
    for nm in names:
        g = {"id": nm, "nlx": rng.choice([None, None, "GO:0043025", SECTION]), "members": [], "includes": [],
             "notes": rng.choice([None, "n:" + nm])}
        for _ in range(rng.choice([0, 1, 2, 3, 5])):
            g["members"].append(rng.choice(ids))
        if g["members"] and rng.random() < 0.15:
            g["members"].append(g["members"][0])          # duplicate member
        if groups and rng.random() < 0.4:
            for h in rng.sample(groups, rng.randint(1, min(2, len(groups)))):
                g["includes"].append(h["id"])
        groups.append(g)
    if collide:
        for _ in range(rng.choice([1, 1, 2])):
            nm = "seg_group_%d_seg_%d" % (rng.randint(0, len(groups) + 3), rng.choice([root] + ids))
            if all(g["id"] != nm for g in groups):
                groups.insert(rng.randint(0, len(groups)),
                              {"id": nm, "nlx": rng.choice([None, SECTION]), "members": rng.sample(ids, min(len(ids), rng.randint(0, 2))),
                               "includes": [], "notes": None})
    return groups


def finish_case(rng, segs, root=None, groups=None, cache=None, fail_frames=False, flags=None):
    ref = Ref(segs)
    if root is None:
        roots = [s["id"] for s in segs if s["parent"] is None]
        root = rng.choice(roots) if rng.random() < 0.7 else rng.choice(segs)["id"]
    if groups is None:
        groups = mk_groups(rng, segs, root, collide=rng.random() < 0.06)
    nest, pn, pa = ref.nest_and_pressure(root)
    press = max(pn, pa)
    fail_frames = fail_frames and press >= 60             # both sides must fail well away from the threshold
    if fail_frames:
        lim = press - 12 - rng.randint(0, 10)
    else:
        lim = press + 10 + rng.randint(0, 30)
    F = max(lim + FRAME_OFFSET, 40) if not fail_frames else lim + FRAME_OFFSET
    fl = flags or {}
    return {"segs": segs, "groups": groups, "root": root,
            "use_convention": fl.get("use_convention", rng.random() < 0.5),
            "reorder": fl.get("reorder", rng.random() < 0.5), "optimise": fl.get("optimise", rng.random() < 0.5),
            "cache": cache, "F": F}


def gen_case(rng, big=False):
    r = rng.random()
    n = rng.choice([1, 2, 3, 4, 5, 6, 8, 10, 12, 16, 20] + ([30, 40] if big else []))
    par = parents_random(rng, n, rng.choice([0.0, 0.3, 0.6, 0.85]))
    if r < 0.08 and n >= 4:                               # forest: a second component not reachable from the root
        par[rng.randrange(2, n)] = None
    segs = mk_segs(rng, par)
    cache = None
    r2 = rng.random()
    if r2 < 0.05:
        cache = "fresh"
    elif r2 < 0.10 and n >= 2:
        cache = {"prefix": rng.randrange(0, n)}           # computed when only the first m segments existed
    elif r2 < 0.12:
        ids = [s["id"] for s in segs]
        adj = []
        for p in rng.sample(ids, min(len(ids), rng.randint(0, 3))):
            adj.append([p, rng.sample(ids, rng.randint(0, min(3, len(ids))))])
        cache = {"adj": adj} if _adj_small(adj) else None
    root = None
    if rng.random() < 0.02:                               # malformed stream: a root id that is no segment
        root = max(s["id"] for s in segs) + 1 + rng.randrange(5)
    return finish_case(rng, segs, root=root, cache=cache, fail_frames=(rng.random() < 0.04))


def _adj_small(adj):
    """hand-made caches must unfold to something small and acyclic from every key (the real loop would not end)"""
    d = {p: cs for p, cs in adj}
    if len(d) != len(adj):
        return False

    def size(x, stack):
        if x in stack:
            return 10 ** 9
        return 1 + sum(size(c, stack | {x}) for c in d.get(x, []))
    return all(size(p, frozenset()) < 50 for p in d)


def exhaustive_cases(rng, nmax):
    """every parent structure (parent of segment k among 0..k-1) with <= nmax segments; ids, fractions, proximals,
    document order and flags drawn at random"""
    for n in range(1, nmax + 1):
        for tail in itertools.product(*[range(k) for k in range(1, n)]):
            par = [None] + list(tail)
            segs = mk_segs(rng, par)
            yield finish_case(rng, segs, groups=(mk_groups(rng, segs, segs[0]["id"]) if rng.random() < 0.3 else []))


def chain_case(rng, n, frac1=True):
    par = [None] + list(range(n - 1))
    segs = mk_segs(rng, par, ids=[7 + 3 * k for k in range(n)], p_explicit=0.02, shuffle=False,
                   p_frac1=1.0 if frac1 else 0.9)
    return finish_case(rng, segs, root=7, groups=[], flags={"reorder": True, "optimise": True})


def caterpillar_case(rng, depth, fail, frac1=True):
    par, spine = [None], 0
    for _ in range(depth):
        a = len(par)
        par += [spine, spine]
        if rng.random() < 0.5:
            par.append(spine)
        spine = a + rng.randrange(2)
    segs = mk_segs(rng, par, p_explicit=0.1, p_frac1=1.0 if frac1 else 0.7, shuffle=False)
    return finish_case(rng, segs, root=segs[0]["id"], groups=[], fail_frames=fail)


# ---------------------------------------------------------------- real library
def build_cell(case, upto=None):
    import neuroml as n
    m = n.Morphology(id="m")
    cell = n.Cell(id="c", morphology=m)
    for s in case["segs"][:upto]:
        m.segments.append(_mk_seg(s))
    for g in case["groups"]:
        sg = n.SegmentGroup(id=g["id"], neuro_lex_id=g["nlx"], notes=g.get("notes"))
        for x in g["members"]:
            sg.members.append(n.Member(segments=x))
        for x in g["includes"]:
            sg.includes.append(n.Include(segment_groups=x))
        m.segment_groups.append(sg)
    return cell


def _mk_seg(s):
    import neuroml as n

    def pt(p):
        v = [float(fr(c)) for c in p]
        return n.Point3DWithDiam(x=v[0], y=v[1], z=v[2], diameter=v[3])
    seg = n.Segment(id=s["id"], name="s%d" % s["id"], distal=pt(s["dist"]))
    if s["prox"] is not None:
        seg.proximal = pt(s["prox"])
    if s["parent"] is not None:
        seg.parent = n.SegmentParent(segments=s["parent"], fraction_along=float(fr(s["frac"])))
    return seg


def odump(o):
    """generic canonical dump of a generateDS object (all schema members), floats as exact fractions"""
    if isinstance(o, list):
        return [odump(x) for x in o]
    if isinstance(o, float):
        return "%d/%d" % Fr(o).as_integer_ratio()
    if isinstance(o, (str, int, bool)) or o is None:
        return o
    if hasattr(o, "_get_members"):
        d = {"__class__": type(o).__name__}
        for mem in sorted(o._get_members(), key=lambda m: m.get_name()):
            v = getattr(o, mem.get_name(), None)
            if v is None or v == []:
                continue
            d[mem.get_name()] = odump(v)
        return d
    return repr(o)


def snapshot(cell):
    return {"segs": [odump(s) for s in cell.morphology.segments],
            "groups": [odump(g) for g in cell.morphology.segment_groups],
            "n_other": {k: (len(v) if isinstance(v, list) else (v is not None)) for k, v in vars(cell.morphology).items()
                        if k not in ("segments", "segment_groups", "parent_object_", "gds_collector_")}}


def _depth():
    f, d = sys._getframe(), 0
    while f is not None:
        d += 1
        f = f.f_back
    return d


def call_limited(fn, F):
    old = sys.getrecursionlimit()
    if F is not None:
        sys.setrecursionlimit(_depth() + F)
    try:
        return fn()
    finally:
        sys.setrecursionlimit(old)


def run_real(case):
    cache = case["cache"]
    if isinstance(cache, dict) and "prefix" in cache:
        cell = build_cell(case, upto=cache["prefix"])
        cell.get_segment_adjacency_list()                # the cache is computed ...
        for s in case["segs"][cache["prefix"]:]:         # ... and the morphology grows afterwards
            cell.morphology.segments.append(_mk_seg(s))
    else:
        cell = build_cell(case)
        if cache == "fresh":
            cell.get_segment_adjacency_list()
        elif isinstance(cache, dict):
            cell.adjacency_list = {p: list(cs) for p, cs in cache["adj"]}
    before = snapshot(cell)
    try:
        call_limited(lambda: cell.create_unbranched_segment_group_branches(
            case["root"], use_convention=case["use_convention"], reorder_segment_groups=case["reorder"],
            optimise_segment_groups=case["optimise"]), case["F"])
        res = "ok"
    except RecursionError:
        res = "RecursionError"
    except Exception as e:  # noqa
        res = type(e).__name__
    after = snapshot(cell)
    alias = 0
    if res == "ok":
        dist = {id(s.distal) for s in cell.morphology.segments}
        alias = sum(1 for s in cell.morphology.segments if s.proximal is not None and id(s.proximal) in dist)
    return {"res": res, "before": before, "after": after, "alias": alias}


# ---------------------------------------------------------------- model (Lean driver)
def frames_default():
    return sys.getrecursionlimit() - _depth() - 6


def model_line(case):
    segs = [{"id": s["id"], "parent": None if s["parent"] is None else [s["parent"], s["frac"]], "prox": s["prox"],
             "dist": s["dist"]} for s in case["segs"]]
    groups = [{"id": g["id"], "nlx": g["nlx"], "members": g["members"], "includes": g["includes"]} for g in case["groups"]]
    cache = None if case["cache"] in (None, "fresh") else case["cache"]
    F = case["F"] if case["F"] is not None else frames_default()
    return json.dumps({"segs": segs, "groups": groups, "root": case["root"], "reorder": case["reorder"],
                       "optimise": case["optimise"], "cache": cache, "lim": max(F - FRAME_OFFSET, 0)})


def pstr(p):
    return None if p is None else ["%d/%d" % (c[0], c[1]) for c in p]


def canon_model(m):
    if m.get("res") != "ok":
        return {"res": m.get("res", "driver-error:" + json.dumps(m)[:80])}
    return {"res": "ok", "prox": [[s["id"], pstr(s["prox"])] for s in m["segs"]],
            "groups": [[g["id"], g["nlx"]] + ([None, None] if g["opaque"] else [g["members"], g["includes"]])
                       for g in m["groups"]]}


def canon_real(r, m):
    """the same view of the real outcome; `m` (model output) only says which groups are not modelled (opaque)"""
    if r["res"] != "ok":
        return {"res": r["res"]}

    def pr(p):
        return None if p is None else [p["x"], p["y"], p["z"], p["diameter"]]
    opaque = [g["opaque"] for g in m["groups"]] if m.get("res") == "ok" else []
    gs = []
    for k, g in enumerate(r["after"]["groups"]):
        mem = [x["segments"] for x in g.get("members", [])]
        inc = [x["segment_groups"] for x in g.get("includes", [])]
        gs.append([g.get("id"), g.get("neuro_lex_id")] + ([None, None] if k < len(opaque) and opaque[k] else [mem, inc]))
    return {"res": "ok", "prox": [[s["id"], pr(s.get("proximal"))] for s in r["after"]["segs"]], "groups": gs}


# ---------------------------------------------------------------- full-property oracle on the real code
def closure(groups_by_id, all_ids, name, stack=()):
    if name in stack:
        return set()
    g = groups_by_id.get(name)
    if g is None:
        return set(all_ids) if name == "all" else set()
    out = {x["segments"] for x in g.get("members", [])}
    for inc in g.get("includes", []):
        out |= closure(groups_by_id, all_ids, inc["segment_groups"], stack + (name,))
    return out


def oracle(case, real):
    """list of (check, detail) failures of the property statement on the real outcome"""
    fails = []
    ref = Ref(case["segs"])
    reach = ref.reach(case["root"])
    before, after = real["before"], real["after"]
    if case["root"] not in ref.by_id:
        # malformed call (the root is no segment of the cell): the property does not apply; the call must refuse
        # and leave the cell alone
        if real["res"] != "ValueError":
            fails.append(("bad-root-accepted", "root %s is no segment, outcome %s" % (case["root"], real["res"])))
        elif before != after:
            fails.append(("bad-root-changed-cell", ""))
        return fails, reach
    if real["res"] != "ok":
        return [("exception:" + real["res"], "the call raised %s" % real["res"])], reach
    old_ids = [g.get("id") for g in before["groups"]]
    new = [g for g in after["groups"] if g.get("id") not in old_ids and g.get("neuro_lex_id") == SECTION]
    chains = [[x["segments"] for x in g.get("members", [])] for g in new]
    # partition
    flat = [x for ch in chains for x in ch]
    if reach is not None:
        if sorted(flat) != sorted(reach):
            miss = sorted(set(reach) - set(flat))
            extra = sorted(set(flat) - set(reach))
            dup = sorted({x for x in flat if flat.count(x) > 1})
            fails.append(("partition", "missing=%s extra=%s twice=%s" % (miss[:6], extra[:6], dup[:6])))
    par = {s["id"]: s["parent"] for s in case["segs"]}
    nk = lambda x: len(ref.kids.get(x, []))
    for g, ch in zip(new, chains):
        if not ch:
            fails.append(("empty-group", g.get("id")))
            continue
        if any(par.get(b) != a for a, b in zip(ch, ch[1:])):
            fails.append(("chain", "%s: %s" % (g.get("id"), ch[:8])))
        if any(nk(a) != 1 for a in ch[:-1]):
            fails.append(("inner-branch", "%s: %s" % (g.get("id"), ch[:8])))
        if not (ch[0] == case["root"] or nk(par.get(ch[0])) >= 2):
            fails.append(("not-maximal-top", "%s starts at %s" % (g.get("id"), ch[0])))
        if nk(ch[-1]) == 1:
            fails.append(("not-maximal-bottom", "%s ends at %s" % (g.get("id"), ch[-1])))
        first = [s for s in after["segs"] if s["id"] == ch[0]]
        if not first or first[0].get("proximal") is None:
            fails.append(("root-proximal-missing" if ch[0] == case["root"] else "first-proximal-missing",
                          "first segment %s of %s has no explicit proximal" % (ch[0], g.get("id"))))
        if g.get("includes"):
            fails.append(("new-group-includes", g.get("id")))
    # geometry / parents
    if len(before["segs"]) != len(after["segs"]):
        fails.append(("segments-added-or-removed", ""))
    for b, a in zip(before["segs"], after["segs"]):
        if b == a:
            continue
        bb = dict(b)
        aa = dict(a)
        pa = aa.pop("proximal", None)
        pb = bb.pop("proximal", None)
        if aa != bb:
            fails.append(("segment-changed", "segment %s: %s -> %s" % (b.get("id"), bb, aa)))
        elif pb is not None:
            fails.append(("proximal-moved", "segment %s" % b.get("id")))
        else:
            imp = ref.implied(b["id"])
            got = None if pa is None else [Fr(pa[k]) for k in ("x", "y", "z", "diameter")]
            if imp is None or got != imp:
                fails.append(("explicit-proximal-differs-from-implied", "segment %s: %s vs implied %s" % (b.get("id"), got, imp)))
    segs_after = []
    for s, a in zip(case["segs"], after["segs"]):
        p = a.get("proximal")
        segs_after.append(dict(s, prox=None if p is None else [q(Fr(p[k])) for k in ("x", "y", "z", "diameter")]))
    if len(before["segs"]) == len(after["segs"]):
        ref2 = Ref(segs_after)
        for s in case["segs"]:
            i1, i2 = ref.implied(s["id"]), ref2.implied(s["id"])
            if i1 != i2:
                fails.append(("actual-proximal-changed", "segment %s: %s -> %s" % (s["id"], i1, i2)))
                break
            if i1 is not None:
                d = [fr(c) for c in s["dist"]]
                if sum((d[k] - i1[k]) ** 2 for k in range(3)) != sum((d[k] - i2[k]) ** 2 for k in range(3)):
                    fails.append(("length-changed", "segment %s" % s["id"]))
    if before["n_other"] != after["n_other"]:
        fails.append(("morphology-changed", "%s -> %s" % (before["n_other"], after["n_other"])))
    # pre-existing groups
    bg, ag = before["groups"], after["groups"]
    olds_after = [g for g in ag if g.get("id") in old_ids]
    if len(olds_after) != len(bg):
        fails.append(("old-group-lost-or-duplicated", "%d -> %d" % (len(bg), len(olds_after))))
    else:
        if case["reorder"]:
            key = lambda g: json.dumps(g, sort_keys=True)
            moved = [g for g in bg if g.get("id") in DEFAULT_GROUPS]
            stay_b = [g.get("id") for g in bg if g.get("id") not in DEFAULT_GROUPS]
            stay_a = [g.get("id") for g in olds_after if g.get("id") not in DEFAULT_GROUPS]
            if stay_b != stay_a:
                fails.append(("old-group-order", "%s -> %s" % (stay_b, stay_a)))
            pairs = []
            rem = list(olds_after)
            for g in bg:                                   # match by id, first unused
                for h in rem:
                    if h.get("id") == g.get("id"):
                        pairs.append((g, h))
                        rem.remove(h)
                        break
        else:
            pairs = list(zip(bg, ag[:len(bg)]))
            if [g.get("id") for g in bg] != [g.get("id") for g in ag[:len(bg)]]:
                fails.append(("old-group-order", "old groups are not the prefix of the group list"))
        all_ids = [s["id"] for s in case["segs"]]
        gb = {}
        for g in bg:
            gb.setdefault(g.get("id"), g)
        ga = {}
        for g in ag:
            ga.setdefault(g.get("id"), g)
        for g, h in pairs:
            if g == h:
                continue
            clean = not g.get("includes") and len({x["segments"] for x in g.get("members", [])}) == len(g.get("members", []))
            if not case["optimise"] or clean:
                fails.append(("old-group-changed", "%s: %s -> %s" % (g.get("id"), json.dumps(g)[:150], json.dumps(h)[:150])))
                continue
            g2 = {k: v for k, v in g.items() if k not in ("members", "includes")}
            h2 = {k: v for k, v in h.items() if k not in ("members", "includes")}
            incb = {x["segment_groups"] for x in g.get("includes", [])}
            inca = {x["segment_groups"] for x in h.get("includes", [])}
            memb = {x["segments"] for x in g.get("members", [])}
            mema = {x["segments"] for x in h.get("members", [])}
            if g2 != h2 or incb != inca or not mema <= memb:
                fails.append(("old-group-changed", "%s (optimised): attributes / include set / members grew" % g.get("id")))
            elif closure(gb, all_ids, g.get("id")) != closure(ga, all_ids, g.get("id")):
                fails.append(("old-group-denotation-changed", "%s resolves to a different segment set" % g.get("id")))
    return fails, reach


def requested_names(case, ref):
    """the group names the call asks add_unbranched_segment_group for (documented scheme f"seg_group_{k}_seg_{id}",
    k = number of groups when the root group is made, afterwards number of groups - 1), chain heads in pre-order"""
    ids = [g["id"] for g in case["groups"]]
    names = []

    def ask(nm):
        names.append(nm)
        if nm not in ids:
            ids.append(nm)
    ask("seg_group_%d_seg_%d" % (len(ids), case["root"]))
    todo = [case["root"]]
    guard = 0
    while todo and guard < 4 * len(case["segs"]) + 10:
        guard += 1
        x = todo.pop()
        if isinstance(x, tuple):
            ask("seg_group_%d_seg_%d" % (len(ids) - 1, x[0]))
            x = x[0]
        ks = ref.kids.get(x, [])
        while len(ks) == 1:
            x = ks[0]
            ks = ref.kids.get(x, [])
        todo.extend((c,) for c in reversed(ks))
    return names


def classify(case, real, fails):
    """deterministic key of a failing case (the input class first, then the clause)"""
    ref = Ref(case["segs"])
    cache = case["cache"]
    if isinstance(cache, dict):
        fresh = {}
        for s in case["segs"]:
            if s["parent"] is not None:
                fresh.setdefault(s["parent"], []).append(s["id"])
        if "prefix" in cache:
            cur = {}
            for s in case["segs"][:cache["prefix"]]:
                if s["parent"] is not None:
                    cur.setdefault(s["parent"], []).append(s["id"])
        else:
            cur = {p: list(cs) for p, cs in cache["adj"]}
        if cur != fresh:
            return "C16:stale-adjacency-cache"
    old_ids = [g.get("id") for g in real["before"]["groups"]]
    if any(nm in old_ids for nm in requested_names(case, ref)):
        return "C16:generated-name-collision"
    if real["res"] == "RecursionError":
        nest, pn, pa = ref.nest_and_pressure(case["root"])
        return "C16:recursion-limit:" + ("implied-proximal-chain" if pa >= pn + 5 else "nested-branch-points")
    return "C16:" + fails[0][0]


def check_case(ctx, case, mout):
    real = run_real(case)
    ref = Ref(case["segs"])
    reach = ref.reach(case["root"])
    nest = ref.nest_and_pressure(case["root"])[0] if reach is not None else 0
    canon = {k: case[k] for k in ("segs", "groups", "root", "use_convention", "reorder", "optimise", "cache", "F")}
    ctx.seen(canon, nontrivial=nest >= 1)
    ctx.count("res:" + real["res"])
    ctx.count("nest:%s" % (nest if nest < 3 else ("3-9" if nest < 10 else "10+")))
    ctx.count("n:%s" % (len(case["segs"]) if len(case["segs"]) < 8 else ("8-40" if len(case["segs"]) <= 40 else "41+")))
    ctx.count("cache:" + ("none" if case["cache"] is None else case["cache"] if isinstance(case["cache"], str) else sorted(case["cache"])[0]))
    ctx.count("flags:reorder=%d,optimise=%d" % (case["reorder"], case["optimise"]))
    ctx.count("root:" + ("no-such-segment" if case["root"] not in ref.by_id else
                         "true-root" if ref.by_id[case["root"]]["parent"] is None else "inner"))
    if real["alias"]:
        ctx.count("explicit-proximal-aliases-a-distal-object", real["alias"])
    if mout.get("hyp"):
        ctx.count("theorem-hypotheses-hold(hypB)")
    # --- correspondence with the Lean model
    ctx.corr_evals += 1
    cm, cr = canon_model(mout), canon_real(real, mout)
    if cm != cr:
        ctx.disagree("section-model", case, cr, cm)
    # --- full-property oracle on the real code
    fails, _ = oracle(case, real)
    if fails:
        key = classify(case, real, fails)
        ctx.fail(key, "; ".join("%s (%s)" % f for f in fails[:4]), case)
    elif mout.get("hyp") is False and case["cache"] is None and real["res"] == "ok":
        ctx.count("ok-outside-theorem-hypotheses")
    if mout.get("hyp") and fails and cm == cr:
        # model and code agree, the theorems' hypotheses hold (hypB), yet the oracle rejects: oracle and theorems
        # disagree about what the property says -- a defect of the machinery, surfaced as a broken obligation
        ctx.disagree("oracle-vs-theorems", case, [f[0] for f in fails], "hypB=true")
    return real


# ---------------------------------------------------------------- corpus
def P(x, y, z, d):
    return [q(x), q(y), q(z), q(d)]


def S(i, parent, frac, prox, dist):
    return {"id": i, "parent": parent, "frac": q(frac), "prox": prox, "dist": dist}


Y = [S(10, None, 1, P(0, 0, 0, 2), P(10, 0, 0, 2)), S(3, 10, 1, None, P(20, 0, 0, 2)),
     S(7, 3, Fr(1, 2), None, P(20, 10, 0, 1)), S(8, 3, 1, None, P(30, 0, 0, 1)),
     S(20, 8, Fr(1, 4), None, P(40, 0, 0, 1)), S(21, 7, 0, None, P(20, 20, 0, 1))]


def _case(segs, root, groups=(), cache=None, F=120, reorder=True, optimise=True, use_convention=True):
    return {"segs": copy.deepcopy(segs), "groups": copy.deepcopy(list(groups)), "root": root,
            "use_convention": use_convention, "reorder": reorder, "optimise": optimise, "cache": cache, "F": F}


def G(i, members=(), includes=(), nlx=None, notes=None):
    return {"id": i, "nlx": nlx, "members": list(members), "includes": list(includes), "notes": notes}


def _caterpillar(depth):
    segs = [S(0, None, 1, P(0, 0, 0, 1), P(1, 0, 0, 1))]
    for i in range(1, depth + 1):
        segs.append(S(2 * i, 2 * (i - 1), 1, None, P(i + 1, 0, 0, 1)))
        segs.append(S(2 * i + 1, 2 * (i - 1), 1, None, P(i, 1, 0, 1)))
    return segs


def _fchain(n):
    segs = [S(0, None, 1, P(0, 0, 0, 1), P(1, 0, 0, 1))]
    segs += [S(i, i - 1, 0, None, P(i + 1, 0, 0, 1)) for i in range(1, n)]
    segs += [S(n, n - 1, 0, None, P(0, 1, 0, 1)), S(n + 1, n - 1, 0, None, P(0, 2, 0, 1))]
    return segs


CORPUS = [
    # plain Y-shaped cell with default groups, duplicate members, an include; default flags
    _case(Y, 10, [G("soma_group", [10, 10]), G("all", [10, 3], ["soma_group"])]),
    # the same with every post-pass off
    _case(Y, 10, [G("soma_group", [10]), G("dend_a", [3, 7], nlx=SECTION, notes="kept")], reorder=False, optimise=False),
    # FIXED (fixes/C16-root-proximal.patch): inner segment without explicit proximal as the root
    _case(Y, 3, [], reorder=False, optimise=False),
    # KNOWN: a pre-existing group carrying a generated name is reused (here: not even marked as a section)
    _case(Y, 10, [G("seg_group_0_seg_7", [10])], reorder=False, optimise=False),
    _case(Y, 10, [G("seg_group_1_seg_10", [8], nlx=SECTION)]),
    # KNOWN: stale adjacency_list cache (computed when only the first two segments existed)
    _case(Y, 10, [], cache={"prefix": 2}),
    # KNOWN: hand-made cache with an empty child list: the segment is dropped
    _case(Y, 10, [], cache={"adj": [[10, [3]], [3, []]]}),
    # KNOWN: nested branch points beyond the available frames (60 frames, 80 nested branch points)
    _case(_caterpillar(80), 0, [], F=60),
    # KNOWN: a long chain of implied proximals (fraction 0) above a branch point: get_actual_proximal recurses
    _case(_fchain(90), 0, [], F=70),
    # the same shapes with enough frames
    _case(_caterpillar(30), 0, [], F=80),
    _case(_fchain(30), 0, [], F=80),
]
CORPUS_THOROUGH = [
    # KNOWN, at the interpreter's own default limit: 1100 nested branch points
    _case(_caterpillar(1100), 0, [], F=None, reorder=False, optimise=False),
]


def run_cases(ctx, cases):
    lines = [model_line(c) for c in cases]
    rc, out = fw.run_driver("C16", lines)
    if rc != 0 or len(out) != len(lines):
        ctx.disagree("driver", "driver failed rc=%s (%d/%d lines)" % (rc, len(out), len(lines)), "\n".join(out[-3:])[-600:], None)
        mouts = [{"res": "driver-error"}] * len(lines)
    else:
        mouts = []
        for l in out:
            try:
                mouts.append(json.loads(l))
            except ValueError:
                mouts.append({"res": "driver-error:" + l[:80]})
    for c, m in zip(cases, mouts):
        check_case(ctx, c, m)
        if len(c["segs"]) <= 8:
            ctx.sample({"segs": [[s["id"], s["parent"], "%d/%d" % tuple(s["frac"]), s["prox"] is not None] for s in c["segs"]],
                        "groups": [g["id"] for g in c["groups"]], "root": c["root"], "cache": c["cache"],
                        "flags": [c["use_convention"], c["reorder"], c["optimise"]]})


def run(ctx):
    rng = ctx.rng
    thorough = ctx.tier == "thorough"
    cases = [copy.deepcopy(c) for c in CORPUS]
    if thorough:
        cases += [copy.deepcopy(c) for c in CORPUS_THOROUGH]
    # exhaustive small trees
    nmax = 7 if thorough else 6
    cases += list(exhaustive_cases(rng, nmax))
    ctx.extra["exhaustive"] = True
    ctx.extra["exhaustive_scope"] = "all parent structures (parent(k) in 0..k-1) with <= %d segments" % nmax
    # random cells
    for _ in range(ctx.n(1200, 12000) * ctx.search_mult):
        cases.append(gen_case(rng, big=thorough))
    # caterpillars on both sides of the frame limit, chains longer than the recursion limit
    for _ in range(ctx.n(6, 40)):
        cases.append(caterpillar_case(rng, rng.randint(20, 120), fail=rng.random() < 0.5, frac1=rng.random() < 0.5))
    cases.append(chain_case(rng, ctx.n(1300, 5000)))
    cases.append(chain_case(rng, ctx.n(300, 1500), frac1=False))
    run_cases(ctx, cases)


def replay(ctx, payload):
    case = payload["case"]
    run_cases(ctx, [case])
    return {"fails": bool(ctx.failures or ctx.corr_disagreements), "failures": ctx.failures,
            "disagreements": ctx.corr_disagreements}
