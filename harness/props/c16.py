"""C16 — unbranched sectioning partitions the tree into maximal chains, altering nothing.

Tie: hand model (lean/NmlVerif/Model/Section.lean) + correspondence on generated cells AND HISTORIES (several
operations on ONE Cell object: real `Cell.create_unbranched_segment_group_branches` / `get_segment_adjacency_list`
/ `get_graph` / appends vs `Drivers/C16.lean`, state compared after every operation incl. the cached
`adjacency_list`), an independent harness-side oracle that evaluates the full property statement on the real code
after EVERY sectioning call (relative to the cell at that time), and the translator
`translators/py2lean_section.py` (regenerates `lean/NmlVerif/Gen/Section.lean` from the two sources on every run).
All numbers are dyadic rationals so that the float arithmetic of `get_actual_proximal` is exact; they travel as
[num, den].
"""
import copy
import itertools
import json
import os
import re
import sys
from fractions import Fraction as Fr

import fw

LEAN_PROPS = ["NmlVerif.Props.C16", "NmlVerif.Props.C16Gen"]
LEAN_EXTRA = ["NmlVerif.Proofs.SectionLegacy"]
# helper theorems that carry the argument (audited for axioms as well)
EXTRA_THEOREMS = ["NmlVerif.Section.run_spec", "NmlVerif.Section.sectionPhase_spec", "NmlVerif.Section.sectLoop_spec",
                  "NmlVerif.Section.walk_spec", "NmlVerif.Section.hypB_sound", "NmlVerif.Section.buildTree_sound",
                  "NmlVerif.Section.lookup_adjacency", "NmlVerif.Section.genName_inj",
                  "NmlVerif.Section.actualProximal_sound", "NmlVerif.Section.Refines.implied_iff",
                  "NmlVerif.Section.exists_tree", "NmlVerif.Section.exists_unfolding", "NmlVerif.Section.tree_size_le",
                  "NmlVerif.Section.WfCell.wf", "NmlVerif.Section.RootedAt.acyclic", "NmlVerif.Section.exists_frames",
                  "NmlVerif.Section.callOK_of_wf", "NmlVerif.Section.call_good", "NmlVerif.Section.history_ok",
                  "NmlVerif.Section.Refines.adjacency"]
LEVEL = "proof"
RULE = ("cell objects = random segment trees / forests (1-40 segments; exhaustive parent structures up to 6 (quick) or "
        "7 (thorough) segments; chains longer than the recursion limit; caterpillars deeper than the frame budget) with "
        "arbitrary non-contiguous ids, shuffled document order, fraction_along in {0,1/4,1/2,1}, dyadic coordinates, "
        "explicit or implied proximals, 0-5 pre-existing groups (default names, includes, duplicate members, "
        "section-marked, generated-looking names) x adjacency cache (none/fresh/stale/hand-made) x available Python "
        "frames x a HISTORY of 1-5 sectioning calls on the same object (roots: true root, inner segments, repeats, "
        "sub-trees of earlier roots; use_convention x reorder x optimise per call) interleaved with "
        "get_segment_adjacency_list / get_graph / appended segments / added groups; a case is non-trivial when the "
        "tree reachable from the first root has >= 1 branch point (>= 3 new groups); distinct = distinct canonical case")
TRUST = [
    "hand-written model of Cell.create_unbranched_segment_group_branches/__sectionise/add_(unbranched_)segment_group/"
    "get_segment_group/get_segment_adjacency_list/get_segment/get_actual_proximal/reorder_segment_groups, tied by "
    "correspondence (state after every operation of a history) and, for the control-flow skeleton of "
    "create_unbranched_segment_group_branches/__sectionise, by translation (Gen/Section.lean = pinned skeleton)",
    "optimise_segment_group on a group WITH includes is a parameter of the model (property C14); on a group without "
    "includes it is modelled (member de-duplication)",
    "CPython f-string formatting of ints, float arithmetic on dyadic values (exact), the generic add()/validate() "
    "of generateDS objects (modelled as: append unless an equal Member exists)",
    "translators/py2lean_section.py normalises equivalent surface shapes before matching (local variables renamed "
    "bijectively; else after return; nested if = and; conditional-expression assignment; single-use temporaries "
    "inlined; comparisons of len() with int literals; truth value of a list built in the function; extend/+= with a "
    "comprehension = append loop; %s / str.format / str()+ = f-string; guard clause at the end of the function): "
    "each rule is argued in the translator, two of them under assumptions -- str(x) == format(x, '') for the values "
    "formatted into group names (ints), and looking up an attribute of a parameter (self.method) neither fails nor "
    "runs code",
    "the interpreter's recursion limit is a model parameter `lim`, consumed only by get_actual_proximal (the "
    "sectioniser is iterative); the harness sets the limit relative to the call depth, stays >= 10 frames away from "
    "the threshold, and re-measures the frame offset on every run (evidence: frame_offset_measured)",
]
ASSUMPTIONS = [
    "theorems assume: distinct segment ids; acyclic parent pointers (the tree is constructed in Lean: exists_tree); "
    "an adjacency_list cache that is absent or up to date; no pre-existing group named seg_group_<n>_seg_<i> with "
    "n >= number of groups; enough Python frames for get_actual_proximal on the chain heads -- the three excluded "
    "classes are known findings reproduced every run; the per-case flag hypB (driver) says when they hold",
    "with optimise_segment_groups=True a pre-existing group that has includes or duplicate members is rewritten by "
    "optimise_segment_group (C14); for it C16 checks id, neuro_lex_id, include set and resolved segment set only",
]

SECTION = "sao864921383"
GEN_RE = re.compile(r"^seg_group_(0|[1-9][0-9]*)_seg_(0|[1-9][0-9]*)$")
FRAME_OFFSET = 2          # lim = F - FRAME_OFFSET (a proximal chain of depth D below __sectionise needs F >= D + 3);
FRAME_FLOOR = 40          # below ~17 frames the library fails in code the model does not follow (add/validate)
DEFAULT_GROUPS = ["soma_group", "axon_group", "dendrite_group", "all"]


# ---------------------------------------------------------------- small exact helpers
def fr(q):
    return Fr(q[0], q[1])


def q(x):
    x = Fr(x)
    return [x.numerator, x.denominator]


def exact_float(x):
    x = Fr(x)
    return Fr(float(x)) == x


def lerp(f, a, b):
    return [(1 - f) * a[i] + f * b[i] for i in range(4)]


# ---------------------------------------------------------------- independent tree reference (oracle side)
class Ref:
    """what the property talks about, computed from the case description only (never from library code)"""

    def __init__(self, segs):
        self.segs = segs
        self.by_id = {}
        for s in segs:
            self.by_id.setdefault(s["id"], s)
        self.kids = {}
        for s in segs:                                   # document order
            if s["parent"] is not None:
                self.kids.setdefault(s["parent"], []).append(s["id"])

    def adjacency(self):
        """the adjacency list the morphology defines: [[parent, [children in document order]], ...], parents in the
        order of their first child"""
        return [[p, list(cs)] for p, cs in self.kids.items()]

    def reach(self, root):
        out, todo, seen = [], [root], set()
        while todo:
            x = todo.pop()
            if x in seen:
                return None                              # not a tree
            seen.add(x)
            out.append(x)
            todo.extend(reversed(self.kids.get(x, [])))
        return out

    def implied(self, i, depth=0):
        """proximal implied by parent + fraction_along (uniform interpolation), exact; None if undefined"""
        path = []
        cur = i
        while True:
            s = self.by_id.get(cur)
            if s is None or len(path) > len(self.segs) + 1:
                return None
            if s["prox"] is not None:
                val = [fr(c) for c in s["prox"]]
                break
            if s["parent"] is None:
                return None
            p = self.by_id.get(s["parent"])
            if p is None:
                return None
            f = fr(s["frac"])
            if f == 1:
                val = [fr(c) for c in p["dist"]]
                break
            path.append((f, [fr(c) for c in p["dist"]]))
            cur = s["parent"]
        for f, pd in reversed(path):
            val = lerp(f, val, pd)
        return val

    def ap_depth(self, i):
        """number of nested get_actual_proximal frames for segment i"""
        d, cur = 0, i
        while True:
            d += 1
            s = self.by_id.get(cur)
            if s is None or d > len(self.segs) + 2:
                return d
            if s["prox"] is not None or s["parent"] is None or fr(s["frac"]) == 1:
                return d
            cur = s["parent"]

    def nest_and_pressure(self, root):
        """(number of branch points nested on a root-to-leaf path -- what the recursive sectioniser needed frames
        for and the iterative one does not --, frames the old nesting would need, frames the deepest
        get_actual_proximal chain needs below create_unbranched_segment_group_branches: 1 for __sectionise + the
        chain) -- as the model counts them"""
        nest, pn, pa = 0, 1, 1
        r = self.by_id.get(root)
        if r is not None and r["prox"] is None and r["parent"] is not None:
            pa = max(pa, self.ap_depth(root))
        todo = [(root, 0)]
        seen = 0
        while todo and seen <= 4 * len(self.segs) + 8:
            seen += 1
            x, d = todo.pop()
            ks = self.kids.get(x, [])
            steps = 0
            while len(ks) == 1 and steps <= len(self.segs):
                steps += 1
                x = ks[0]
                ks = self.kids.get(x, [])
            if len(ks) > 1:
                nest = max(nest, d + 1)
                pn = max(pn, d + 2)
                for c in ks:
                    pa = max(pa, 1 + self.ap_depth(c))
                    todo.append((c, d + 1))
        return nest, pn, pa


# ---------------------------------------------------------------- generator
IDS_POOL = [0, 1, 2, 3, 5, 7, 8, 10, 11, 19, 20, 21, 42, 99, 100, 101, 255, 1000, 4096, 99999, 123456, 2 ** 31]
GROUP_NAMES = ["soma_group", "axon_group", "dendrite_group", "all", "g1", "g9", "g10", "dend_a", "apical",
               "seg_group_x", "seg_group_1_seg", "Seg_group_0_seg_0"]


def rand_pt(rng):
    return [q(Fr(rng.randint(-200, 200), 4)) for _ in range(3)] + [q(Fr(rng.randint(1, 40), 4))]


def parents_random(rng, n, pchain):
    par = [None]
    for k in range(1, n):
        par.append(k - 1 if rng.random() < pchain else rng.randrange(k))
    return par


def mk_segs(rng, par, ids=None, fracs=(Fr(0), Fr(1, 4), Fr(1, 2), Fr(1)), p_explicit=0.3, shuffle=True, p_frac1=0.55):
    n = len(par)
    if ids is None:
        if rng.random() < 0.3:
            ids = rng.sample(range(0, 3 * n + 5), n)
        else:
            pool = list(IDS_POOL) + [rng.randrange(10 ** 6) for _ in range(n)]
            ids = []
            for x in rng.sample(pool, len(pool)):
                if x not in ids:
                    ids.append(x)
                if len(ids) == n:
                    break
            while len(ids) < n:
                x = rng.randrange(10 ** 7)
                if x not in ids:
                    ids.append(x)
    segs = []
    for k in range(n):
        s = {"id": ids[k], "parent": None if par[k] is None else ids[par[k]], "frac": [1, 1], "prox": None,
             "dist": rand_pt(rng)}
        if par[k] is None:
            s["prox"] = rand_pt(rng)
        else:
            s["frac"] = q(Fr(1) if rng.random() < p_frac1 else rng.choice(fracs))
            if rng.random() < p_explicit:
                s["prox"] = "implied" if rng.random() < 0.5 else rand_pt(rng)
        segs.append(s)
    ref = Ref(segs)
    for s in segs:                                        # explicit proximal placed exactly where it is implied
        if s["prox"] == "implied":
            s["prox"] = None
            v = ref.implied(s["id"])
            s["prox"] = [q(c) for c in v] if v is not None and all(exact_float(c) for c in v) else rand_pt(rng)
            ref = Ref(segs)
    for s in segs:                                        # keep every implied proximal exactly representable
        v = Ref(segs).implied(s["id"]) if s["prox"] is None else None
        if v is not None and any(c.denominator > 2 ** 24 for c in v):
            s["frac"] = [1, 1]
    if shuffle and rng.random() < 0.5:
        rng.shuffle(segs)
    return segs


def mk_groups(rng, segs, root, collide=False):
    ids = [s["id"] for s in segs]
    names = rng.sample(GROUP_NAMES, rng.choice([0, 0, 1, 2, 3, 4, 5]))
    groups = []
    for nm in names:
        g = {"id": nm, "nlx": rng.choice([None, None, "GO:0043025", SECTION]), "members": [], "includes": [],
             "notes": rng.choice([None, "n:" + nm])}
        for _ in range(rng.choice([0, 1, 2, 3, 5])):
            g["members"].append(rng.choice(ids))
        if g["members"] and rng.random() < 0.15:
            g["members"].append(g["members"][0])          # duplicate member
        if groups and rng.random() < 0.4:
            for h in rng.sample(groups, rng.randint(1, min(2, len(groups)))):
                g["includes"].append(h["id"])
        groups.append(g)
    if collide:
        for _ in range(rng.choice([1, 1, 2])):
            nm = "seg_group_%d_seg_%d" % (rng.randint(0, len(groups) + 3), rng.choice([root] + ids))
            if all(g["id"] != nm for g in groups):
                groups.insert(rng.randint(0, len(groups)),
                              {"id": nm, "nlx": rng.choice([None, SECTION]), "members": rng.sample(ids, min(len(ids), rng.randint(0, 2))),
                               "includes": [], "notes": None})
    return groups


def sect_op(root, use_convention=True, reorder=True, optimise=True):
    return {"op": "sect", "root": root, "use_convention": use_convention, "reorder": reorder, "optimise": optimise}


def final_segs(case):
    return list(case["segs"]) + [o["seg"] for o in case["ops"] if o["op"] == "append"]


def pressure(case):
    """frames (as the model counts them) that the sectioning calls of the history need, on the final morphology"""
    ref = Ref(final_segs(case))
    pa = 1
    for o in case["ops"]:
        if o["op"] == "sect":
            pa = max(pa, ref.nest_and_pressure(o["root"])[2])
    return pa


def finish_case(rng, segs, root=None, groups=None, cache=None, fail_frames=False, flags=None, more_ops=None):
    if root is None:
        roots = [s["id"] for s in segs if s["parent"] is None]
        root = rng.choice(roots) if rng.random() < 0.7 else rng.choice(segs)["id"]
    if groups is None:
        groups = mk_groups(rng, segs, root, collide=rng.random() < 0.06)
    fl = flags or {}
    case = {"segs": segs, "groups": groups, "cache": cache, "F": None,
            "ops": [sect_op(root, fl.get("use_convention", rng.random() < 0.5), fl.get("reorder", rng.random() < 0.5),
                            fl.get("optimise", rng.random() < 0.5))]}
    if more_ops:
        more_ops(rng, case)
    press = pressure(case)
    fail_frames = fail_frames and press >= 60 and len(case["ops"]) == 1   # both sides must fail well away from the threshold
    if fail_frames:
        lim = press - 12 - rng.randint(0, 10)
        case["F"] = lim + FRAME_OFFSET
    else:
        lim = press + 10 + rng.randint(0, 30)
        case["F"] = max(lim + FRAME_OFFSET, FRAME_FLOOR)
    return case


def new_seg(rng, segs):
    """a segment to append to the morphology: new id, existing parent, implied proximal exactly representable"""
    ids = [s["id"] for s in segs]
    i = rng.choice([max(ids) + 1, max(ids) + rng.randint(2, 50)] + [x for x in IDS_POOL if x not in ids][:3])
    s = {"id": i, "parent": rng.choice(ids), "frac": q(rng.choice([Fr(1), Fr(1), Fr(1, 2), Fr(0)])), "prox": None,
         "dist": rand_pt(rng)}
    if rng.random() < 0.3:
        s["prox"] = rand_pt(rng)
    v = Ref(segs + [s]).implied(i) if s["prox"] is None else None
    if s["prox"] is None and (v is None or any(c.denominator > 2 ** 24 or not exact_float(c) for c in v)):
        s["frac"] = [1, 1]
    return s


def add_history(rng, case):
    """1-4 further sectioning calls on the same object, interleaved with operations that read / refresh the cached
    adjacency list or change the cell"""
    segs = list(case["segs"])
    roots = [case["ops"][0]["root"]]
    gnames = [g["id"] for g in case["groups"]]
    for _ in range(rng.choice([1, 1, 2, 2, 3, 4])):
        r = rng.random()
        if r < 0.20:
            case["ops"].append({"op": "refresh"})
        elif r < 0.35:
            case["ops"].append({"op": "ensure"})
        elif r < 0.50:
            free = [n for n in GROUP_NAMES + ["basal", "trunk", "tuft"] if n not in gnames]
            if free:
                nm = rng.choice(free)
                gnames.append(nm)
                ids = [s["id"] for s in segs]
                case["ops"].append({"op": "addGroup", "group": {
                    "id": nm, "nlx": rng.choice([None, SECTION]), "members": rng.sample(ids, min(len(ids), rng.randint(0, 3))),
                    "includes": [], "notes": None}})
        elif r < 0.70:
            s = new_seg(rng, segs)
            segs.append(s)
            case["ops"].append({"op": "append", "seg": s})
            if rng.random() < 0.75:                        # ... and the cache is brought up to date (else: stale)
                case["ops"].append({"op": "refresh"})
        ids = [s["id"] for s in segs]
        r = rng.random()
        if r < 0.35:
            root = rng.choice(roots)                       # a root used before
        elif r < 0.75:
            root = rng.choice(ids)                         # any segment: sub-trees of earlier roots, other components
        else:
            tr = [s["id"] for s in segs if s["parent"] is None]
            root = rng.choice(tr or ids)
        roots.append(root)
        case["ops"].append(sect_op(root, rng.random() < 0.5, rng.random() < 0.5, rng.random() < 0.5))


def gen_case(rng, big=False):
    r = rng.random()
    n = rng.choice([1, 2, 3, 4, 5, 6, 8, 10, 12, 16, 20] + ([30, 40] if big else []))
    par = parents_random(rng, n, rng.choice([0.0, 0.3, 0.6, 0.85]))
    if r < 0.08 and n >= 4:                               # forest: a second component not reachable from the root
        par[rng.randrange(2, n)] = None
    segs = mk_segs(rng, par)
    cache = None
    r2 = rng.random()
    if r2 < 0.05:
        cache = "fresh"
    elif r2 < 0.10 and n >= 2:
        cache = {"prefix": rng.randrange(0, n)}           # computed when only the first m segments existed
    elif r2 < 0.12:
        ids = [s["id"] for s in segs]
        adj = []
        for p in rng.sample(ids, min(len(ids), rng.randint(0, 3))):
            adj.append([p, rng.sample(ids, rng.randint(0, min(3, len(ids))))])
        cache = {"adj": adj} if _adj_small(adj) else None
    root = None
    if rng.random() < 0.02:                               # malformed stream: a root id that is no segment
        root = max(s["id"] for s in segs) + 1 + rng.randrange(5)
    hist = root is None and not isinstance(cache, dict) and n <= 20 and rng.random() < 0.4
    return finish_case(rng, segs, root=root, cache=cache, fail_frames=(rng.random() < 0.04),
                       more_ops=add_history if hist else None)


def _adj_small(adj):
    """hand-made caches must unfold to something small and acyclic from every key (the real loop would not end)"""
    d = {p: cs for p, cs in adj}
    if len(d) != len(adj):
        return False

    def size(x, stack):
        if x in stack:
            return 10 ** 9
        return 1 + sum(size(c, stack | {x}) for c in d.get(x, []))
    return all(size(p, frozenset()) < 50 for p in d)


def exhaustive_cases(rng, nmax):
    """every parent structure (parent of segment k among 0..k-1) with <= nmax segments; ids, fractions, proximals,
    document order and flags drawn at random; every fourth one continues with further calls on the same object"""
    for n in range(1, nmax + 1):
        for tail in itertools.product(*[range(k) for k in range(1, n)]):
            par = [None] + list(tail)
            segs = mk_segs(rng, par)
            yield finish_case(rng, segs, groups=(mk_groups(rng, segs, segs[0]["id"]) if rng.random() < 0.3 else []),
                              more_ops=add_history if rng.random() < 0.25 else None)


def chain_case(rng, n, frac1=True):
    par = [None] + list(range(n - 1))
    segs = mk_segs(rng, par, ids=[7 + 3 * k for k in range(n)], p_explicit=0.02, shuffle=False,
                   p_frac1=1.0 if frac1 else 0.9)
    return finish_case(rng, segs, root=7, groups=[], flags={"reorder": True, "optimise": True})


def caterpillar_case(rng, depth, fail, frac1=True, small_frames=False):
    par, spine = [None], 0
    for _ in range(depth):
        a = len(par)
        par += [spine, spine]
        if rng.random() < 0.5:
            par.append(spine)
        spine = a + rng.randrange(2)
    segs = mk_segs(rng, par, p_explicit=0.1, p_frac1=1.0 if frac1 else 0.7, shuffle=False)
    c = finish_case(rng, segs, root=segs[0]["id"], groups=[], fail_frames=fail)
    if small_frames and len(c["ops"]) == 1:
        # far fewer frames than nested branch points (the recursive sectioniser needed depth + 16), yet >= 10 above
        # what the proximal chains need
        c["F"] = max(pressure(c) + 12 + FRAME_OFFSET, FRAME_FLOOR)
    return c


def fchain_case(rng, n, fail):
    """a long run of segments without explicit proximal attached at fraction 0 (a few at 1/2 near the top), a fork
    at its end and twigs along it: every fork child needs one get_actual_proximal frame per ancestor of the run"""
    par = [None] + list(range(n - 1))
    fr_ = [None] + [Fr(1, 2) if k <= 6 and rng.random() < 0.4 else Fr(0) for k in range(1, n)]
    twigs = sorted(rng.sample(range(1, n - 1), min(n - 2, rng.randint(0, 3))))
    for tw in twigs:
        par.append(tw)
        fr_.append(rng.choice([Fr(0), Fr(1)]))
    for _ in range(rng.randint(2, 3)):
        par.append(n - 1)
        fr_.append(rng.choice([Fr(0), Fr(0), Fr(1, 2)]))
    ids = rng.sample(range(0, 4 * len(par)), len(par))
    segs = []
    for k in range(len(par)):
        segs.append({"id": ids[k], "parent": None if par[k] is None else ids[par[k]],
                     "frac": [1, 1] if par[k] is None else q(fr_[k]),
                     "prox": rand_pt(rng) if par[k] is None else None, "dist": rand_pt(rng)})
    for s in segs:
        v = Ref(segs).implied(s["id"])
        if v is None or any(c.denominator > 2 ** 24 or not exact_float(c) for c in v):
            s["frac"] = [0, 1]
    root = ids[0] if rng.random() < 0.7 else ids[rng.randrange(1, max(2, n // 3))]
    return finish_case(rng, segs, root=root, groups=[], fail_frames=fail)


# ---------------------------------------------------------------- real library
def norm_case(case):
    """cases stored by earlier versions describe one call at top level"""
    if "ops" in case:
        return case
    c = {k: case[k] for k in ("segs", "groups", "cache", "F")}
    c["ops"] = [sect_op(case["root"], case.get("use_convention", True), case.get("reorder", True), case.get("optimise", True))]
    return c


def build_cell(case, upto=None):
    import neuroml as n
    m = n.Morphology(id="m")
    cell = n.Cell(id="c", morphology=m)
    for s in case["segs"][:upto]:
        m.segments.append(_mk_seg(s))
    for g in case["groups"]:
        m.segment_groups.append(_mk_group(g))
    return cell


def _mk_group(g):
    import neuroml as n
    sg = n.SegmentGroup(id=g["id"], neuro_lex_id=g["nlx"], notes=g.get("notes"))
    for x in g["members"]:
        sg.members.append(n.Member(segments=x))
    for x in g["includes"]:
        sg.includes.append(n.Include(segment_groups=x))
    return sg


def _mk_seg(s):
    import neuroml as n

    def pt(p):
        v = [float(fr(c)) for c in p]
        return n.Point3DWithDiam(x=v[0], y=v[1], z=v[2], diameter=v[3])
    seg = n.Segment(id=s["id"], name="s%d" % s["id"], distal=pt(s["dist"]))
    if s["prox"] is not None:
        seg.proximal = pt(s["prox"])
    if s["parent"] is not None:
        seg.parent = n.SegmentParent(segments=s["parent"], fraction_along=float(fr(s["frac"])))
    return seg


def odump(o):
    """generic canonical dump of a generateDS object (all schema members), floats as exact fractions"""
    if isinstance(o, list):
        return [odump(x) for x in o]
    if isinstance(o, float):
        return "%d/%d" % Fr(o).as_integer_ratio()
    if isinstance(o, (str, int, bool)) or o is None:
        return o
    if hasattr(o, "_get_members"):
        d = {"__class__": type(o).__name__}
        for mem in sorted(o._get_members(), key=lambda m: m.get_name()):
            v = getattr(o, mem.get_name(), None)
            if v is None or v == []:
                continue
            d[mem.get_name()] = odump(v)
        return d
    return repr(o)


def cache_dump(cell):
    """`cell.adjacency_list` as [[parent, [children]], ...] in dictionary order; None when there is no such attribute"""
    a = getattr(cell, "adjacency_list", None)
    if a is None:
        return None
    try:
        return [[k, list(v)] for k, v in a.items()]
    except Exception as e:  # noqa
        return "not-a-dict:%r" % (e,)


def snapshot(cell):
    return {"segs": [odump(s) for s in cell.morphology.segments],
            "groups": [odump(g) for g in cell.morphology.segment_groups],
            "cache": cache_dump(cell),
            "n_other": {k: (len(v) if isinstance(v, list) else (v is not None)) for k, v in vars(cell.morphology).items()
                        if k not in ("segments", "segment_groups", "parent_object_", "gds_collector_")}}


def _pf(x):
    a, b = x.split("/")
    return [int(a), int(b)]


def desc_of(snap_segs):
    """the case-description form of the segments of a snapshot (what the oracle's `Ref` reads)"""
    out = []
    for s in snap_segs:
        par = s.get("parent")
        pr = s.get("proximal")
        d = s.get("distal")
        out.append({"id": s.get("id"), "parent": None if par is None else par.get("segments"),
                    "frac": [1, 1] if par is None or par.get("fraction_along") is None else _pf(par["fraction_along"]),
                    "prox": None if pr is None else [_pf(pr[k]) for k in ("x", "y", "z", "diameter")],
                    "dist": [_pf(d[k]) for k in ("x", "y", "z", "diameter")]})
    return out


def _depth():
    f, d = sys._getframe(), 0
    while f is not None:
        d += 1
        f = f.f_back
    return d


def call_limited(fn, F):
    old = sys.getrecursionlimit()
    if F is not None:
        sys.setrecursionlimit(_depth() + F)
    try:
        return fn()
    finally:
        sys.setrecursionlimit(old)


def run_real(case):
    """the history on ONE real Cell object; a snapshot (segments, groups, cached adjacency list) around every
    operation; stops at the first operation that raises"""
    case = norm_case(case)
    cache = case["cache"]
    if isinstance(cache, dict) and "prefix" in cache:
        cell = build_cell(case, upto=cache["prefix"])
        cell.get_segment_adjacency_list()                # the cache is computed ...
        for s in case["segs"][cache["prefix"]:]:         # ... and the morphology grows afterwards
            cell.morphology.segments.append(_mk_seg(s))
    else:
        cell = build_cell(case)
        if cache == "fresh":
            cell.get_segment_adjacency_list()
        elif isinstance(cache, dict):
            cell.adjacency_list = {p: list(cs) for p, cs in cache["adj"]}
    steps = []
    for op in case["ops"]:
        before = snapshot(cell)
        res, side = "ok", None
        try:
            if op["op"] == "sect":
                call_limited(lambda: cell.create_unbranched_segment_group_branches(
                    op["root"], use_convention=op["use_convention"], reorder_segment_groups=op["reorder"],
                    optimise_segment_groups=op["optimise"]), case["F"])
            elif op["op"] == "refresh":
                cell.get_segment_adjacency_list()
            elif op["op"] == "ensure":
                try:                                     # a reader of the cache; what it computes is C13's subject
                    cell.get_graph()
                except Exception as e:  # noqa
                    side = type(e).__name__
            elif op["op"] == "append":
                cell.morphology.segments.append(_mk_seg(op["seg"]))
            elif op["op"] == "addGroup":
                cell.morphology.segment_groups.append(_mk_group(op["group"]))
        except RecursionError:
            res = "RecursionError"
        except Exception as e:  # noqa
            res = type(e).__name__
        after = snapshot(cell)
        alias = 0
        if res == "ok" and op["op"] == "sect":
            dist = {id(s.distal) for s in cell.morphology.segments}
            alias = sum(1 for s in cell.morphology.segments if s.proximal is not None and id(s.proximal) in dist)
        steps.append({"op": op, "res": res, "before": before, "after": after, "alias": alias, "side": side})
        if res != "ok":
            break
    return steps


# ---------------------------------------------------------------- model (Lean driver)
def frames_default():
    return sys.getrecursionlimit() - _depth() - 6


def _mseg(s):
    return {"id": s["id"], "parent": None if s["parent"] is None else [s["parent"], s["frac"]], "prox": s["prox"],
            "dist": s["dist"]}


def _mgroup(g):
    return {"id": g["id"], "nlx": g["nlx"], "members": g["members"], "includes": g["includes"]}


def model_line(case):
    case = norm_case(case)
    cache = None if case["cache"] is None else "fresh-now" if case["cache"] == "fresh" else case["cache"]
    ops = []
    if cache == "fresh-now":                               # get_segment_adjacency_list() before the history
        cache = {"prefix": len(case["segs"])}
    for o in case["ops"]:
        if o["op"] == "sect":
            ops.append({"op": "sect", "root": o["root"], "reorder": o["reorder"], "optimise": o["optimise"]})
        elif o["op"] == "append":
            ops.append({"op": "append", "seg": _mseg(o["seg"])})
        elif o["op"] == "addGroup":
            ops.append({"op": "addGroup", "group": _mgroup(o["group"])})
        else:
            ops.append({"op": o["op"]})
    F = case["F"] if case["F"] is not None else frames_default()
    return json.dumps({"segs": [_mseg(s) for s in case["segs"]], "groups": [_mgroup(g) for g in case["groups"]],
                       "cache": cache, "lim": max(F - FRAME_OFFSET, 0), "ops": ops})


def pstr(p):
    return None if p is None else ["%d/%d" % (c[0], c[1]) for c in p]


def canon_model(m):
    if m.get("res") != "ok":
        return {"res": m.get("res", "driver-error:" + json.dumps(m)[:80])}
    return {"res": "ok", "prox": [[s["id"], pstr(s["prox"])] for s in m["segs"]],
            "groups": [[g["id"], g["nlx"]] + ([None, None] if g["opaque"] else [g["members"], g["includes"]])
                       for g in m["groups"]],
            "cache": m.get("cache")}


def canon_real(r, m):
    """the same view of the real state after a step; `m` (model output) only says which groups are not modelled"""
    if r["res"] != "ok":
        return {"res": r["res"]}

    def pr(p):
        return None if p is None else [p["x"], p["y"], p["z"], p["diameter"]]
    opaque = [g["opaque"] for g in m["groups"]] if m.get("res") == "ok" else []
    gs = []
    for k, g in enumerate(r["after"]["groups"]):
        mem = [x["segments"] for x in g.get("members", [])]
        inc = [x["segment_groups"] for x in g.get("includes", [])]
        gs.append([g.get("id"), g.get("neuro_lex_id")] + ([None, None] if k < len(opaque) and opaque[k] else [mem, inc]))
    return {"res": "ok", "prox": [[s["id"], pr(s.get("proximal"))] for s in r["after"]["segs"]], "groups": gs,
            "cache": r["after"]["cache"]}


# ---------------------------------------------------------------- full-property oracle on the real code
def closure(groups_by_id, all_ids, name, stack=()):
    if name in stack:
        return set()
    g = groups_by_id.get(name)
    if g is None:
        return set(all_ids) if name == "all" else set()
    out = {x["segments"] for x in g.get("members", [])}
    for inc in g.get("includes", []):
        out |= closure(groups_by_id, all_ids, inc["segment_groups"], stack + (name,))
    return out


def strip_cache(snap):
    return {k: v for k, v in snap.items() if k != "cache"}


def oracle(segs, op, real):
    """list of (check, detail) failures of the property statement for ONE sectioning call, relative to the cell at
    the time of the call: `segs` = description of the morphology just before it (from the `before` snapshot)"""
    fails = []
    ref = Ref(segs)
    root = op["root"]
    reach = ref.reach(root)
    before, after = real["before"], real["after"]
    fresh = ref.adjacency()
    # what later readers of `cell.adjacency_list` may find without being misled: no cache (they recompute), the
    # cache the call found (same content), or the adjacency list of the morphology
    cache_fine = [None, before["cache"], fresh]
    if root not in ref.by_id:
        # malformed call (the root is no segment of the cell): the property does not apply; the call must refuse
        # and leave the cell alone (it may have computed the adjacency list)
        if real["res"] != "ValueError":
            fails.append(("bad-root-accepted", "root %s is no segment, outcome %s" % (root, real["res"])))
        elif strip_cache(before) != strip_cache(after):
            fails.append(("bad-root-changed-cell", ""))
        elif after["cache"] not in cache_fine:
            fails.append(("cache-corrupted", "adjacency_list %s -> %s" % (str(before["cache"])[:80], str(after["cache"])[:80])))
        return fails, reach
    if real["res"] != "ok":
        return [("exception:" + real["res"], "the call raised %s" % real["res"])], reach
    old_ids = [g.get("id") for g in before["groups"]]
    new = [g for g in after["groups"] if g.get("id") not in old_ids and g.get("neuro_lex_id") == SECTION]
    chains = [[x["segments"] for x in g.get("members", [])] for g in new]
    # partition
    flat = [x for ch in chains for x in ch]
    if reach is not None:
        if sorted(flat) != sorted(reach):
            miss = sorted(set(reach) - set(flat))
            extra = sorted(set(flat) - set(reach))
            dup = sorted({x for x in flat if flat.count(x) > 1})
            fails.append(("partition", "missing=%s extra=%s twice=%s" % (miss[:6], extra[:6], dup[:6])))
    par = {s["id"]: s["parent"] for s in segs}
    nk = lambda x: len(ref.kids.get(x, []))
    for g, ch in zip(new, chains):
        if not ch:
            fails.append(("empty-group", g.get("id")))
            continue
        if any(par.get(b) != a for a, b in zip(ch, ch[1:])):
            fails.append(("chain", "%s: %s" % (g.get("id"), ch[:8])))
        if any(nk(a) != 1 for a in ch[:-1]):
            fails.append(("inner-branch", "%s: %s" % (g.get("id"), ch[:8])))
        if not (ch[0] == root or nk(par.get(ch[0])) >= 2):
            fails.append(("not-maximal-top", "%s starts at %s" % (g.get("id"), ch[0])))
        if nk(ch[-1]) == 1:
            fails.append(("not-maximal-bottom", "%s ends at %s" % (g.get("id"), ch[-1])))
        first = [s for s in after["segs"] if s["id"] == ch[0]]
        if not first or first[0].get("proximal") is None:
            fails.append(("root-proximal-missing" if ch[0] == root else "first-proximal-missing",
                          "first segment %s of %s has no explicit proximal" % (ch[0], g.get("id"))))
        if g.get("includes"):
            fails.append(("new-group-includes", g.get("id")))
    # geometry / parents
    if len(before["segs"]) != len(after["segs"]):
        fails.append(("segments-added-or-removed", ""))
    for b, a in zip(before["segs"], after["segs"]):
        if b == a:
            continue
        bb = dict(b)
        aa = dict(a)
        pa = aa.pop("proximal", None)
        pb = bb.pop("proximal", None)
        if aa != bb:
            fails.append(("segment-changed", "segment %s: %s -> %s" % (b.get("id"), bb, aa)))
        elif pb is not None:
            fails.append(("proximal-moved", "segment %s" % b.get("id")))
        else:
            imp = ref.implied(b["id"])
            got = None if pa is None else [Fr(pa[k]) for k in ("x", "y", "z", "diameter")]
            if imp is None or got != imp:
                fails.append(("explicit-proximal-differs-from-implied", "segment %s: %s vs implied %s" % (b.get("id"), got, imp)))
    if len(before["segs"]) == len(after["segs"]):
        ref2 = Ref(desc_of(after["segs"]))
        for s in segs:
            i1, i2 = ref.implied(s["id"]), ref2.implied(s["id"])
            if i1 != i2:
                fails.append(("actual-proximal-changed", "segment %s: %s -> %s" % (s["id"], i1, i2)))
                break
            if i1 is not None:
                d = [fr(c) for c in s["dist"]]
                if sum((d[k] - i1[k]) ** 2 for k in range(3)) != sum((d[k] - i2[k]) ** 2 for k in range(3)):
                    fails.append(("length-changed", "segment %s" % s["id"]))
    if before["n_other"] != after["n_other"]:
        fails.append(("morphology-changed", "%s -> %s" % (before["n_other"], after["n_other"])))
    # the cached adjacency list: what later calls (this method again, get_graph) will read.  It must be the one the
    # call found (same content) or the adjacency list of the morphology (or be absent); WHICH of these is decided by
    # the model (correspondence), not by the property
    if after["cache"] not in cache_fine:
        fails.append(("cache-corrupted", "adjacency_list %s -> %s (the morphology says %s)" % (
            str(before["cache"])[:80], str(after["cache"])[:80], str(fresh)[:80])))
    # pre-existing groups (everything that was there before THIS call, earlier calls' groups included)
    bg, ag = before["groups"], after["groups"]
    olds_after = [g for g in ag if g.get("id") in old_ids]
    if len(olds_after) != len(bg):
        fails.append(("old-group-lost-or-duplicated", "%d -> %d" % (len(bg), len(olds_after))))
    else:
        if op["reorder"]:
            stay_b = [g.get("id") for g in bg if g.get("id") not in DEFAULT_GROUPS]
            stay_a = [g.get("id") for g in olds_after if g.get("id") not in DEFAULT_GROUPS]
            if stay_b != stay_a:
                fails.append(("old-group-order", "%s -> %s" % (stay_b, stay_a)))
            pairs = []
            rem = list(olds_after)
            for g in bg:                                   # match by id, first unused
                for h in rem:
                    if h.get("id") == g.get("id"):
                        pairs.append((g, h))
                        rem.remove(h)
                        break
        else:
            pairs = list(zip(bg, ag[:len(bg)]))
            if [g.get("id") for g in bg] != [g.get("id") for g in ag[:len(bg)]]:
                fails.append(("old-group-order", "old groups are not the prefix of the group list"))
        all_ids = [s["id"] for s in segs]
        gb = {}
        for g in bg:
            gb.setdefault(g.get("id"), g)
        ga = {}
        for g in ag:
            ga.setdefault(g.get("id"), g)
        for g, h in pairs:
            if g == h:
                continue
            clean = not g.get("includes") and len({x["segments"] for x in g.get("members", [])}) == len(g.get("members", []))
            if not op["optimise"] or clean:
                fails.append(("old-group-changed", "%s: %s -> %s" % (g.get("id"), json.dumps(g)[:150], json.dumps(h)[:150])))
                continue
            g2 = {k: v for k, v in g.items() if k not in ("members", "includes")}
            h2 = {k: v for k, v in h.items() if k not in ("members", "includes")}
            incb = {x["segment_groups"] for x in g.get("includes", [])}
            inca = {x["segment_groups"] for x in h.get("includes", [])}
            memb = {x["segments"] for x in g.get("members", [])}
            mema = {x["segments"] for x in h.get("members", [])}
            if g2 != h2 or incb != inca or not mema <= memb:
                fails.append(("old-group-changed", "%s (optimised): attributes / include set / members grew" % g.get("id")))
            elif closure(gb, all_ids, g.get("id")) != closure(ga, all_ids, g.get("id")):
                fails.append(("old-group-denotation-changed", "%s resolves to a different segment set" % g.get("id")))
    return fails, reach


def oracle_other(segs, op, real):
    """frame conditions of the other operations of a history (they are library calls too)"""
    fails = []
    before, after = real["before"], real["after"]
    fresh = Ref(segs).adjacency()
    if real["res"] != "ok":
        return [("exception:" + real["res"], "%s raised %s" % (op["op"], real["res"]))]
    if op["op"] in ("refresh", "ensure"):
        if strip_cache(before) != strip_cache(after):
            fails.append(("cache-reader-changed-cell", op["op"]))
        fine = [fresh] if op["op"] == "refresh" else [None, before["cache"], fresh]
        if after["cache"] not in fine:
            fails.append(("cache-corrupted", "%s: adjacency_list %s, the morphology says %s" % (op["op"], str(after["cache"])[:80], str(fresh)[:80])))
    return fails


def requested_names(groups, root, ref, nsegs):
    """the group names the call asks add_unbranched_segment_group for (documented scheme f"seg_group_{k}_seg_{id}",
    k = number of groups when the root group is made, afterwards number of groups - 1), chain heads in pre-order"""
    ids = list(groups)
    names = []

    def ask(nm):
        names.append(nm)
        if nm not in ids:
            ids.append(nm)
    ask("seg_group_%d_seg_%d" % (len(ids), root))
    todo = [root]
    guard = 0
    while todo and guard < 4 * nsegs + 10:
        guard += 1
        x = todo.pop()
        if isinstance(x, tuple):
            ask("seg_group_%d_seg_%d" % (len(ids) - 1, x[0]))
            x = x[0]
        ks = ref.kids.get(x, [])
        steps = 0
        while len(ks) == 1 and steps <= nsegs:
            steps += 1
            x = ks[0]
            ks = ref.kids.get(x, [])
        todo.extend((c,) for c in reversed(ks))
    return names


def classify(segs, op, real, fails, F=None):
    """deterministic key of a failing sectioning call (the input class first, then the clause)"""
    ref = Ref(segs)
    cb = real["before"]["cache"]
    if cb is not None and cb != ref.adjacency():
        return "C16:stale-adjacency-cache"
    old_ids = [g.get("id") for g in real["before"]["groups"]]
    if any(nm in old_ids for nm in requested_names(old_ids, op["root"], ref, len(segs))):
        return "C16:generated-name-collision"
    if real["res"] == "RecursionError":
        # by cause: does the deepest chain of implied proximals (the recursion of get_actual_proximal) exceed the
        # frames that were available?  otherwise the recursion is the sectioniser's own
        nest, pn, pa = ref.nest_and_pressure(op["root"])
        avail = (F if F is not None else frames_default()) - FRAME_OFFSET
        return "C16:recursion-limit:" + ("implied-proximal-chain" if pa > avail - 4 else "nested-branch-points")
    return "C16:" + fails[0][0]


def check_case(ctx, case, mout):
    case = norm_case(case)
    steps = run_real(case)
    msteps = mout.get("steps") if isinstance(mout, dict) else None
    ref0 = Ref(case["segs"])
    root0 = case["ops"][0]["root"]
    reach0 = ref0.reach(root0)
    nest = ref0.nest_and_pressure(root0)[0] if reach0 is not None else 0
    canon = {k: case[k] for k in ("segs", "groups", "cache", "F", "ops")}
    ctx.seen(canon, nontrivial=nest >= 1)
    nsect = sum(1 for o in case["ops"] if o["op"] == "sect")
    ctx.count("history:sect-calls=%s" % (nsect if nsect < 4 else "4+"))
    ctx.count("nest:%s" % (nest if nest < 3 else ("3-9" if nest < 10 else "10+")))
    ctx.count("n:%s" % (len(case["segs"]) if len(case["segs"]) < 8 else ("8-40" if len(case["segs"]) <= 40 else "41+")))
    ctx.count("cache:" + ("none" if case["cache"] is None else case["cache"] if isinstance(case["cache"], str) else sorted(case["cache"])[0]))
    if nest >= 17 and case["F"] is not None and case["F"] < nest + 16:
        ctx.count("nested-branch-points-exceed-frames(old code: RecursionError)")
    ctx.corr_evals += 1
    if msteps is None:
        ctx.disagree("section-model", case, "driver output", mout)
        msteps = []
    roots_before = []
    for k, st in enumerate(steps):
        op = st["op"]
        m = msteps[k] if k < len(msteps) else {"res": "model-has-no-such-step"}
        segs_now = desc_of(st["before"]["segs"])
        ctx.count("op:" + op["op"])
        # --- correspondence with the Lean model: the whole state of the cell object after the operation
        cm, cr = canon_model(m), canon_real(st, m)
        if cm != cr:
            ctx.disagree("section-model", {"case": case, "step": k}, cr, cm)
        if op["op"] != "sect":
            f2 = oracle_other(segs_now, op, st)
            if f2:
                ctx.fail("C16:" + f2[0][0], "; ".join("%s (%s)" % f for f in f2[:4]), case)
            continue
        ref = Ref(segs_now)
        ctx.count("res:" + st["res"])
        ctx.count("flags:reorder=%d,optimise=%d" % (op["reorder"], op["optimise"]))
        ctx.count("root:" + ("no-such-segment" if op["root"] not in ref.by_id else
                             "true-root" if ref.by_id[op["root"]]["parent"] is None else "inner"))
        if roots_before:
            rb = set()
            for r0 in roots_before:
                rb |= set(ref.reach(r0) or [])
            ctx.count("later-call:" + ("same-root" if op["root"] in roots_before else
                                       "inside-earlier-tree" if op["root"] in rb else "elsewhere"))
        roots_before.append(op["root"])
        cb = st["before"]["cache"]
        ctx.count("cache-at-call:" + ("none" if cb is None else "fresh" if cb == ref.adjacency() else "stale"))
        if st["alias"]:
            ctx.count("explicit-proximal-aliases-a-distal-object", st["alias"])
        if m.get("hyp"):
            ctx.count("theorem-hypotheses-hold(hypB)")
        # --- full-property oracle on the real code, relative to the cell at the time of this call
        fails, _ = oracle(segs_now, op, st)
        if fails:
            key = classify(segs_now, op, st, fails, case["F"])
            ctx.fail(key, "call %d of the history: " % k + "; ".join("%s (%s)" % f for f in fails[:4]), case)
        elif m.get("hyp") is False and st["res"] == "ok":
            ctx.count("ok-outside-theorem-hypotheses")
        if m.get("hyp") and fails and cm == cr:
            # model and code agree, the theorems' hypotheses hold (hypB), yet the oracle rejects: oracle and theorems
            # disagree about what the property says -- a defect of the machinery, surfaced as a broken obligation
            ctx.disagree("oracle-vs-theorems", {"case": case, "step": k}, [f[0] for f in fails], "hypB=true")
    if len(msteps) != len(steps):
        ctx.disagree("section-model", case, "%d steps" % len(steps), "%d steps" % len(msteps))
    return steps


# ---------------------------------------------------------------- corpus
def P(x, y, z, d):
    return [q(x), q(y), q(z), q(d)]


def S(i, parent, frac, prox, dist):
    return {"id": i, "parent": parent, "frac": q(frac), "prox": prox, "dist": dist}


Y = [S(10, None, 1, P(0, 0, 0, 2), P(10, 0, 0, 2)), S(3, 10, 1, None, P(20, 0, 0, 2)),
     S(7, 3, Fr(1, 2), None, P(20, 10, 0, 1)), S(8, 3, 1, None, P(30, 0, 0, 1)),
     S(20, 8, Fr(1, 4), None, P(40, 0, 0, 1)), S(21, 7, 0, None, P(20, 20, 0, 1))]


def _case(segs, root, groups=(), cache=None, F=120, reorder=True, optimise=True, use_convention=True, more=()):
    return {"segs": copy.deepcopy(segs), "groups": copy.deepcopy(list(groups)), "cache": cache, "F": F,
            "ops": [sect_op(root, use_convention, reorder, optimise)] + copy.deepcopy(list(more))}


def G(i, members=(), includes=(), nlx=None, notes=None):
    return {"id": i, "nlx": nlx, "members": list(members), "includes": list(includes), "notes": notes}


def _caterpillar(depth):
    segs = [S(0, None, 1, P(0, 0, 0, 1), P(1, 0, 0, 1))]
    for i in range(1, depth + 1):
        segs.append(S(2 * i, 2 * (i - 1), 1, None, P(i + 1, 0, 0, 1)))
        segs.append(S(2 * i + 1, 2 * (i - 1), 1, None, P(i, 1, 0, 1)))
    return segs


def _fchain(n):
    segs = [S(0, None, 1, P(0, 0, 0, 1), P(1, 0, 0, 1))]
    segs += [S(i, i - 1, 0, None, P(i + 1, 0, 0, 1)) for i in range(1, n)]
    segs += [S(n, n - 1, 0, None, P(0, 1, 0, 1)), S(n + 1, n - 1, 0, None, P(0, 2, 0, 1))]
    return segs


CORPUS = [
    # plain Y-shaped cell with default groups, duplicate members, an include; default flags
    _case(Y, 10, [G("soma_group", [10, 10]), G("all", [10, 3], ["soma_group"])]),
    # the same with every post-pass off
    _case(Y, 10, [G("soma_group", [10]), G("dend_a", [3, 7], nlx=SECTION, notes="kept")], reorder=False, optimise=False),
    # FIXED (fixes/C16-root-proximal.patch): inner segment without explicit proximal as the root
    _case(Y, 3, [], reorder=False, optimise=False),
    # KNOWN: a pre-existing group carrying a generated name is reused (here: not even marked as a section)
    _case(Y, 10, [G("seg_group_1_seg_7", [10])], reorder=False, optimise=False),
    _case(Y, 10, [G("seg_group_1_seg_10", [8], nlx=SECTION)]),
    # KNOWN: stale adjacency_list cache (computed when only the first two segments existed)
    _case(Y, 10, [], cache={"prefix": 2}),
    # KNOWN: hand-made cache with an empty child list: the segment is dropped
    _case(Y, 10, [], cache={"adj": [[10, [3]], [3, []]]}),
    # FIXED (fixes/C16-iterative-sectionise.patch): nested branch points beyond the available frames (60 frames,
    # 80 nested branch points): the recursive sectioniser raised RecursionError
    _case(_caterpillar(80), 0, [], F=60),
    # KNOWN: a long chain of implied proximals (fraction 0) above a branch point: get_actual_proximal recurses
    _case(_fchain(90), 0, [], F=70),
    # the same shapes with enough frames
    _case(_caterpillar(30), 0, [], F=80),
    _case(_fchain(30), 0, [], F=80),
    # HISTORIES on one cell object.  whole cell, the same root again, a sub-tree, with the cache the first call left
    _case(Y, 10, [G("soma_group", [10])], reorder=False, optimise=False,
          more=[sect_op(10, True, False, False), sect_op(3, False, True, True), {"op": "ensure"}, sect_op(8, True, False, True)]),
    # sub-tree first, then the whole cell; a reader of the cache and a refresh in between
    _case(Y, 7, [], more=[{"op": "ensure"}, sect_op(10), {"op": "refresh"}, sect_op(10, True, False, False)]),
    # the morphology grows between two calls and the cache is refreshed: the second call sees the new segment
    _case(Y, 10, [], more=[{"op": "append", "seg": S(30, 21, 1, None, P(20, 30, 0, 1))},
                           {"op": "append", "seg": S(31, 21, Fr(1, 2), None, P(30, 30, 0, 1))},
                           {"op": "refresh"}, sect_op(10, True, True, False)]),
    # KNOWN (stale cache, as a history): the same without the refresh -- the cache the FIRST call left is reused
    _case(Y, 10, [], more=[{"op": "append", "seg": S(30, 21, 1, None, P(20, 30, 0, 1))},
                           {"op": "append", "seg": S(31, 21, Fr(1, 2), None, P(30, 30, 0, 1))},
                           sect_op(10, True, True, False)]),
    # a user group added between two calls; second call from an inner segment with every pass on
    _case(Y, 10, [G("all", [10], [])], more=[{"op": "addGroup", "group": G("apical", [20, 21], nlx=SECTION)}, sect_op(8)]),
]
CORPUS_THOROUGH = [
    # FIXED, at the interpreter's own default limit: 1100 nested branch points
    _case(_caterpillar(1100), 0, [], F=None, reorder=False, optimise=False),
]


def run_cases(ctx, cases):
    cases = [norm_case(c) for c in cases]
    lines = [model_line(c) for c in cases]
    rc, out = fw.run_driver("C16", lines)
    if rc != 0 or len(out) != len(lines):
        ctx.disagree("driver", "driver failed rc=%s (%d/%d lines)" % (rc, len(out), len(lines)), "\n".join(out[-3:])[-600:], None)
        mouts = [{"res": "driver-error"}] * len(lines)
    else:
        mouts = []
        for l in out:
            try:
                mouts.append(json.loads(l))
            except ValueError:
                mouts.append({"res": "driver-error:" + l[:80]})
    for c, m in zip(cases, mouts):
        check_case(ctx, c, m)
        if len(c["segs"]) <= 8:
            ctx.sample({"segs": [[s["id"], s["parent"], "%d/%d" % tuple(s["frac"]), s["prox"] is not None] for s in c["segs"]],
                        "groups": [g["id"] for g in c["groups"]], "cache": c["cache"],
                        "ops": [[o["op"]] + ([o["root"], o["use_convention"], o["reorder"], o["optimise"]] if o["op"] == "sect" else [])
                                for o in c["ops"]]})


def measure_frame_offset(ctx):
    """re-measure, on the tree under test, how many frames the real call needs beyond what the model counts for a
    chain of implied proximals (the only recursion left): smallest F for which _fchain(24) goes through minus the
    model's need.  Recorded in the evidence; generated cases stay >= 10 frames away from the threshold."""
    segs = _fchain(24)
    need = Ref(segs).nest_and_pressure(0)[2]
    lo = None
    for F in range(need - 4, need + 24):
        st = run_real(_case(segs, 0, [], F=F, reorder=False, optimise=False))
        if st[-1]["res"] == "ok":
            lo = F
            break
    ctx.extra["frame_offset_measured"] = None if lo is None else lo - need
    ctx.extra["frame_offset_used"] = FRAME_OFFSET
    if lo is None or abs((lo - need) - FRAME_OFFSET) > 5:
        ctx.notes.append("frame accounting drifted: measured offset %s, harness uses %d" % (None if lo is None else lo - need, FRAME_OFFSET))


def run(ctx):
    rng = ctx.rng
    thorough = ctx.tier == "thorough"
    cases = [copy.deepcopy(c) for c in CORPUS]
    if thorough:
        cases += [copy.deepcopy(c) for c in CORPUS_THOROUGH]
    # exhaustive small trees
    nmax = 7 if thorough else 6
    cases += list(exhaustive_cases(rng, nmax))
    ctx.extra["exhaustive"] = True
    ctx.extra["exhaustive_scope"] = "all parent structures (parent(k) in 0..k-1) with <= %d segments" % nmax
    # random cells and histories
    for _ in range(ctx.n(1200, 12000) * ctx.search_mult):
        cases.append(gen_case(rng, big=thorough))
    # caterpillars: proximal chains on both sides of the frame limit; nesting far deeper than the frames available;
    # chains longer than the recursion limit
    for _ in range(ctx.n(6, 40)):
        cases.append(caterpillar_case(rng, rng.randint(20, 120), fail=rng.random() < 0.5, frac1=rng.random() < 0.5,
                                      small_frames=rng.random() < 0.5))
    for _ in range(ctx.n(8, 40)):
        cases.append(fchain_case(rng, rng.randint(65, 140), fail=rng.random() < 0.5))
    cases.append(chain_case(rng, ctx.n(1300, 5000)))
    cases.append(chain_case(rng, ctx.n(300, 1500), frac1=False))
    measure_frame_offset(ctx)
    run_cases(ctx, cases)


def regenerate(ctx):
    """translator step: Cell.__sectionise / Cell.create_unbranched_segment_group_branches of the CURRENT working tree
    (both helper_methods.py and nml.py) -> lean/NmlVerif/Gen/Section.lean; Props/C16Gen.lean proves the result equal
    to the hand model"""
    tdir = os.path.join(fw.VERIF, "translators")
    if tdir not in sys.path:
        sys.path.insert(0, tdir)
    import py2lean_section
    return py2lean_section.regenerate(fw.REPO, os.path.join(fw.LEAN, "NmlVerif", "Gen", "Section.lean"))


def replay(ctx, payload):
    case = payload["case"]
    if isinstance(case, dict) and "case" in case and "step" in case:
        case = case["case"]
    run_cases(ctx, [case])
    return {"fails": bool(ctx.failures or ctx.corr_disagreements), "failures": ctx.failures,
            "disagreements": ctx.corr_disagreements}
