"""C17 - resolving external morphology/biophysics references embeds independent copies.

Tie: hand model (lean/NmlVerif/Model/FixExternal.lean) + correspondence on generated documents (0-5 cells, every mix
of embedded / referenced / dangling morphology and biophysics, shared references, definitions in the document or in
included files materialised on disk, three ways of creating the objects) for overwrite=True and overwrite=False, with
object identities compared through first-visit numbering; the same runs are judged by a harness-side oracle that
states the property on the real objects (`is`, `id()`, mutation of copies); `NeuroMLXMLParser.parse` is exercised
as a caller on files.
"""
import copy
import itertools
import json
import os
import shutil
import sys
import tempfile

import fw

LEAN_PROPS = ["NmlVerif.Props.C17", "NmlVerif.Props.C17Graph", "NmlVerif.Props.C17Gen"]
# helper theorems that carry the argument (audited for axioms as well)
EXTRA_THEOREMS = ["NmlVerif.PyHeap.deepcopy_spec", "NmlVerif.PyHeap.visit_spec", "NmlVerif.PyHeap.deepcopy_total",
                  "NmlVerif.PyHeap.CopySpec.new_refs", "NmlVerif.PyHeap.CopySpec.copy_of", "NmlVerif.PyHeap.CopySpec.injective",
                  "NmlVerif.FixExternalH.fixSlot_spec", "NmlVerif.FixExternalH.fixInPlace_spec",
                  "NmlVerif.FixExternalH.copy_allCells_new", "NmlVerif.FixExternalH.allCells_range_of_wf",
                  "NmlVerif.FixIR.hand_fix_run", "NmlVerif.FixIR.rest_run", "NmlVerif.FixIR.fixSlot_run",
                  "NmlVerif.FixIR.forItems_sim",
                  "NmlVerif.FixExternal.cellsOnly_resolved", "NmlVerif.FixExternal.cellsOnly_independent",
                  "NmlVerif.FixExternal.cellsOnly_no_overwrite_equiv", "NmlVerif.FixExternal.cellsOnly_keyerror_at_first_dangling",
                  "NmlVerif.FixExternal.cellsOnly_no_overwrite_frame", "NmlVerif.FixExternal.cellsOnly_every_cell_partial"]
LEVEL = "proof"
RULE = ("random documents: 0-5 cells (thorough 0-8) + 0-2 Cell2CaPools (cells like the others since the repair), per cell and kind one of {nothing, embedded, "
        "embedded+attribute, reference to a local / included / nested-included / undefined id}, 0-3 local definitions and "
        "0-3 included files - XML or HDF5 (.nml.h5 / .h5, with or without a network, read with optimized=True) - (ids collide on purpose: same id locally "
        "and in files, in two included files, twice in one list, same id for both kinds; ids that are not text: '' / 0 / 5 vs '5' / "
        "a definition without id), hrefs plain / './' / 'sub/' / '../' / absolute / missing, two working directories, objects built "
        "by constructors / read back from a file (parent_object_, shared gds_collector_) / mixed / aliased / object GRAPHS (one "
        "object in two places: definition = embedded element, one element in two cells, one Segment / list / MembraneProperties in "
        "two elements, an alias inside one element, a cell listed twice; back references as the reader sets them, on the "
        "definitions only, or pointing at the document from inside an element); each case is run with overwrite=True and "
        "overwrite=False and compared with TWO models (tree model of the first pass; object-graph heap model, which is also "
        "proved equal to the program translated from the source) incl. the number of objects every deepcopy call allocated. "
        "Non-trivial = at least two cells share one reference that resolves; distinct = distinct canonical (case, overwrite) "
        "descriptions. Second stream: NeuroMLXMLParser.parse on files with nested includes and one population per cell (the "
        "handler must be given resolved cells).")
TRUST = [
    "object-graph model FixExternalH.fixExternal: proved equal (Props/C17Gen.lean) to the program py2lean_fixexternal.py translates "
    "from neuroml/utils.py on every run; the meaning of the ~30 statement/expression forms of Model/FixIR.lean is hand-given",
    "tree model FixExternal.fixExternal (first pass): hand-written, tied by correspondence only",
    "copy.deepcopy is modelled (Model/PyHeap.lean: memo, depth-first, an object before its contents), not verified; compared "
    "with CPython's on every case: resulting graph and number of objects allocated",
    "reading an included file is modelled as allocation of the object graph the same loader produced for the harness",
]
ASSUMPTIONS = [
    "graph theorems: none about the shape of the object graph; WF (no dangling reference) and 'the document is an object of the "
    "heap' where stated (c17g_overwrite_frame, c17g_copies_independent_overwrite); tree theorems (Props/C17.lean): doc.ids.Nodup",
    "what the heap model does not see: objects that are neither generateDS/neuroml objects, lists, dicts nor lxml elements are opaque "
    "primitives; attributes whose value is None are omitted except the seven the function reads or writes",
    "every <include> of the document names a readable NeuroML file (XML or HDF5, with or without a network), else the loader calls "
    "sys.exit() (modelled, theorem c17_unreadable_include; outside the property); includes of included files are not followed by the function",
    "ids are compared the way Python compares them for str / int / None (bool, float ids are not generated)",
]

SKIP = ("parent_object_", "gds_collector_", "gds_elementtree_node_")
KNOWN_DOC_LISTS = ("includes", "morphology", "biophysical_properties", "cells", "cell2_ca_poolses")
IDS = ["m1", "m2", "b1", "x", "a b", "m-1.x", "ü"]
ODD_IDS = ["", 5, 0, "5", "None"]          # empty text, non-text ids (equal to their text only after a trip through a file)


def GDS():
    import neuroml.nml.nml as m
    return m.GeneratedsSuper


# ---------------------------------------------------------------- building real objects from a case description
def mk_morph(spec):
    import neuroml as n
    m = n.Morphology(id=spec["id"], notes=spec["tag"])
    for i in range(spec.get("nseg", 1)):
        s = n.Segment(id=i, name="s%d" % i,
                      proximal=n.Point3DWithDiam(x=float(i), y=0.0, z=0.0, diameter=1.0),
                      distal=n.Point3DWithDiam(x=float(i + 1), y=0.0, z=0.0, diameter=0.5))
        if i > 0:
            s.parent = n.SegmentParent(segments=i - 1)
        m.segments.append(s)
    for g in range(spec.get("ngrp", 0)):
        sg = n.SegmentGroup(id="g%d" % g)
        sg.members.append(n.Member(segments=0))
        m.segment_groups.append(sg)
    return m


def mk_bio(spec):
    import neuroml as n
    mp = n.MembraneProperties()
    for i in range(spec.get("nchan", 1)):
        mp.channel_densities.append(n.ChannelDensity(id="cd%d" % i, ion_channel="na", cond_density="1 mS_per_cm2",
                                                     erev="50 mV", ion="na"))
    mp.specific_capacitances.append(n.SpecificCapacitance(value="1 uF_per_cm2"))
    ip = n.IntracellularProperties()
    ip.resistivities.append(n.Resistivity(value="0.1 kohm_cm"))
    return n.BiophysicalProperties(id=spec["id"], notes=spec["tag"], membrane_properties=mp, intracellular_properties=ip)


def mk_cell(spec):
    import neuroml as n
    cls = n.Cell2CaPools if spec.get("kind") == "Cell2CaPools" else n.Cell
    c = cls(id=spec["id"], notes=spec.get("notes"))
    c.morphology_attr = spec["m_attr"]
    c.biophysical_properties_attr = spec["b_attr"]
    if spec["m_elem"] is not None:
        c.morphology = mk_morph(spec["m_elem"])
    if spec["b_elem"] is not None:
        c.biophysical_properties = mk_bio(spec["b_elem"])
    return c


def sub_root(s, root):
    return s.replace("{ROOT}", root)


def mk_doc(d, root, with_net=False):
    import neuroml as n
    doc = n.NeuroMLDocument(id=d.get("id", "doc"))
    for h in d["includes"]:
        doc.includes.append(n.IncludeType(href=sub_root(h, root)))
    for s in d["morphs"]:
        doc.morphology.append(mk_morph(s))
    for s in d["bios"]:
        doc.biophysical_properties.append(mk_bio(s))
    for s in d["cells"]:
        if s.get("kind") == "Cell2CaPools":
            doc.cell2_ca_poolses.append(mk_cell(s))
        else:
            doc.cells.append(mk_cell(s))
    if with_net or d.get("net"):
        net = n.Network(id="net")
        comp = d["cells"][0]["id"] if d.get("cells") else "none"
        net.populations.append(n.Population(id="pop", component=comp, size=2))
        if with_net == "all":
            # one population per cell, alternately a populationList with an instance and a plain sized one: parse()
            # hands each cell object to the network handler
            for k, c in enumerate(d.get("cells", [])):
                if k % 2 == 0:
                    pop = n.Population(id="pop_%s" % c["id"], component=c["id"], type="populationList", size=1)
                    pop.instances.append(n.Instance(id=0, location=n.Location(x=0.0, y=0.0, z=0.0)))
                else:
                    pop = n.Population(id="pop_%s" % c["id"], component=c["id"], size=2)
                net.populations.append(pop)
        doc.networks.append(net)
    return doc


def materialise(case, root):
    """write the include files; return {normalised relative path: file spec}"""
    import neuroml.writers as w
    for sd in ("sub", "other", "work"):
        os.makedirs(os.path.join(root, sd), exist_ok=True)
    table = {}
    for f in case["files"]:
        h5 = f["path"].endswith(".h5")
        doc = mk_doc({"id": "inc", "includes": f.get("includes", []), "morphs": f["morphs"], "bios": f["bios"],
                      "cells": f.get("cells", [])}, root, with_net=(h5 and f.get("net", True)))
        p = os.path.join(root, f["path"])
        if h5:
            # with or without a network in the file (before fixes/C07-parser-builder-reuse.patch the optimized HDF5 loader
            # raised AttributeError on a file without one)
            import contextlib
            import io
            with contextlib.redirect_stdout(io.StringIO()):
                w.NeuroMLHdf5Writer.write(doc, p)
        else:
            w.NeuroMLWriter.write(doc, p)
        table[os.path.normpath(f["path"])] = f
    return table


def build_input(case, root):
    """the document object handed to the function, created the way case['origin'] says; returns (doc, keepalive)"""
    import neuroml.loaders as L
    import neuroml.writers as w
    origin = case.get("origin", "built")
    doc = mk_doc(case["doc"], root)
    keep = []
    if origin == "loaded":
        p = os.path.join(root, "work", "input_doc.nml")
        w.NeuroMLWriter.write(doc, p)
        doc = L.read_neuroml2_file(p)
    elif origin == "aliased":
        # the same object in two places: a cell embeds the very object that is also a top-level definition
        byid = {c.id: c for c in list(doc.cells) + list(doc.cell2_ca_poolses)}
        for spec in case["doc"]["cells"]:
            if spec.get("alias_m") and doc.morphology:
                byid[spec["id"]].morphology = doc.morphology[0]
            if spec.get("alias_b") and doc.biophysical_properties:
                byid[spec["id"]].biophysical_properties = doc.biophysical_properties[-1]
    elif origin == "graph":
        graphify(doc, case.get("graph", {}))
    elif origin == "mixed":
        # constructor-built document whose top-level definitions were read from another document
        p = os.path.join(root, "work", "donor_doc.nml")
        w.NeuroMLWriter.write(doc, p)
        donor = L.read_neuroml2_file(p)
        keep.append(donor)
        doc.morphology = list(donor.morphology)
        doc.biophysical_properties = list(donor.biophysical_properties)
    return doc, keep


def set_parents(o, parent, seen=None):
    """parent_object_ the way the XML reader sets it: every object points back to its container"""
    G = GDS()
    seen = seen if seen is not None else set()
    if id(o) in seen:
        return
    seen.add(id(o))
    if isinstance(o, G):
        if parent is not None:
            o.parent_object_ = parent
        for k, v in list(o.__dict__.items()):
            if k in SKIP:
                continue
            if isinstance(v, G):
                set_parents(v, o, seen)
            elif isinstance(v, list):
                for x in v:
                    if isinstance(x, G):
                        set_parents(x, o, seen)


def graphify(doc, g):
    """turn a constructor-built document into an object GRAPH: shared sub-objects, shared lists, back references, one
    object in two places (flags in `g`; each is applied when the document has what it needs)"""
    ms = [m for m in doc.morphology]
    bs = [b for b in doc.biophysical_properties]
    cells = list(doc.cells)
    if g.get("def_in_cell") and ms and cells:
        # a cell embeds the very object that is also a top-level definition
        cells[-1].morphology = ms[0]
    if g.get("def_in_cell_b") and bs and cells:
        cells[0].biophysical_properties = bs[-1]
    if g.get("share_seg") and len(ms) >= 2 and ms[0].segments:
        ms[1].segments.insert(0, ms[0].segments[0])          # one Segment object in two morphologies
    if g.get("share_list") and len(ms) >= 2:
        ms[1].segment_groups = ms[0].segment_groups           # one list object in two morphologies
    if g.get("share_mp") and len(bs) >= 2:
        bs[1].membrane_properties = bs[0].membrane_properties
    if g.get("share_point") and ms and len(ms[0].segments) >= 2:
        ms[0].segments[1].proximal = ms[0].segments[0].distal  # alias inside one element
    if g.get("two_cells_one_elem") and len(cells) >= 2 and cells[0].morphology is not None:
        cells[1].morphology = cells[0].morphology
    if g.get("cell_twice") and cells:
        doc.cells.append(cells[0])
    if g.get("parents") == "wellformed":
        set_parents(doc, None)
    elif g.get("parents") == "defs-only":
        for e in ms + bs:
            e.parent_object_ = doc
    elif g.get("parents") == "foreign" and ms and ms[0].segments:
        # a contained object points at the document although its element does not: deepcopy follows it
        ms[0].segments[-1].parent_object_ = doc


# ---------------------------------------------------------------- snapshots
def osnap(o, label=""):
    """generateDS object -> {"o": id, "p": id(parent_object_)|None, "s": payload, "k": contained objects}; lists are flattened"""
    G = GDS()
    prims, kids = [], []
    for k, v in o.__dict__.items():
        if k in SKIP:
            continue
        if isinstance(v, G):
            kids.append(osnap(v, k))
        elif isinstance(v, list):
            plain = []
            for j, x in enumerate(v):
                if isinstance(x, G):
                    kids.append(osnap(x, "%s[%d]" % (k, j)))
                else:
                    plain.append(repr(x))
            if plain:
                prims.append("%s=[%s]" % (k, ",".join(plain)))
        elif v is not None:
            prims.append("%s=%r" % (k, v))
    par = getattr(o, "parent_object_", None)
    return {"o": id(o), "p": (id(par) if par is not None else None),
            "s": "%s:%s(%s)" % (label, type(o).__name__, ";".join(prims)), "k": kids}


def prims_of(o, drop=()):
    G = GDS()
    out = []
    for k, v in o.__dict__.items():
        if k in SKIP or k in drop or isinstance(v, (G, list)) or v is None:
            continue
        out.append("%s=%r" % (k, v))
    return "%s(%s)" % (type(o).__name__, ";".join(out))


def enc_id(v):
    return enc(v) if v is not None else "N"


def esnap(e):
    return {"id": enc_id(e.id), "obj": osnap(e, "")}


def csnap(c):
    par = getattr(c, "parent_object_", None)
    return {"o": id(c), "p": (id(par) if par is not None else None),
            "s": prims_of(c, drop=("morphology_attr", "biophysical_properties_attr")),
            "m": {"attr": enc(c.morphology_attr), "elem": esnap(c.morphology) if c.morphology is not None else None},
            "b": {"attr": enc(c.biophysical_properties_attr),
                  "elem": esnap(c.biophysical_properties) if c.biophysical_properties is not None else None}}


def dsnap(doc):
    """typed snapshot of a document, raw id()s as identities (schema of Drivers/C17.lean)"""
    G = GDS()
    other = []
    for k, v in doc.__dict__.items():
        if k in SKIP or k in KNOWN_DOC_LISTS:
            continue
        if isinstance(v, G):
            other.append(osnap(v, k))
        elif isinstance(v, list):
            for j, x in enumerate(v):
                if isinstance(x, G):
                    other.append(osnap(x, "%s[%d]" % (k, j)))
    incs = []
    for i in doc.includes:
        par = getattr(i, "parent_object_", None)
        incs.append({"o": id(i), "p": (id(par) if par is not None else None), "href": i.href})
    return {"o": id(doc), "s": prims_of(doc), "includes": incs,
            "morphs": [esnap(m) for m in doc.morphology], "bios": [esnap(b) for b in doc.biophysical_properties],
            "cells": [csnap(c) for c in doc.cells], "cells2": [csnap(c) for c in doc.cell2_ca_poolses], "other": other}


def canon(d, table, drop_parents=False):
    """renumber identities: known ones through `table`, new ones by first visit; parents resolved afterwards.
    Mutates and extends `table` (a copy is made by the caller when needed)."""
    d = copy.deepcopy(d)
    pend = []

    def num(i):
        if i not in table:
            table[i] = len(table)
        return table[i]

    def obj(o):
        o["o"] = num(o["o"])
        pend.append(o)
        for k in o["k"]:
            obj(k)

    def cell(c):
        c["o"] = num(c["o"])
        pend.append(c)
        for s in ("m", "b"):
            if c[s]["elem"] is not None:
                obj(c[s]["elem"]["obj"])

    d["o"] = num(d["o"])
    for i in d["includes"]:
        i["o"] = num(i["o"])
        pend.append(i)
    for e in d["morphs"]:
        obj(e["obj"])
    for e in d["bios"]:
        obj(e["obj"])
    for c in d["cells"]:
        cell(c)
    for c in d["cells2"]:
        cell(c)
    for o in d["other"]:
        obj(o)
    for x in pend:
        if x["p"] is not None:
            x["p"] = None if drop_parents else num(x["p"])
    return d


def shape(o):
    """identity-free structure of an osnap"""
    return [o["s"], [shape(k) for k in o["k"]]]


def walk_ids(o, seen, follow_parent):
    """ids of every generateDS object and list reachable from `o` (lists included: their identity matters too)"""
    G = GDS()
    stack = [o]
    out = []
    while stack:
        x = stack.pop()
        if id(x) in seen:
            out.append(id(x))       # visited twice: reported to the caller through duplicates
            continue
        seen[id(x)] = x
        out.append(id(x))
        if isinstance(x, list):
            stack.extend(v for v in x if isinstance(v, (G, list)))
        else:
            for k, v in x.__dict__.items():
                if k in ("gds_collector_", "gds_elementtree_node_"):
                    continue
                if k == "parent_object_":
                    if follow_parent and v is not None:
                        stack.append(v)
                    continue
                if isinstance(v, (G, list)):
                    stack.append(v)
    return out


def full_dump(doc):
    """identity-level dump of everything below a document (for 'the input is unchanged')"""
    G = GDS()

    def go(x):
        if isinstance(x, list):
            return ["L", id(x), [go(v) if isinstance(v, (G, list)) else repr(v) for v in x]]
        d = []
        for k, v in x.__dict__.items():
            if k in ("gds_collector_", "gds_elementtree_node_"):
                continue
            if k == "parent_object_":
                d.append([k, id(v) if v is not None else None])
            elif isinstance(v, (G, list)):
                d.append([k, go(v)])
            else:
                d.append([k, repr(v)])
        return ["O", id(x), type(x).__name__, d]
    return go(doc)



# ---------------------------------------------------------------- object-graph snapshots (Model/PyHeap.lean)
KEEP_NONE = ("parent_object_", "id", "morphology_attr", "morphology", "biophysical_properties_attr",
             "biophysical_properties", "href")


def enc(v):
    """a primitive value as tagged text (type and value: `5` and `'5'` differ); None stays None"""
    if v is None:
        return None
    if isinstance(v, str):
        return "s:" + v
    if isinstance(v, bool):
        return "b:%r" % v
    if isinstance(v, int):
        return "i:%d" % v
    if isinstance(v, float):
        return "f:%r" % v
    return "o:%s" % type(v).__name__


def is_node(v):
    """does the heap model treat `v` as an object with identity (everything else is an opaque primitive)"""
    if isinstance(v, (list, dict)):
        return True
    mod = type(v).__module__ or ""
    if mod.startswith("neuroml") and hasattr(v, "__dict__"):
        return True
    return mod.startswith("lxml") and type(v).__name__ == "_Element"


def node_of(o):
    """(class text, [(field, python value)]) in the order deepcopy walks them"""
    if isinstance(o, list):
        return "list", [("", x) for x in o]
    if isinstance(o, dict):
        return "dict", [(repr(k), x) for k, x in o.items()]
    if hasattr(o, "__dict__"):
        return type(o).__name__, [(k, v) for k, v in o.__dict__.items() if v is not None or k in KEEP_NONE]
    return "lxml:" + str(getattr(o, "tag", "?")), []


def hsnap(roots, table, objs, nodes):
    """extend the heap snapshot by everything reachable from `roots`: table = {id(obj): index}, objs = [obj] (keeps the
    objects alive so that id()s stay unique), nodes = {index: {"c":..,"f":[[name, val]]}} is (re)written for every
    object visited in this walk.  New objects are numbered in depth-first first-visit order."""
    seen = set()

    def num(o):
        i = table.get(id(o))
        if i is None:
            i = len(objs)
            table[id(o)] = i
            objs.append(o)
        return i

    stack = [("root", r) for r in reversed(roots)]
    # iterative depth-first walk, object before its contents, contents in field order
    while stack:
        _, o = stack.pop()
        i = num(o)
        if i in seen:
            continue
        seen.add(i)
        cls, fields = node_of(o)
        fl = []
        kids = []
        for k, v in fields:
            if is_node(v):
                fl.append([k, ("ref", v)])
                kids.append(v)
            else:
                fl.append([k, enc(v)])
        nodes[i] = {"c": cls, "f": fl}
        for v in reversed(kids):
            if table.get(id(v)) is None or table[id(v)] not in seen:
                stack.append(("kid", v))
    return seen


def hfinish(nodes, table):
    """resolve the ("ref", obj) placeholders to indices"""
    out = {}
    for i, nd in nodes.items():
        out[i] = {"c": nd["c"], "f": [[k, (table[id(v[1])] if isinstance(v, tuple) else v)] for k, v in nd["f"]]}
    return out


def heap_of(root):
    """fresh snapshot of the graph below `root`: ([node] with root at 0, table, objs)"""
    table, objs, nodes = {}, [], {}
    hsnap([root], table, objs, nodes)
    nd = hfinish(nodes, table)
    return [nd[i] for i in range(len(objs))], table, objs


def canon_heap(nodes, roots, n_old):
    """renumber the objects >= n_old of a model heap by depth-first first visit from `roots` (old objects keep their
    numbers); returns {new index: node} of everything reachable"""
    ren, seen, out = {}, set(), {}
    nxt = [n_old]

    def num(i):
        if i < n_old:
            return i
        if i not in ren:
            ren[i] = nxt[0]
            nxt[0] += 1
        return ren[i]

    stack = list(reversed(roots))
    while stack:
        i = stack.pop()
        if i in seen:
            continue
        seen.add(i)
        j = num(i)
        nd = nodes[i] if 0 <= i < len(nodes) else {"c": "<dangling>", "f": []}
        kids = [v for _, v in nd["f"] if isinstance(v, int) and not isinstance(v, bool)]
        out[j] = (i, nd)
        for v in reversed(kids):
            if v not in seen:
                stack.append(v)
    # numbering must follow the visit order: assign in a second pass in visit order
    res = {}
    for j, (i, nd) in out.items():
        res[j] = {"c": nd["c"], "f": [[k, (num(v) if isinstance(v, int) and not isinstance(v, bool) else v)] for k, v in nd["f"]]}
    return res


class DeepcopySpy:
    """counts the objects each top-level `copy.deepcopy` call made during the real function (structural cost measure:
    a change that copies more than the element - e.g. the document behind `parent_object_` - shows here without a
    timeout).  Recursive calls inside `copy` use their own reference and are not intercepted."""

    def __init__(self):
        self.counts = []

    def __enter__(self):
        self.orig = copy.deepcopy
        spy = self

        def deepcopy(x, memo=None, _nil=[]):
            if memo is None:
                memo = {}
            n_before = len(memo)
            keep0 = memo.get(id(memo))
            k_before = len(keep0) if isinstance(keep0, list) else 0
            r = spy.orig(x, memo)
            # only what this call added is looked at (dicts keep insertion order; a memo that is - wrongly - kept
            # between calls can be very large)
            keep = memo.get(id(memo), [])
            skip = {id(memo)}
            for o in keep[k_before:]:
                d = getattr(o, "__dict__", None)
                if d is not None:
                    skip.add(id(d))
            n_new = len(memo) - n_before
            cnt = 0
            for k, v in itertools.islice(reversed(memo.items()), n_new):
                if k not in skip and is_node(v):
                    cnt += 1
            spy.counts.append(cnt)
            return r
        copy.deepcopy = deepcopy
        return self

    def __exit__(self, *a):
        copy.deepcopy = self.orig


# ---------------------------------------------------------------- reference resolution (harness side)
def resolve_href(case, table, href):
    """file spec that `read_neuroml2_file(href)` reads from the case's working directory, or None"""
    if href.startswith("{ROOT}/"):
        p = os.path.normpath(href[len("{ROOT}/"):])
    else:
        p = os.path.normpath(os.path.join(case["cwd"], href))
    if p.startswith(".."):
        return None
    return table.get(p)


def templates(case, root, table):
    """[[href as the document spells it, {"morphs": [...], "bios": [...]}]] for the model: what the loader makes of each file"""
    import neuroml.loaders as L
    out, seen = [], set()
    old = os.getcwd()
    os.chdir(os.path.join(root, case["cwd"]))
    try:
        for h in case["doc"]["includes"]:
            hh = sub_root(h, root)
            if hh in seen:
                continue
            seen.add(hh)
            if resolve_href(case, table, h) is None:
                continue
            try:
                d = L.read_neuroml2_file(hh, verbose=False, optimized=True)
            except Exception:       # a loader defect (un-repaired tree): the oracle names it, the models see no such file
                continue
            out.append([hh, {"morphs": [esnap(m) for m in d.morphology],
                             "bios": [esnap(b) for b in d.biophysical_properties]}])
    finally:
        os.chdir(old)
    tab = {}
    for _, fd in out:
        for k in ("morphs", "bios"):
            for e in fd[k]:
                canon_obj_ids(e["obj"], tab)
    return out


def templates_heap(case, root, table):
    """[[href, [node]]] for the heap model: the object graph the loader makes of each readable include (document at 0)"""
    import neuroml.loaders as L
    out, seen = [], set()
    old = os.getcwd()
    os.chdir(os.path.join(root, case["cwd"]))
    try:
        for h in case["doc"]["includes"]:
            hh = sub_root(h, root)
            if hh in seen:
                continue
            seen.add(hh)
            if resolve_href(case, table, h) is None:
                continue
            try:
                d = L.read_neuroml2_file(hh, verbose=False, optimized=True)
            except Exception:
                continue
            out.append([enc(hh), heap_of(d)[0]])
    finally:
        os.chdir(old)
    return out


def canon_obj_ids(o, tab):
    """templates carry meaningless identities: small numbers, parent present -> 0"""
    o["o"] = tab.setdefault(o["o"], len(tab))
    o["p"] = 0 if o["p"] is not None else None
    for k in o["k"]:
        canon_obj_ids(k, tab)


# ---------------------------------------------------------------- real run
def run_real(case, root, overwrite, table):
    from neuroml.utils import fix_external_morphs_biophys_in_cell as fix
    doc, keep = build_input(case, root)
    pre = dsnap(doc)
    pre_dump = full_dump(doc)
    seen_pre = {}
    pre_tree = walk_ids(doc, seen_pre, False)
    seen_pre_all = {}
    walk_ids(doc, seen_pre_all, True)
    pre_refs = {"cells": [(c, c.morphology, c.biophysical_properties, c.morphology_attr, c.biophysical_properties_attr)
                          for c in doc.cells],
                "cells2": [(c, c.morphology, c.biophysical_properties, c.morphology_attr, c.biophysical_properties_attr)
                           for c in doc.cell2_ca_poolses],
                "morphs": list(doc.morphology), "bios": list(doc.biophysical_properties)}
    htable, hobjs, hnodes = {}, [], {}
    hsnap([doc], htable, hobjs, hnodes)
    hpre = hfinish(hnodes, htable)
    hn = len(hobjs)
    old = os.getcwd()
    os.chdir(os.path.join(root, case["cwd"]))
    res, arg, ret = "ok", "", None
    spy = DeepcopySpy()
    try:
        try:
            with spy:
                ret = fix(doc, overwrite=overwrite)
        except KeyError as e:
            res, arg = "KeyError", (e.args[0] if e.args else "")
        except SystemExit:
            res = "SystemExit"
        except Exception as e:  # noqa
            res, arg = "exc:" + type(e).__name__, str(e)[:80]
    finally:
        os.chdir(old)
    hnodes2 = {}
    hsnap([doc] + ([ret] if (ret is not None and ret is not doc and is_node(ret)) else []), htable, hobjs, hnodes2)
    hpost = hfinish(hnodes2, htable)
    return {"doc": doc, "keep": keep, "pre": pre, "pre_dump": pre_dump, "pre_tree": pre_tree, "seen_pre": seen_pre,
            "seen_pre_all": seen_pre_all, "pre_refs": pre_refs, "res": res, "arg": arg, "ret": ret,
            "hpre": [hpre[i] for i in range(hn)], "hn": hn, "hpost": hpost, "hobjs": hobjs,
            "hret": (htable.get(id(ret)) if ret is not None else None), "dc_counts": spy.counts}


# ---------------------------------------------------------------- oracle: the property on the real objects
def fid(x):
    """an id after a trip through a file: text (None stays None: the attribute is not written)"""
    return None if x is None else str(x)


def spec_defs(case, table, kind, local_ids):
    """ids visible to the call for `kind` in ('morphs','bios'): {id: n_definitions}, and whether an include is unreadable;
    `local_ids` = ids of the document's own definitions"""
    ids = {}
    unreadable = False
    for h in case["doc"]["includes"]:
        f = resolve_href(case, table, h)
        if f is None:
            unreadable = True
            continue
        for s in f[kind]:
            ids[fid(s["id"])] = ids.get(fid(s["id"]), 0) + 1
    for i in local_ids:
        ids[i] = ids.get(i, 0) + 1
    return ids, unreadable


def slot_kind(c, which):
    a, e = (c["m_attr"], c["m_elem"]) if which == "m" else (c["b_attr"], c["b_elem"])
    if e is not None:
        return "embedded+attr" if a is not None else "embedded"
    return "ref" if a is not None else "none"


def classify(case, table, R):
    """which references the call has to resolve and which of them have no visible definition - read off the real
    objects as they were handed to the function (`R['pre_refs']`, taken before the call) and the include files' specs"""
    dm, u1 = spec_defs(case, table, "morphs", [e.id for e in R["pre_refs"]["morphs"]])
    db, u2 = spec_defs(case, table, "bios", [e.id for e in R["pre_refs"]["bios"]])
    out = {"dm": dm, "db": db, "unreadable": u1 or u2, "dangling": [], "refs": [], "dangling2": [], "refs2": []}
    for lst, sfx in (("cells", ""), ("cells2", "2")):
        for (c, pm, pb, pma, pba) in R["pre_refs"][lst]:
            for which, defs, pe, pa in (("m", dm, pm, pma), ("b", db, pb, pba)):
                if pe is None and pa is not None:
                    out["refs" + sfx].append((c.id, which, pa))
                    if pa not in defs:
                        out["dangling" + sfx].append(pa)
    return out


def key_of(prefix, case, overwrite):
    # a failure in the second step of a history gets a key of its own: its replay needs the steps before it
    origin = "history" if case.get("_history") else case.get("origin", "built")
    return "C17:%s:%s:overwrite=%s" % (prefix, origin, overwrite)


def oracle(ctx, case, root, table, overwrite, R, tmpl, payload):
    """judge one real run by the property statement; `tmpl` = shapes of the file definitions"""
    cl = classify(case, table, R)
    doc, ret, res = R["doc"], R["ret"], R["res"]

    def fail(prefix, what):
        ctx.fail(key_of(prefix, case, overwrite), what, payload)

    # overwrite=False: the document passed in is unchanged, whatever the outcome
    if not overwrite:
        if full_dump(doc) != R["pre_dump"]:
            fail("input-changed", "overwrite=False modified the document passed in")
        # the same on the object graph: every object reachable from the document before the call (also through
        # parent_object_ and the shared collector) is the same object with the same fields, every list has the same members
        changed = [i for i in range(R["hn"]) if R["hpost"].get(i) != R["hpre"][i]]
        if changed:
            fail("input-changed", "overwrite=False changed %d object(s) reachable from the document passed in (first: %s)"
                 % (len(changed), R["hpre"][changed[0]]["c"]))
    if res.startswith("exc:") and any(f.get("net") is False for f in case["files"]):
        # defect of the optimized HDF5 loader on a file without a network, repaired by fixes/C07-parser-builder-reuse.patch
        ctx.fail("C17:hdf5-include-without-network", "an included HDF5 file that holds no network could not be read: %s %s"
                 % (res, R["arg"]), payload)
        return
    if cl["unreadable"]:
        ctx.count("oracle:include-unreadable(outside property)")
        if res != "SystemExit":
            fail("unreadable-include-outcome", "unreadable include did not stop the call: %s" % res)
        elif full_dump(doc) != R["pre_dump"]:
            fail("input-changed", "document modified although the call stopped at an unreadable include")
        return
    if cl["dangling"] or cl["dangling2"]:
        # a Cell2CaPools (kept in doc.cell2_ca_poolses) is a cell like any other
        ctx.count("oracle:dangling")
        alld = cl["dangling"] + cl["dangling2"]
        if res != "KeyError":
            if not cl["dangling"]:
                ctx.fail("C17:cell2capools-not-resolved", "a dangling reference of a Cell2CaPools did not raise KeyError: %s" % res, payload)
            else:
                fail("dangling-no-keyerror", "a reference that cannot be resolved did not raise KeyError: %s %s" % (res, R["arg"]))
        elif R["arg"] not in alld:
            fail("keyerror-wrong-key", "KeyError for %r which is not a dangling reference %r" % (R["arg"], alld))
        return
    if res != "ok":
        fail("unexpected-exception", "every reference is defined but the call raised %s %s" % (res, R["arg"]))
        return
    ctx.count("oracle:resolved-run")
    if overwrite and ret is not doc:
        fail("return-identity", "overwrite=True did not return the document passed in")
        return
    if not overwrite and ret is doc:
        fail("return-identity", "overwrite=False returned the document passed in")
        return
    # candidate definitions by id: shapes of local definitions (of the returned document) and of file definitions
    cand = {"m": {}, "b": {}}
    for which, lst in (("m", ret.morphology), ("b", ret.biophysical_properties)):
        for e in lst:
            cand[which].setdefault(enc_id(e.id), []).append(shape(osnap(e)))
    for _, fd in tmpl:
        for which, k in (("m", "morphs"), ("b", "bios")):
            for e in fd[k]:
                cand[which].setdefault(e["id"], []).append(shape(e["obj"]))
    if len(ret.cells) != len(doc.cells) or len(ret.cell2_ca_poolses) != len(doc.cell2_ca_poolses):
        fail("cell-count", "number of cells changed")
        return
    copies = []      # (cell, which, element)
    for is2, c, (pc, pm, pb, pma, pba) in [(False, c, R["pre_refs"]["cells"][k]) for k, c in enumerate(ret.cells)] + \
            [(True, c, R["pre_refs"]["cells2"][k]) for k, c in enumerate(ret.cell2_ca_poolses)]:
        if overwrite and c is not pc:
            fail("cell-identity", "cell object replaced")
            return
        for which, pe, pa, e, a in (("m", pm, pma, c.morphology, c.morphology_attr),
                                     ("b", pb, pba, c.biophysical_properties, c.biophysical_properties_attr)):
            if pe is not None:
                # already embedded: left as it is
                if overwrite and (e is not pe or a != pa):
                    fail("embedded-touched", "a cell that already embeds the element was changed")
                if not overwrite and (e is None or a != pa or shape(osnap(e)) != shape(osnap(pe))):
                    fail("embedded-touched", "a cell that already embeds the element differs in the returned copy")
                continue
            if pa is None:
                if e is not None or a is not None:
                    fail("spurious-element", "a cell without reference got an element")
                continue
            # a reference to resolve
            if e is None:
                if is2:
                    ctx.fail("C17:cell2capools-not-resolved", "Cell2CaPools reference left unresolved", payload)
                else:
                    fail("not-embedded", "a referencing cell has no embedded element after the call")
                continue
            if a is not None:
                fail("reference-not-cleared", "the reference attribute was not cleared")
            if e.id != pa:
                fail("wrong-element", "embedded element has id %r, reference was %r" % (e.id, pa))
            elif shape(osnap(e)) not in cand[which].get(enc_id(pa), []):
                fail("copy-not-equal", "embedded element is not structurally equal to a definition of %r" % pa)
            copies.append((c, which, e))
    # independence: no object (or list) of the result is reachable twice; copies are new objects
    seen = {}
    ids_post = walk_ids(ret, seen, False)
    if len(set(R["pre_tree"])) == len(R["pre_tree"]) and len(set(ids_post)) != len(ids_post):
        fail("shared-object", "an object is reachable twice in the result: copies are not independent")
    for c, which, e in copies:
        s2 = {}
        for i in walk_ids(e, s2, False):
            if i in R["seen_pre"]:
                fail("copy-not-fresh", "an embedded copy contains an object of the input document")
                break
    if not overwrite:
        if set(ids_post) & set(R["pre_tree"]):
            fail("result-shares-input", "the document returned with overwrite=False shares objects with the input")
    # no stray allocation: everything reachable (also through parent_object_) is the result tree or existed before
    if case.get("origin") == "graph":
        ctx.count("oracle:stray-check-skipped(object graph input: what deepcopy drags along is the model's business)")
    elif overwrite or len(R["seen_pre_all"]) == len(R["seen_pre"]):
        sa = {}
        walk_ids(ret, sa, True)
        stray = [i for i in sa if i not in seen and i not in R["seen_pre_all"]]
        if stray:
            ctx.count("oracle:stray-objects", len(stray))
            fail("stray-allocation", "the call allocated %d objects besides the embedded copies (copies of the source's "
                 "document hanging off parent_object_; the number doubles with every cell)" % len(stray))
    for c, which, e in copies:
        par = getattr(e, "parent_object_", None)
        if par is not None and par is not c:
            fail("copy-parent", "parent_object_ of an embedded copy is neither None nor its cell")
            break
    # mutation: changing one copy must not show in another copy nor in any definition
    if copies:
        def all_shapes(skip):
            out = []
            for (c, w, e) in copies:
                if e is not skip:
                    out.append(shape(osnap(e)))
            for e in list(ret.morphology) + list(ret.biophysical_properties) + R["pre_refs"]["morphs"] + R["pre_refs"]["bios"]:
                out.append(shape(osnap(e)))
            return out
        for (c, w, e) in copies[:4]:
            before = all_shapes(e)
            mutate(e)
            if all_shapes(e) != before:
                fail("mutation-leaks", "mutating one embedded copy changed another copy or a definition")
                break


def mutate(e):
    import neuroml as n
    e.notes = (e.notes or "") + "_mutated"
    if hasattr(e, "segments"):
        e.segments.append(n.Segment(id=99, name="extra"))
        if len(e.segments) > 1:
            if e.segments[0].proximal is not None:
                e.segments[0].proximal.x = 12345.0
            e.segments[0].name = "renamed"
    if hasattr(e, "membrane_properties") and e.membrane_properties is not None:
        e.membrane_properties.channel_densities.append(n.ChannelDensity(id="extra"))
        if e.membrane_properties.specific_capacitances:
            e.membrane_properties.specific_capacitances[0].value = "9 uF_per_cm2"


# ---------------------------------------------------------------- one case: model + real + oracle
def model_line(pre_c, n, overwrite, tmpl):
    return json.dumps({"doc": pre_c, "overwrite": overwrite, "files": tmpl, "n": n})


def compare(ctx, case, overwrite, R, table_pre, n, mout, payload):
    """correspondence: outcome, state of the input afterwards, returned document - identities by first-visit numbering"""
    if case.get("origin") == "graph" or (case.get("origin") == "aliased" and not overwrite):
        ctx.count("tree-corr-skipped:object graph (compared with the heap model only)")
        return
    ctx.corr_evals += 1
    mixed_copy = (not overwrite) and case.get("origin") == "mixed"
    real = {"res": R["res"], "arg": enc(R["arg"]) if R["res"] == "KeyError" else ""}
    t = dict(table_pre)
    real["input"] = canon(dsnap(R["doc"]), t)
    real["ret"] = canon(dsnap(R["ret"]), t, drop_parents=mixed_copy) if R["res"] == "ok" else None
    if "error" in mout or "res" not in mout:
        ctx.disagree("fix-model", payload, real["res"], mout)
        return
    tm = {i: i for i in range(n)}
    model = {"res": mout["res"], "arg": mout["arg"] if mout["res"] == "KeyError" else ""}
    model["input"] = canon(mout["input"], tm)
    model["ret"] = canon(mout["ret"], tm, drop_parents=mixed_copy) if mout["res"] == "ok" else None
    if real != model:
        diff = [k for k in real if real[k] != model[k]]
        ctx.disagree("fix-model", payload, {k: real[k] for k in diff}, {k: model[k] for k in diff})
        return
    if overwrite:
        # which pre-existing objects were assigned to
        changed = set()
        for (c, pm, pb, pma, pba) in R["pre_refs"]["cells"] + R["pre_refs"]["cells2"]:
            if c.morphology is not pm or c.biophysical_properties is not pb or c.morphology_attr != pma \
                    or c.biophysical_properties_attr != pba:
                changed.add(table_pre[id(c)])
        if changed != set(mout["writes"]):
            ctx.disagree("fix-model-writes", payload, sorted(changed), sorted(set(mout["writes"])))


def ret_graph(R):
    """the object graph below the returned document, identities by depth-first first visit from it"""
    top = max(R["hpost"]) + 1 if R["hpost"] else 0
    nodes = [R["hpost"].get(i, {"c": "<unreachable>", "f": []}) for i in range(top)]
    return canon_heap([{"c": "<shift>", "f": []}] * 0 + nodes, [R["hret"]], 0)


def compare_heap(ctx, case, overwrite, R, mout, payload):
    """correspondence with the object-graph model: outcome, the whole graph reachable from the document passed in and
    from the returned one (every object, list, back reference, shared sub-object; identities by first-visit
    numbering), and the number of objects each deepcopy call allocated"""
    ctx.corr_evals += 1
    ctx.count("heap-corr")
    if "error" in mout or "res" not in mout:
        ctx.disagree("fix-heap", payload, R["res"], mout)
        return
    if mout.get("gen") is not True:
        ctx.disagree("gen-vs-hand-model", payload, "program generated from utils.py", "differs from FixExternalH.fixExternal on this input")
    real_o = (R["res"], enc(R["arg"]) if R["res"] == "KeyError" else None)
    model_o = (mout["res"], mout["arg"] if mout["res"] == "KeyError" else None)
    if real_o != model_o:
        ctx.disagree("fix-heap", payload, {"outcome": real_o}, {"outcome": model_o})
        return
    nodes = list(R["hpre"])
    for i, nd in mout["changed"]:
        nodes[i] = nd
    nodes = nodes + mout["new"]
    roots = [0]
    if mout["res"] == "ok" and mout["ret"] != 0:
        roots.append(mout["ret"])
    mc = canon_heap(nodes, roots, R["hn"])
    rc = R["hpost"]
    if mc != rc:
        bad = sorted(set(k for k in set(mc) | set(rc) if mc.get(k) != rc.get(k)))
        k = bad[0]
        ctx.disagree("fix-heap", payload, {"object": k, "node": rc.get(k), "objects": len(rc), "differ": len(bad)},
                     {"object": k, "node": mc.get(k), "objects": len(mc)})
        return
    if R["res"] == "ok":
        ridx = R["hret"]
        if (ridx == 0) != (mout["ret"] == 0):
            ctx.disagree("fix-heap", payload, {"ret": ridx}, {"ret": mout["ret"]})
            return
    # allocation measure
    mcounts = ([mout["doccopy"]] if not overwrite and mout["res"] != "stuck" else []) + [c[4] - c[3] for c in mout["copies"]]
    if R["dc_counts"] != mcounts:
        ctx.disagree("fix-heap-allocations", payload, R["dc_counts"], mcounts)
    ctx.count("heap-objects-copied", sum(mcounts))


def run_cases(ctx, cases, shared_root=False):
    """materialise each case, run the real function twice (overwrite True/False), the model on the same inputs.
    shared_root: the cases form a HISTORY in one process and one directory - each case's files overwrite the previous
    case's (same paths, same hrefs, other contents); a failure's payload then carries the cases that ran before it"""
    jobs = []
    roots = []
    lines = []
    hlines = []
    try:
        for k, case in enumerate(cases):
            if shared_root and roots:
                root = roots[0]
            else:
                root = tempfile.mkdtemp(prefix="verif_c17_")
                roots.append(root)
            if shared_root:
                case["_history"] = [dict((a, b) for a, b in c.items() if a != "_history") for c in cases[:k]]
            table = materialise(case, root)
            tmpl = templates(case, root, table)
            htmpl = templates_heap(case, root, table)
            for overwrite in (True, False):
                R = run_real(case, root, overwrite, table)
                tp = {}
                pre_c = canon(R["pre"], tp)
                n = len(tp)
                lines.append(model_line(pre_c, n, overwrite, tmpl))
                hlines.append(json.dumps({"heap": R["hpre"], "doc": 0, "overwrite": overwrite, "files": htmpl}))
                jobs.append((case, root, table, tmpl, overwrite, R, tp, n))
        rc, out = fw.run_driver("C17", lines + hlines)
        if rc != 0 or len(out) != len(lines) + len(hlines):
            ctx.disagree("driver", "driver failed rc=%s" % rc, "\n".join(out[-5:]), None)
            mouts = [{"error": "driver"}] * len(lines)
            hmouts = [{"error": "driver"}] * len(lines)
        else:
            mouts = [json.loads(l) for l in out[:len(lines)]]
            hmouts = [json.loads(l) for l in out[len(lines):]]
        results = {}
        for (case, root, table, tmpl, overwrite, R, tp, n), mout, hmout in zip(jobs, mouts, hmouts):
            payload = {"case": case, "overwrite": overwrite}
            if shared_root:
                ctx.count("history:step-%d" % len(case.get("_history", [])))
            cl = classify(case, table, R)
            allrefs = cl["refs"] + cl["refs2"]
            shared = len(allrefs) - len(set((w, a) for (_, w, a) in allrefs))
            nontrivial = shared > 0 and not cl["dangling"] and not cl["dangling2"] and not cl["unreadable"]
            ctx.seen({"case": case, "overwrite": overwrite}, nontrivial=nontrivial)
            ctx.count("res:" + R["res"])
            ctx.count("origin:" + case.get("origin", "built"))
            for f in case["files"]:
                if f["path"].endswith(".h5") and not overwrite:
                    ctx.count("include-file:hdf5" + ("" if f.get("net", True) else "(no network)"))
            if not overwrite:
                allids = [s_["id"] for s_ in case["doc"]["morphs"] + case["doc"]["bios"]] + \
                         [s_["id"] for f in case["files"] for s_ in f["morphs"] + f["bios"]] + \
                         [c[k] for c in case["doc"]["cells"] for k in ("m_attr", "b_attr")]
                if any(i is not None and not isinstance(i, str) or i == "" for i in allids):
                    ctx.count("ids:non-text-or-empty")
                if any(s_["id"] is None for s_ in case["doc"]["morphs"] + case["doc"]["bios"]):
                    ctx.count("ids:definition-without-id")
                for k, v in (case.get("graph") or {}).items():
                    if v:
                        ctx.count("graph:%s%s" % (k, "" if v is True else "=" + str(v)))
            ctx.count("cells:%d" % len([c for c in case["doc"]["cells"] if c.get("kind") != "Cell2CaPools"]))
            for c in case["doc"]["cells"]:
                ctx.count("slot:" + slot_kind(c, "m"))
                ctx.count("slot:" + slot_kind(c, "b"))
            if shared:
                ctx.count("shared-reference")
            compare(ctx, case, overwrite, R, tp, n, mout, payload)
            compare_heap(ctx, case, overwrite, R, hmout, payload)
            R["ret_canon"] = canon(dsnap(R["ret"]), {}, drop_parents=True) if R["res"] == "ok" else None
            oracle(ctx, case, root, table, overwrite, R, tmpl, payload)
            results[(id(case), overwrite)] = R
        # overwrite=False returns a document equal to the one overwrite=True produces
        for case in cases:
            a, b = results.get((id(case), True)), results.get((id(case), False))
            if a is None or b is None:
                continue
            payload = {"case": case, "overwrite": "both"}
            if (a["res"], a["arg"]) != (b["res"], b["arg"]):
                ctx.fail(key_of("overwrite-outcome-differs", case, "both"),
                         "overwrite=True gives %s %s, overwrite=False gives %s %s" % (a["res"], a["arg"], b["res"], b["arg"]), payload)
            elif a["res"] == "ok":
                # identity-free comparison (first-visit numbering makes two trees of the same shape equal)
                if a["ret_canon"] != b["ret_canon"]:
                    ctx.fail(key_of("overwrite-result-differs", case, "both"),
                             "the document returned with overwrite=False differs from the overwrite=True result", payload)
                # ... and as object graphs: everything reachable from the returned document - every member, list, back
                # reference, shared object - is the same up to identities
                ga, gb = ret_graph(a), ret_graph(b)
                if ga != gb:
                    bad = sorted(k for k in set(ga) | set(gb) if ga.get(k) != gb.get(k))
                    ctx.fail(key_of("overwrite-result-differs", case, "both"),
                             "the object graph returned with overwrite=False differs from the overwrite=True one at object %s: %s / %s"
                             % (bad[0], ga.get(bad[0], {}).get("c"), gb.get(bad[0], {}).get("c")), payload)
        if cases:
            c0 = cases[-1]
            ctx.sample({"cwd": c0["cwd"], "origin": c0.get("origin"), "includes": c0["doc"]["includes"],
                        "local": [s["id"] for s in c0["doc"]["morphs"]] + [s["id"] for s in c0["doc"]["bios"]],
                        "cells": [[c["id"], slot_kind(c, "m"), c["m_attr"], slot_kind(c, "b"), c["b_attr"]] for c in c0["doc"]["cells"]],
                        "files": [[f["path"], [s["id"] for s in f["morphs"]], [s["id"] for s in f["bios"]]] for f in c0["files"]]})
    finally:
        for r in roots:
            shutil.rmtree(r, ignore_errors=True)


# ---------------------------------------------------------------- NeuroMLXMLParser.parse as a caller
def run_parse_cases(ctx, cases):
    """main file on disk (nested includes, merged by the loader), parse() must hand the network handler a document in
    which every cell is resolved - or let the KeyError out; the call it makes is compared with the model"""
    import neuroml.utils as U
    import neuroml.loaders as L
    import neuroml.writers as w
    from neuroml.hdf5.NeuroMLXMLParser import NeuroMLXMLParser
    from neuroml.hdf5.DefaultNetworkHandler import DefaultNetworkHandler
    lines, jobs, roots = [], [], []
    orig = U.fix_external_morphs_biophys_in_cell
    try:
        for case in cases:
            root = tempfile.mkdtemp(prefix="verif_c17p_")
            roots.append(root)
            table = materialise(case, root)
            main = os.path.join(root, "main_net.nml")
            w.NeuroMLWriter.write(mk_doc(case["doc"], root, with_net="all"), main)
            calls = []

            def spy(doc, overwrite=True, _calls=calls):
                tp = {}
                pre = canon(dsnap(doc), tp)
                refs = [(c, c.morphology, c.biophysical_properties, c.morphology_attr, c.biophysical_properties_attr)
                        for c in list(doc.cells) + list(doc.cell2_ca_poolses)]
                pre_all = {}
                walk_ids(doc, pre_all, True)
                rec = {"doc": doc, "overwrite": overwrite, "pre": pre, "tp": tp, "n_includes": len(doc.includes),
                       "refs": refs, "pre_all": pre_all, "post": None}
                _calls.append(rec)
                try:
                    return orig(doc, overwrite)
                finally:
                    rec["post"] = canon(dsnap(doc), dict(tp))      # state of the document right after the call
            U.fix_external_morphs_biophys_in_cell = spy
            old = os.getcwd()
            os.chdir(os.path.join(root, case["cwd"]))
            res, arg = "ok", ""
            class RecHandler(DefaultNetworkHandler):
                """records the state of every cell object parse() hands to the handler, at the time it does"""

                def __init__(self):
                    DefaultNetworkHandler.__init__(self)
                    self.pops = []

                def handle_population(self, population_id, component, size=-1, component_obj=None, properties={}, notes=None):
                    st = None
                    if component_obj is not None and hasattr(component_obj, "morphology_attr"):
                        st = (id(component_obj), component_obj.morphology_attr, component_obj.morphology is not None,
                              component_obj.biophysical_properties_attr, component_obj.biophysical_properties is not None)
                    self.pops.append((population_id, component, st))
                    return DefaultNetworkHandler.handle_population(self, population_id, component, size, component_obj,
                                                                   properties, notes)
            parser = NeuroMLXMLParser(RecHandler())
            try:
                try:
                    parser.parse(main)
                except KeyError as e:
                    res, arg = "KeyError", (e.args[0] if e.args else "")
                except SystemExit:
                    res = "SystemExit"
                except Exception as e:  # noqa
                    res, arg = "exc:" + type(e).__name__, str(e)[:80]
            finally:
                os.chdir(old)
                U.fix_external_morphs_biophys_in_cell = orig
            # reference: everything the main file and its (transitive) includes define
            ref = L.read_neuroml2_file(main, include_includes=True, already_included=[])
            jobs.append((case, calls, res, arg, parser, ref))
            if calls:
                lines.append(model_line(calls[0]["pre"], len(calls[0]["tp"]), True, []))
            else:
                lines.append(model_line(canon(dsnap(ref), {}), 0, True, []))
        rc, out = fw.run_driver("C17", lines)
        if rc != 0 or len(out) != len(lines):
            ctx.disagree("driver", "driver failed rc=%s" % rc, "\n".join(out[-5:]), None)
            mouts = [{"error": "driver"}] * len(lines)
        else:
            mouts = [json.loads(l) for l in out]
        for (case, calls, res, arg, parser, ref), mout in zip(jobs, mouts):
            payload = {"case": case, "stream": "parse"}
            dm = set(m.id for m in ref.morphology)
            db = set(b.id for b in ref.biophysical_properties)
            rcells = list(ref.cells) + list(ref.cell2_ca_poolses)      # a Cell2CaPools is a cell like any other
            refs = [(c.id, "m", c.morphology_attr) for c in rcells if c.morphology_attr is not None and c.morphology is None] + \
                   [(c.id, "b", c.biophysical_properties_attr) for c in rcells
                    if c.biophysical_properties_attr is not None and c.biophysical_properties is None]
            dangling = [a for (_, wch, a) in refs if a not in (dm if wch == "m" else db)]
            two_ids = set(c.id for c in ref.cell2_ca_poolses)
            only2 = bool(dangling) and all(cid in two_ids for (cid, wch, a) in refs if a not in (dm if wch == "m" else db))
            shared = len(refs) - len(set((wch, a) for (_, wch, a) in refs))
            ctx.seen(payload, nontrivial=shared > 0 and not dangling)
            ctx.count("parse:res:" + res)
            if len(calls) != 1 or calls[0]["overwrite"] is not True:
                ctx.fail("C17:parse:no-single-inplace-call", "parse() did not call the function exactly once in place", payload)
                continue
            call = calls[0]
            if call["doc"] is not parser.nml_doc or call["n_includes"] != 0:
                ctx.fail("C17:parse:wrong-document", "parse() resolved a different document than the one it walks", payload)
                continue
            # correspondence with the model on the document parse() handed over
            ctx.corr_evals += 1
            if "error" in mout or "res" not in mout:
                ctx.disagree("parse-model", payload, res, mout)
            else:
                real = {"res": res, "arg": enc(arg) if res == "KeyError" else "", "doc": call["post"]}
                tm = {i: i for i in range(len(call["tp"]))}
                model = {"res": mout["res"], "arg": mout["arg"] if mout["res"] == "KeyError" else "", "doc": canon(mout["input"], tm)}
                if real != model:
                    diff = [k for k in real if real[k] != model[k]]
                    ctx.disagree("parse-model", payload, {k: real[k] for k in diff}, {k: model[k] for k in diff})
            # oracle
            if dangling:
                if res != "KeyError" or arg not in dangling:
                    ctx.fail("C17:cell2capools-not-resolved" if (only2 and res == "ok") else "C17:parse:dangling-no-keyerror",
                             "parse() of a file with a dangling reference gave %s %s" % (res, arg), payload)
                continue
            if res != "ok":
                ctx.fail("C17:parse:unexpected-exception", "parse() raised %s %s" % (res, arg), payload)
                continue
            doc = parser.nml_doc
            bad = None
            seen = {}
            ids_post = walk_ids(doc, seen, False)
            if len(set(ids_post)) != len(ids_post):
                bad = "an object is reachable twice after parse(): copies are not independent"
            for (c, pm, pb, pma, pba) in call["refs"]:
                for wch, pe, pa, e, a, defs in (("m", pm, pma, c.morphology, c.morphology_attr, doc.morphology),
                                                 ("b", pb, pba, c.biophysical_properties, c.biophysical_properties_attr, doc.biophysical_properties)):
                    if pe is not None:
                        if e is not pe or a != pa:
                            bad = "embedded element touched"
                    elif pa is not None:
                        if e is None or a is not None or e.id != pa:
                            bad = "cell %s not resolved after parse()" % c.id
                            if type(c).__name__ == "Cell2CaPools":
                                bad = "Cell2CaPools " + bad
                        elif shape(osnap(e)) not in [shape(osnap(d)) for d in defs if d.id == pa]:
                            bad = "embedded copy differs from every definition"
                        elif getattr(e, "parent_object_", None) not in (None, c):
                            bad = "parent_object_ of the embedded copy is not its cell"
            if bad:
                ctx.fail("C17:parse:copy-parent" if "parent_object_" in bad else
                         ("C17:cell2capools-not-resolved" if bad.startswith("Cell2CaPools") else "C17:parse:not-resolved"), bad, payload)
                continue
            sa = {}
            walk_ids(doc, sa, True)
            stray = [i for i in sa if i not in seen and i not in call["pre_all"]]
            if stray:
                ctx.fail("C17:parse:stray-allocation", "parse() left %d objects hanging off parent_object_ (copies of the "
                         "whole document per cell; doubles with every cell)" % len(stray), payload)
            # "before walking the network": every cell object the handler was given was resolved already, and it is the
            # cell of the document parse() keeps
            cell_ids = {id(c): c for c in list(doc.cells) + list(doc.cell2_ca_poolses)}
            byname = {c.id: c for c in list(doc.cells) + list(doc.cell2_ca_poolses)}
            for (pid, comp, st) in parser.netHandler.pops:
                if comp not in byname:
                    continue
                ctx.count("parse:cell-handed-to-handler")
                if st is None or st[0] not in cell_ids:
                    ctx.fail("C17:parse:handler-wrong-cell", "the handler was not given the document's cell object for population %s" % pid, payload)
                    break
                if (st[1] is not None and not st[2]) or (st[3] is not None and not st[4]):
                    ctx.fail("C17:cell2capools-not-resolved" if type(byname[comp]).__name__ == "Cell2CaPools" else
                             "C17:parse:handler-saw-unresolved-cell", "parse() walked the network before the references of cell %s were resolved" % comp, payload)
                    break
    finally:
        U.fix_external_morphs_biophys_in_cell = orig
        for r in roots:
            shutil.rmtree(r, ignore_errors=True)


# ---------------------------------------------------------------- generator
def gen_elem(rng, kind, eid, tag):
    if kind == "m":
        return {"id": eid, "tag": tag, "nseg": rng.randint(0, 3), "ngrp": rng.randint(0, 1)}
    return {"id": eid, "tag": tag, "nchan": rng.randint(0, 2)}


def gen_case(rng, big=False, parse=False):
    ids = rng.sample(IDS, rng.randint(2, 5))
    if rng.random() < 0.2:
        ids += rng.sample(ODD_IDS, rng.randint(1, 3))
    # a definition without id can never be referred to (not in the parse stream: the loader that merges includes
    # there sorts by id and raises TypeError, before the function under test is reached)
    def_ids = ids + ([None] if (not parse and rng.random() < 0.15) else [])
    cwd = rng.choice([".", ".", "sub"])
    if parse:
        cwd = rng.choice([".", "other"])
    nfiles = rng.choice([0, 1, 1, 2, 3])
    files = []
    dirs = ["", "", "sub/", "other/"]
    for k in range(nfiles):
        d = rng.choice(dirs)
        ext = ".nml"
        if not parse and rng.random() < 0.2:
            ext = rng.choice([".nml.h5", ".h5"])              # HDF5 include: read with optimized=True
        f = {"path": "%sinc%d%s" % (d, k, ext), "morphs": [], "bios": [], "includes": []}
        if ext != ".nml" and rng.random() < 0.4:
            f["net"] = False                                  # an HDF5 file that holds definitions only
        for j in range(rng.randint(0, 3)):
            f["morphs"].append(gen_elem(rng, "m", rng.choice(def_ids), "file%d.m%d" % (k, j)))
        for j in range(rng.randint(0, 2)):
            f["bios"].append(gen_elem(rng, "b", rng.choice(def_ids), "file%d.b%d" % (k, j)))
        files.append(f)
    # a file only reachable through another file's include (the function does not follow it; the loader in parse() does)
    nested_ids = []
    if files and rng.random() < 0.35 and not all(f["path"].endswith(".h5") for f in files):
        k = len(files)
        nid = rng.choice(ids + ["nested_only"])
        nested_ids.append(nid)
        nf = {"path": "other/nested%d.nml" % k, "morphs": [gen_elem(rng, "m", nid, "nested.m")],
              "bios": [gen_elem(rng, "b", nid, "nested.b")], "includes": []}
        host = rng.choice([f for f in files if not f["path"].endswith(".h5")])
        host["includes"].append("{ROOT}/" + nf["path"] if not parse else os.path.relpath(nf["path"], os.path.dirname(host["path"]) or "."))
        files.append(nf)
    doc = {"includes": [], "morphs": [], "bios": [], "cells": []}
    for f in files:
        if f["path"].startswith("other/nested"):
            continue
        r = rng.random()
        rel = os.path.relpath(f["path"], cwd)
        if parse:
            href = f["path"]                                  # relative to the main file (root)
        elif r < 0.55:
            href = rel                                        # resolves from the working directory
        elif r < 0.7:
            href = "./" + rel
        elif r < 0.85:
            href = "{ROOT}/" + f["path"]
        elif r < 0.93:
            href = f["path"] if cwd != "." else "sub/../" + f["path"]   # relative to the document's directory, not to the cwd
        else:
            href = "missing_" + os.path.basename(f["path"])
        doc["includes"].append(href)
        if rng.random() < 0.12:
            doc["includes"].append(href)                      # the same file included twice
    for j in range(rng.choice([0, 1, 1, 2, 3])):
        doc["morphs"].append(gen_elem(rng, "m", rng.choice(def_ids), "local.m%d" % j))
    for j in range(rng.choice([0, 1, 1, 2])):
        doc["bios"].append(gen_elem(rng, "b", rng.choice(def_ids), "local.b%d" % j))
    defined = {"m": [s["id"] for s in doc["morphs"]] + [s["id"] for f in files if not f["path"].startswith("other/nested") for s in f["morphs"]],
               "b": [s["id"] for s in doc["bios"]] + [s["id"] for f in files if not f["path"].startswith("other/nested") for s in f["bios"]]}
    p_dangling = rng.choice([0.0, 0.0, 0.0, 0.1, 0.3])
    ncells = rng.randint(0, 8 if big else 5)
    defined = {w: [x for x in v if x is not None] for w, v in defined.items()}
    shared_target = {"m": rng.choice(defined["m"]) if defined["m"] else None,
                     "b": rng.choice(defined["b"]) if defined["b"] else None}
    for k in range(ncells + rng.choice([0, 0, 0, 1, 2])):
        two = k >= ncells
        c = {"id": "c%d" % k, "kind": "Cell2CaPools" if two else "Cell", "notes": rng.choice([None, "n%d" % k])}
        for w in ("m", "b"):
            r = rng.random()
            attr, elem = None, None
            if r < 0.12:
                pass
            elif r < 0.27:
                elem = gen_elem(rng, w, "own%d" % k, "own")
            elif r < 0.35:
                elem = gen_elem(rng, w, "own%d" % k, "own")
                attr = rng.choice(ids + ["undefined_id"])
            elif rng.random() < p_dangling or not defined[w]:
                attr = rng.choice(["undefined_id", "nope"] + nested_ids + ids)
            elif rng.random() < 0.6:
                attr = shared_target[w]
            else:
                attr = rng.choice(defined[w])
            c[w + "_attr"], c[w + "_elem"] = attr, elem
        if two and rng.random() < 0.5:
            c["b_attr"], c["b_elem"] = None, None
        doc["cells"].append(c)
    origin = rng.choice(["built", "built", "loaded", "loaded", "mixed"])
    graph = None
    if not parse and rng.random() < 0.15:
        origin = "graph"
        flags = ["def_in_cell", "def_in_cell_b", "share_seg", "share_list", "share_mp", "share_point", "two_cells_one_elem", "cell_twice"]
        graph = {f: True for f in rng.sample(flags, rng.randint(0, 3))}
        graph["parents"] = rng.choice([None, "wellformed", "wellformed", "defs-only", "foreign"])
        if graph["parents"] == "foreign" or (graph.get("share_seg") and graph["parents"] == "wellformed"):
            # deepcopy drags the document (or the other morphology) along, once more with every copy: keep it small
            doc["cells"] = doc["cells"][:3]
    elif not parse and rng.random() < 0.08:
        origin = "aliased"
        for c in doc["cells"]:
            if c["m_elem"] is not None and rng.random() < 0.7:
                c["alias_m"] = True
            if c["b_elem"] is not None and rng.random() < 0.7:
                c["alias_b"] = True
    case = {"files": files, "doc": doc, "cwd": cwd, "origin": origin}
    if graph is not None:
        case["graph"] = graph
    return case


def E(kind, eid, tag, **kw):
    d = {"id": eid, "tag": tag}
    d.update({"nseg": 2, "ngrp": 1} if kind == "m" else {"nchan": 1})
    d.update(kw)
    return d


def C(cid, m_attr=None, m_elem=None, b_attr=None, b_elem=None, kind="Cell"):
    return {"id": cid, "kind": kind, "notes": None, "m_attr": m_attr, "m_elem": m_elem, "b_attr": b_attr, "b_elem": b_elem}


CORPUS = [
    # FIXED (fixes/C17-deepcopy-drags-parent-document.patch): document read from a file, nine cells share one
    # morphology; unrepaired code hangs a copy of the whole document (and of all earlier copies) on every copy
    {"files": [], "cwd": ".", "origin": "loaded",
     "doc": {"includes": [], "morphs": [E("m", "m1", "local")], "bios": [E("b", "b1", "local")],
             "cells": [C("c%d" % k, m_attr="m1", b_attr=("b1" if k % 2 else None)) for k in range(9)]}},
    # the same through an included file: every copy drags a copy of the included document
    {"files": [{"path": "sub/inc0.nml", "morphs": [E("m", "m1", "file")], "bios": [E("b", "m1", "file")], "includes": []}],
     "cwd": ".", "origin": "built",
     "doc": {"includes": ["sub/inc0.nml"], "morphs": [], "bios": [],
             "cells": [C("c0", m_attr="m1", b_attr="m1"), C("c1", m_attr="m1"), C("c2", b_attr="m1")]}},
    # collisions: id defined twice locally and in two files, document wins, later wins; one id for both kinds
    {"files": [{"path": "inc0.nml", "morphs": [E("m", "x", "f0.a"), E("m", "x", "f0.b", nseg=1)], "bios": [E("b", "x", "f0")], "includes": []},
               {"path": "other/inc1.nml", "morphs": [E("m", "x", "f1", nseg=3)], "bios": [], "includes": []}],
     "cwd": "sub", "origin": "built",
     "doc": {"includes": ["../inc0.nml", "{ROOT}/other/inc1.nml", "../inc0.nml"],
             "morphs": [E("m", "x", "l0", nseg=0), E("m", "m2", "l1"), E("m", "x", "l2", ngrp=0)], "bios": [],
             "cells": [C("c0", m_attr="x", b_attr="x"), C("c1", m_attr="x", m_elem=E("m", "own", "own")),
                       C("c2", m_attr="m2", b_attr="x"), C("c3")]}},
    # dangling in the middle: earlier cells already modified (overwrite=True), biophysics of the same cell dangling
    {"files": [], "cwd": ".", "origin": "mixed",
     "doc": {"includes": [], "morphs": [E("m", "m1", "local")], "bios": [],
             "cells": [C("c0", m_attr="m1"), C("c1", m_attr="m1", b_attr="b1"), C("c2", m_attr="m1")]}},
    # include that only resolves from the document's directory / missing: sys.exit()
    {"files": [{"path": "sub/inc0.nml", "morphs": [E("m", "m1", "file")], "bios": [], "includes": []}],
     "cwd": "sub", "origin": "built",
     "doc": {"includes": ["sub/inc0.nml"], "morphs": [], "bios": [], "cells": [C("c0", m_attr="m1")]}},
    # definition only in an include of an include: not followed -> KeyError
    {"files": [{"path": "inc0.nml", "morphs": [], "bios": [], "includes": ["{ROOT}/other/nested1.nml"]},
               {"path": "other/nested1.nml", "morphs": [E("m", "m1", "nested")], "bios": [], "includes": []}],
     "cwd": ".", "origin": "loaded",
     "doc": {"includes": ["inc0.nml"], "morphs": [], "bios": [], "cells": [C("c0", m_attr="m1")]}},
    # aliasing: c1 embeds the very object that is doc.morphology[0], c0 and c2 refer to it by id
    {"files": [], "cwd": ".", "origin": "aliased",
     "doc": {"includes": [], "morphs": [E("m", "m1", "local")], "bios": [],
             "cells": [C("c0", m_attr="m1"), dict(C("c1", m_elem=E("m", "m1", "local")), alias_m=True), C("c2", m_attr="m1")]}},
    # second pass: definitions in an included HDF5 file (read with optimized=True), from another working directory
    {"files": [{"path": "sub/inc0.nml.h5", "morphs": [E("m", "m1", "h5file")], "bios": [E("b", "b1", "h5file")], "includes": []},
               {"path": "inc1.h5", "morphs": [E("m", "m1", "h5file2", nseg=1)], "bios": [], "includes": []}],
     "cwd": "sub", "origin": "built",
     "doc": {"includes": ["inc0.nml.h5", "../inc1.h5"], "morphs": [], "bios": [],
             "cells": [C("c0", m_attr="m1", b_attr="b1"), C("c1", m_attr="m1")]}},
    # an included HDF5 file without a network (regression for the loader repair fixes/C07-parser-builder-reuse.patch)
    {"files": [{"path": "inc0.h5", "net": False, "morphs": [E("m", "m1", "h5nonet")], "bios": [E("b", "b1", "h5nonet")], "includes": []}],
     "cwd": ".", "origin": "built",
     "doc": {"includes": ["inc0.h5"], "morphs": [], "bios": [],
             "cells": [C("c0", m_attr="m1"), C("cc", m_attr="m1", b_attr="b1", kind="Cell2CaPools")]}},
    # ids that are not text: 5 and "5" are different keys in memory, "" and 0 are references (not None), a definition without id
    {"files": [], "cwd": ".", "origin": "built",
     "doc": {"includes": [], "morphs": [E("m", 5, "int"), E("m", "5", "text", nseg=1), E("m", "", "empty", nseg=3), E("m", None, "noid")],
             "bios": [E("b", 0, "zero")],
             "cells": [C("c0", m_attr=5, b_attr=0), C("c1", m_attr="5"), C("c2", m_attr=""), C("c3", m_attr=5)]}},
    # ... and a text reference to an id that is only defined as a number: KeyError('5'); after a trip through a file it resolves
    {"files": [], "cwd": ".", "origin": "built",
     "doc": {"includes": [], "morphs": [E("m", 5, "int")], "bios": [], "cells": [C("c0", m_attr=5), C("c1", m_attr="5")]}},
    {"files": [{"path": "inc0.nml", "morphs": [E("m", 5, "int-in-file")], "bios": [], "includes": []}], "cwd": ".", "origin": "loaded",
     "doc": {"includes": ["inc0.nml"], "morphs": [], "bios": [], "cells": [C("c0", m_attr=5), C("c1", m_attr="5")]}},
    # object graphs: back references everywhere, an alias inside the element, the same cell listed twice
    {"files": [], "cwd": ".", "origin": "graph", "graph": {"parents": "wellformed", "share_point": True, "cell_twice": True},
     "doc": {"includes": [], "morphs": [E("m", "m1", "local", nseg=3)], "bios": [E("b", "b1", "local")],
             "cells": [C("c0", m_attr="m1", b_attr="b1"), C("c1", m_attr="m1")]}},
    # one Segment object in two morphologies, one list object in two morphologies, one MembraneProperties in two biophysics
    {"files": [], "cwd": ".", "origin": "graph", "graph": {"parents": None, "share_seg": True, "share_list": True, "share_mp": True},
     "doc": {"includes": [], "morphs": [E("m", "m1", "a"), E("m", "m2", "b")], "bios": [E("b", "b1", "a"), E("b", "b2", "b")],
             "cells": [C("c0", m_attr="m1", b_attr="b1"), C("c1", m_attr="m2", b_attr="b2"), C("c2", m_attr="m2", b_attr="b1")]}},
    # the shared Segment points back to the first morphology: copying the second drags the first along
    {"files": [], "cwd": ".", "origin": "graph", "graph": {"parents": "wellformed", "share_seg": True},
     "doc": {"includes": [], "morphs": [E("m", "m1", "a"), E("m", "m2", "b")], "bios": [],
             "cells": [C("c0", m_attr="m2"), C("c1", m_attr="m2")]}},
    # a Segment whose parent_object_ is the document although its morphology has none: every copy drags a copy of the document
    {"files": [], "cwd": ".", "origin": "graph", "graph": {"parents": "foreign"},
     "doc": {"includes": [], "morphs": [E("m", "m1", "a")], "bios": [], "cells": [C("c0", m_attr="m1"), C("c1", m_attr="m1")]}},
    # one Morphology object referenced from three places (definition, two cells), a third cell refers to it by id
    {"files": [], "cwd": ".", "origin": "graph", "graph": {"parents": "defs-only", "def_in_cell": True, "two_cells_one_elem": True},
     "doc": {"includes": [], "morphs": [E("m", "m1", "a")], "bios": [],
             "cells": [C("c0", m_elem=E("m", "own", "own")), C("c1", m_attr="m1"), C("c2")]}},
    # FIXED (fixes/C17-cell2capools-resolved.patch), regressions: a Cell2CaPools with both references (definitions in an
    # included file, document read from a file) shares them with a Cell; a dangling reference of a Cell2CaPools raises KeyError
    {"files": [{"path": "inc0.nml", "morphs": [E("m", "m1", "file")], "bios": [E("b", "b1", "file")], "includes": []}],
     "cwd": ".", "origin": "loaded",
     "doc": {"includes": ["inc0.nml"], "morphs": [], "bios": [],
             "cells": [C("c0", m_attr="m1", b_attr="b1"), C("cc", m_attr="m1", b_attr="b1", kind="Cell2CaPools"),
                       C("cd", m_elem=E("m", "own", "own"), m_attr="m1", kind="Cell2CaPools")]}},
    {"files": [], "cwd": ".", "origin": "built",
     "doc": {"includes": [], "morphs": [E("m", "m1", "local")], "bios": [],
             "cells": [C("c0", m_attr="m1"), C("cc", m_attr="m1", b_attr="gone", kind="Cell2CaPools")]}},
    # FIXED (fixes/C17-cell2capools-resolved.patch): a Cell2CaPools is resolved like a Cell (regression: must pass)
    {"files": [], "cwd": ".", "origin": "built",
     "doc": {"includes": [], "morphs": [E("m", "m1", "local")], "bios": [],
             "cells": [C("c0", m_attr="m1"), C("cc", m_attr="m1", kind="Cell2CaPools")]}},
]

def rewrite_files(rng, case):
    """the same case with every included file rewritten: same paths, definitions changed (other tags and sizes, one id
    renamed or dropped)"""
    c = json.loads(json.dumps(case))
    c.pop("_history", None)
    for f in c["files"]:
        for kind, key in (("m", "morphs"), ("b", "bios")):
            for e in f[key]:
                e["tag"] = e["tag"] + ".v2"
                if kind == "m":
                    e["nseg"] = (e.get("nseg", 1) + 2) % 5
                else:
                    e["nchan"] = (e.get("nchan", 1) + 1) % 3
            if f[key] and rng.random() < 0.3:
                f[key].pop(rng.randrange(len(f[key])))
    return c


HISTORY_CORPUS = [
    # the included file is rewritten between two calls in one process: the second call must embed what the file holds now
    [{"files": [{"path": "inc0.nml", "morphs": [E("m", "m1", "v1", nseg=1)], "bios": [E("b", "b1", "v1")], "includes": []}],
      "cwd": ".", "origin": "built",
      "doc": {"includes": ["inc0.nml"], "morphs": [], "bios": [], "cells": [C("c0", m_attr="m1", b_attr="b1")]}},
     {"files": [{"path": "inc0.nml", "morphs": [E("m", "m1", "v2", nseg=3)], "bios": [], "includes": []}],
      "cwd": ".", "origin": "built",
      "doc": {"includes": ["inc0.nml"], "morphs": [], "bios": [], "cells": [C("c0", m_attr="m1", b_attr="b1")]}}],
]

PARSE_CORPUS = [
    # regression for C17:cell2capools-not-resolved through parse(): the handler is given a resolved Cell2CaPools
    {"files": [{"path": "sub/inc0.nml", "morphs": [E("m", "m1", "file")], "bios": [E("b", "b1", "file")], "includes": []}],
     "cwd": ".", "origin": "file",
     "doc": {"includes": ["sub/inc0.nml"], "morphs": [], "bios": [],
             "cells": [C("c0", m_attr="m1"), C("cc", m_attr="m1", b_attr="b1", kind="Cell2CaPools")]}},
    # main file includes sub/inc0.nml which includes ../other/nested1.nml: the loader merges both, six cells share m1
    {"files": [{"path": "sub/inc0.nml", "morphs": [E("m", "m1", "file")], "bios": [], "includes": ["../other/nested1.nml"]},
               {"path": "other/nested1.nml", "morphs": [], "bios": [E("b", "b1", "nested")], "includes": []}],
     "cwd": "other", "origin": "file",
     "doc": {"includes": ["sub/inc0.nml"], "morphs": [E("m", "m2", "local")], "bios": [],
             "cells": [C("c%d" % k, m_attr=("m1" if k < 5 else "m2"), b_attr="b1") for k in range(6)]}},
    {"files": [], "cwd": ".", "origin": "file",
     "doc": {"includes": [], "morphs": [E("m", "m1", "local")], "bios": [],
             "cells": [C("c0", m_attr="m1"), C("c1", m_attr="gone")]}},
]


def run_round(ctx, corpus, big):
    """one round of all streams: (the corpora,) random cases, histories, parse()"""
    n = ctx.n(500, 2500)
    cases = [json.loads(json.dumps(c)) for c in CORPUS] if corpus else []
    for _ in range(n):
        cases.append(gen_case(ctx.rng, big=big))
    for i in range(0, len(cases), 60):
        run_cases(ctx, cases[i:i + 60])
    # histories: the same document again after the included files were rewritten in place (same hrefs, other contents)
    hist = [json.loads(json.dumps(h)) for h in HISTORY_CORPUS] if corpus else []
    for _ in range(ctx.n(40, 200)):
        c = gen_case(ctx.rng, big=False)
        if c["files"] and c.get("origin") != "graph":
            hist.append([c, rewrite_files(ctx.rng, c)])
    for h in hist:
        run_cases(ctx, h, shared_root=True)
    pn = ctx.n(100, 400)
    pcases = [json.loads(json.dumps(c)) for c in PARSE_CORPUS] if corpus else []
    for _ in range(pn):
        pcases.append(gen_case(ctx.rng, big=False, parse=True))
    for i in range(0, len(pcases), 60):
        run_parse_cases(ctx, pcases[i:i + 60])


def run(ctx):
    import time
    big = ctx.tier == "thorough"
    t0 = time.time()
    run_round(ctx, True, big)
    # a broken obligation widens the search (fw: x10).  Here the widening is bounded: further rounds only while no failing
    # input has been found (once there is one the search has done its job), at most two, and only while the sweep has used
    # less than WIDEN_BUDGET seconds - a round costs about a minute (a case = two real runs, four snapshots, two models)
    budget = ctx.n(60, 240)
    rounds = 0
    while ctx.search_mult > 1 and rounds < 2 and not ctx.failures and (time.time() - t0) < budget:
        rounds += 1
        ctx.count("widened-search-round")
        run_round(ctx, False, big)
    tdir = os.path.join(fw.VERIF, "translators")
    if tdir not in sys.path:
        sys.path.insert(0, tdir)
    import py2lean_fixexternal
    ctx.extra["translator_normalised"] = list(py2lean_fixexternal.NOTES)


def regenerate(ctx):
    """translator step: `fix_external_morphs_biophys_in_cell` and `_deepcopy_into` of the CURRENT working tree
    (neuroml/utils.py) -> lean/NmlVerif/Gen/FixExternal.lean; Props/C17Gen.lean proves the result equal to the hand
    model over the object-graph heap"""
    tdir = os.path.join(fw.VERIF, "translators")
    if tdir not in sys.path:
        sys.path.insert(0, tdir)
    import py2lean_fixexternal
    return py2lean_fixexternal.regenerate(fw.REPO, os.path.join(fw.LEAN, "NmlVerif", "Gen", "FixExternal.lean"))


def replay(ctx, payload):
    c = payload.get("case", payload)
    case = c["case"] if isinstance(c, dict) and "case" in c else c
    import contextlib
    import io
    with contextlib.redirect_stdout(io.StringIO()), contextlib.redirect_stderr(io.StringIO()):   # the library prints
        if isinstance(c, dict) and c.get("stream") == "parse":
            run_parse_cases(ctx, [case])
        elif isinstance(case, dict) and case.get("_history"):
            run_cases(ctx, [json.loads(json.dumps(h)) for h in case["_history"]] + [case], shared_root=True)
        else:
            run_cases(ctx, [case])
    return {"fails": bool(ctx.failures or ctx.corr_disagreements), "failures": [{"key": f["key"], "what": f["what"]} for f in ctx.failures],
            "disagreements": ctx.corr_disagreements[:3]}
