"""C17 - resolving external morphology/biophysics references embeds independent copies.

Tie: hand model (lean/NmlVerif/Model/FixExternal.lean) + correspondence on generated documents (0-5 cells, every mix
of embedded / referenced / dangling morphology and biophysics, shared references, definitions in the document or in
included files materialised on disk, three ways of creating the objects) for overwrite=True and overwrite=False, with
object identities compared through first-visit numbering; the same runs are judged by a harness-side oracle that
states the property on the real objects (`is`, `id()`, mutation of copies); `NeuroMLXMLParser.parse` is exercised
as a caller on files.
"""
import copy
import json
import os
import shutil
import tempfile

import fw

LEAN_PROPS = ["NmlVerif.Props.C17"]
LEVEL = "proof"
RULE = ("random documents: 0-5 cells (thorough 0-8) + 0-2 Cell2CaPools, per cell and kind one of {nothing, embedded, "
        "embedded+attribute, reference to a local / included / nested-included / undefined id}, 0-3 local definitions and "
        "0-3 included files (ids collide on purpose: same id locally and in files, twice in one list, same id for both "
        "kinds), hrefs plain / './' / 'sub/' / '../' / absolute / missing, two working directories, objects built by "
        "constructors / read back from a file (parent_object_ set) / mixed / with aliased objects; each case is run with overwrite=True and "
        "overwrite=False. Non-trivial = at least two cells share one reference that resolves; distinct = distinct "
        "canonical (case, overwrite) descriptions. Second stream: NeuroMLXMLParser.parse on files with nested includes.")
TRUST = [
    "hand-written model of utils.fix_external_morphs_biophys_in_cell (repaired tree), tied by correspondence only",
    "copy.deepcopy is modelled (fresh object per object, memo for the parent reference), not verified",
    "reading an included file is modelled as allocation of fresh objects from a template obtained with the same loader",
]
ASSUMPTIONS = [
    "the document is a tree: no object is reachable twice (c17_independent assumes doc.ids.Nodup); documents in which a cell embeds the very object that is also a top-level definition are generated for the oracle and for the overwrite=True correspondence only",
    "parent_object_ of an object below a document is None or its container (what constructors and the XML reader produce); "
    "for overwrite=False on documents holding elements read from another document the parent references of the returned copy are not compared",
    "every <include> of the document names a readable NeuroML XML file, else the loader calls sys.exit() (modelled, theorem "
    "c17_unreadable_include; outside the property); includes of included files are not followed by the function",
    "ids are strings",
]

SKIP = ("parent_object_", "gds_collector_", "gds_elementtree_node_")
KNOWN_DOC_LISTS = ("includes", "morphology", "biophysical_properties", "cells", "cell2_ca_poolses")
IDS = ["m1", "m2", "b1", "x", "a b", "m-1.x", "ü"]


def GDS():
    import neuroml.nml.nml as m
    return m.GeneratedsSuper


# ---------------------------------------------------------------- building real objects from a case description
def mk_morph(spec):
    import neuroml as n
    m = n.Morphology(id=spec["id"], notes=spec["tag"])
    for i in range(spec.get("nseg", 1)):
        s = n.Segment(id=i, name="s%d" % i,
                      proximal=n.Point3DWithDiam(x=float(i), y=0.0, z=0.0, diameter=1.0),
                      distal=n.Point3DWithDiam(x=float(i + 1), y=0.0, z=0.0, diameter=0.5))
        if i > 0:
            s.parent = n.SegmentParent(segments=i - 1)
        m.segments.append(s)
    for g in range(spec.get("ngrp", 0)):
        sg = n.SegmentGroup(id="g%d" % g)
        sg.members.append(n.Member(segments=0))
        m.segment_groups.append(sg)
    return m


def mk_bio(spec):
    import neuroml as n
    mp = n.MembraneProperties()
    for i in range(spec.get("nchan", 1)):
        mp.channel_densities.append(n.ChannelDensity(id="cd%d" % i, ion_channel="na", cond_density="1 mS_per_cm2",
                                                     erev="50 mV", ion="na"))
    mp.specific_capacitances.append(n.SpecificCapacitance(value="1 uF_per_cm2"))
    ip = n.IntracellularProperties()
    ip.resistivities.append(n.Resistivity(value="0.1 kohm_cm"))
    return n.BiophysicalProperties(id=spec["id"], notes=spec["tag"], membrane_properties=mp, intracellular_properties=ip)


def mk_cell(spec):
    import neuroml as n
    cls = n.Cell2CaPools if spec.get("kind") == "Cell2CaPools" else n.Cell
    c = cls(id=spec["id"], notes=spec.get("notes"))
    c.morphology_attr = spec["m_attr"]
    c.biophysical_properties_attr = spec["b_attr"]
    if spec["m_elem"] is not None:
        c.morphology = mk_morph(spec["m_elem"])
    if spec["b_elem"] is not None:
        c.biophysical_properties = mk_bio(spec["b_elem"])
    return c


def sub_root(s, root):
    return s.replace("{ROOT}", root)


def mk_doc(d, root, with_net=False):
    import neuroml as n
    doc = n.NeuroMLDocument(id=d.get("id", "doc"))
    for h in d["includes"]:
        doc.includes.append(n.IncludeType(href=sub_root(h, root)))
    for s in d["morphs"]:
        doc.morphology.append(mk_morph(s))
    for s in d["bios"]:
        doc.biophysical_properties.append(mk_bio(s))
    for s in d["cells"]:
        if s.get("kind") == "Cell2CaPools":
            doc.cell2_ca_poolses.append(mk_cell(s))
        else:
            doc.cells.append(mk_cell(s))
    if with_net or d.get("net"):
        net = n.Network(id="net")
        comp = d["cells"][0]["id"] if d["cells"] else "none"
        net.populations.append(n.Population(id="pop", component=comp, size=2))
        doc.networks.append(net)
    return doc


def materialise(case, root):
    """write the include files; return {normalised relative path: file spec}"""
    import neuroml.writers as w
    for sd in ("sub", "other", "work"):
        os.makedirs(os.path.join(root, sd), exist_ok=True)
    table = {}
    for f in case["files"]:
        doc = mk_doc({"id": "inc", "includes": f.get("includes", []), "morphs": f["morphs"], "bios": f["bios"],
                      "cells": f.get("cells", [])}, root)
        p = os.path.join(root, f["path"])
        w.NeuroMLWriter.write(doc, p)
        table[os.path.normpath(f["path"])] = f
    return table


def build_input(case, root):
    """the document object handed to the function, created the way case['origin'] says; returns (doc, keepalive)"""
    import neuroml.loaders as L
    import neuroml.writers as w
    origin = case.get("origin", "built")
    doc = mk_doc(case["doc"], root)
    keep = []
    if origin == "loaded":
        p = os.path.join(root, "work", "input_doc.nml")
        w.NeuroMLWriter.write(doc, p)
        doc = L.read_neuroml2_file(p)
    elif origin == "aliased":
        # the same object in two places: a cell embeds the very object that is also a top-level definition
        byid = {c.id: c for c in list(doc.cells) + list(doc.cell2_ca_poolses)}
        for spec in case["doc"]["cells"]:
            if spec.get("alias_m") and doc.morphology:
                byid[spec["id"]].morphology = doc.morphology[0]
            if spec.get("alias_b") and doc.biophysical_properties:
                byid[spec["id"]].biophysical_properties = doc.biophysical_properties[-1]
    elif origin == "mixed":
        # constructor-built document whose top-level definitions were read from another document
        p = os.path.join(root, "work", "donor_doc.nml")
        w.NeuroMLWriter.write(doc, p)
        donor = L.read_neuroml2_file(p)
        keep.append(donor)
        doc.morphology = list(donor.morphology)
        doc.biophysical_properties = list(donor.biophysical_properties)
    return doc, keep


# ---------------------------------------------------------------- snapshots
def osnap(o, label=""):
    """generateDS object -> {"o": id, "p": id(parent_object_)|None, "s": payload, "k": contained objects}; lists are flattened"""
    G = GDS()
    prims, kids = [], []
    for k, v in o.__dict__.items():
        if k in SKIP:
            continue
        if isinstance(v, G):
            kids.append(osnap(v, k))
        elif isinstance(v, list):
            plain = []
            for j, x in enumerate(v):
                if isinstance(x, G):
                    kids.append(osnap(x, "%s[%d]" % (k, j)))
                else:
                    plain.append(repr(x))
            if plain:
                prims.append("%s=[%s]" % (k, ",".join(plain)))
        elif v is not None:
            prims.append("%s=%r" % (k, v))
    par = getattr(o, "parent_object_", None)
    return {"o": id(o), "p": (id(par) if par is not None else None),
            "s": "%s:%s(%s)" % (label, type(o).__name__, ";".join(prims)), "k": kids}


def prims_of(o, drop=()):
    G = GDS()
    out = []
    for k, v in o.__dict__.items():
        if k in SKIP or k in drop or isinstance(v, (G, list)) or v is None:
            continue
        out.append("%s=%r" % (k, v))
    return "%s(%s)" % (type(o).__name__, ";".join(out))


def esnap(e):
    return {"id": e.id, "obj": osnap(e, "")}


def csnap(c):
    par = getattr(c, "parent_object_", None)
    return {"o": id(c), "p": (id(par) if par is not None else None),
            "s": prims_of(c, drop=("morphology_attr", "biophysical_properties_attr")),
            "m": {"attr": c.morphology_attr, "elem": esnap(c.morphology) if c.morphology is not None else None},
            "b": {"attr": c.biophysical_properties_attr,
                  "elem": esnap(c.biophysical_properties) if c.biophysical_properties is not None else None}}


def dsnap(doc):
    """typed snapshot of a document, raw id()s as identities (schema of Drivers/C17.lean)"""
    G = GDS()
    other = []
    for k, v in doc.__dict__.items():
        if k in SKIP or k in KNOWN_DOC_LISTS:
            continue
        if isinstance(v, G):
            other.append(osnap(v, k))
        elif isinstance(v, list):
            for j, x in enumerate(v):
                if isinstance(x, G):
                    other.append(osnap(x, "%s[%d]" % (k, j)))
    incs = []
    for i in doc.includes:
        par = getattr(i, "parent_object_", None)
        incs.append({"o": id(i), "p": (id(par) if par is not None else None), "href": i.href})
    return {"o": id(doc), "s": prims_of(doc), "includes": incs,
            "morphs": [esnap(m) for m in doc.morphology], "bios": [esnap(b) for b in doc.biophysical_properties],
            "cells": [csnap(c) for c in doc.cells], "cells2": [csnap(c) for c in doc.cell2_ca_poolses], "other": other}


def canon(d, table, drop_parents=False):
    """renumber identities: known ones through `table`, new ones by first visit; parents resolved afterwards.
    Mutates and extends `table` (a copy is made by the caller when needed)."""
    d = copy.deepcopy(d)
    pend = []

    def num(i):
        if i not in table:
            table[i] = len(table)
        return table[i]

    def obj(o):
        o["o"] = num(o["o"])
        pend.append(o)
        for k in o["k"]:
            obj(k)

    def cell(c):
        c["o"] = num(c["o"])
        pend.append(c)
        for s in ("m", "b"):
            if c[s]["elem"] is not None:
                obj(c[s]["elem"]["obj"])

    d["o"] = num(d["o"])
    for i in d["includes"]:
        i["o"] = num(i["o"])
        pend.append(i)
    for e in d["morphs"]:
        obj(e["obj"])
    for e in d["bios"]:
        obj(e["obj"])
    for c in d["cells"]:
        cell(c)
    for c in d["cells2"]:
        cell(c)
    for o in d["other"]:
        obj(o)
    for x in pend:
        if x["p"] is not None:
            x["p"] = None if drop_parents else num(x["p"])
    return d


def shape(o):
    """identity-free structure of an osnap"""
    return [o["s"], [shape(k) for k in o["k"]]]


def walk_ids(o, seen, follow_parent):
    """ids of every generateDS object and list reachable from `o` (lists included: their identity matters too)"""
    G = GDS()
    stack = [o]
    out = []
    while stack:
        x = stack.pop()
        if id(x) in seen:
            out.append(id(x))       # visited twice: reported to the caller through duplicates
            continue
        seen[id(x)] = x
        out.append(id(x))
        if isinstance(x, list):
            stack.extend(v for v in x if isinstance(v, (G, list)))
        else:
            for k, v in x.__dict__.items():
                if k in ("gds_collector_", "gds_elementtree_node_"):
                    continue
                if k == "parent_object_":
                    if follow_parent and v is not None:
                        stack.append(v)
                    continue
                if isinstance(v, (G, list)):
                    stack.append(v)
    return out


def full_dump(doc):
    """identity-level dump of everything below a document (for 'the input is unchanged')"""
    G = GDS()

    def go(x):
        if isinstance(x, list):
            return ["L", id(x), [go(v) if isinstance(v, (G, list)) else repr(v) for v in x]]
        d = []
        for k, v in x.__dict__.items():
            if k in ("gds_collector_", "gds_elementtree_node_"):
                continue
            if k == "parent_object_":
                d.append([k, id(v) if v is not None else None])
            elif isinstance(v, (G, list)):
                d.append([k, go(v)])
            else:
                d.append([k, repr(v)])
        return ["O", id(x), type(x).__name__, d]
    return go(doc)


# ---------------------------------------------------------------- reference resolution (harness side)
def resolve_href(case, table, href):
    """file spec that `read_neuroml2_file(href)` reads from the case's working directory, or None"""
    if href.startswith("{ROOT}/"):
        p = os.path.normpath(href[len("{ROOT}/"):])
    else:
        p = os.path.normpath(os.path.join(case["cwd"], href))
    if p.startswith(".."):
        return None
    return table.get(p)


def templates(case, root, table):
    """[[href as the document spells it, {"morphs": [...], "bios": [...]}]] for the model: what the loader makes of each file"""
    import neuroml.loaders as L
    out, seen = [], set()
    old = os.getcwd()
    os.chdir(os.path.join(root, case["cwd"]))
    try:
        for h in case["doc"]["includes"]:
            hh = sub_root(h, root)
            if hh in seen:
                continue
            seen.add(hh)
            if resolve_href(case, table, h) is None:
                continue
            d = L.read_neuroml2_file(hh, verbose=False, optimized=True)
            out.append([hh, {"morphs": [esnap(m) for m in d.morphology],
                             "bios": [esnap(b) for b in d.biophysical_properties]}])
    finally:
        os.chdir(old)
    tab = {}
    for _, fd in out:
        for k in ("morphs", "bios"):
            for e in fd[k]:
                canon_obj_ids(e["obj"], tab)
    return out


def canon_obj_ids(o, tab):
    """templates carry meaningless identities: small numbers, parent present -> 0"""
    o["o"] = tab.setdefault(o["o"], len(tab))
    o["p"] = 0 if o["p"] is not None else None
    for k in o["k"]:
        canon_obj_ids(k, tab)


# ---------------------------------------------------------------- real run
def run_real(case, root, overwrite, table):
    from neuroml.utils import fix_external_morphs_biophys_in_cell as fix
    doc, keep = build_input(case, root)
    pre = dsnap(doc)
    pre_dump = full_dump(doc)
    seen_pre = {}
    pre_tree = walk_ids(doc, seen_pre, False)
    seen_pre_all = {}
    walk_ids(doc, seen_pre_all, True)
    pre_refs = {"cells": [(c, c.morphology, c.biophysical_properties, c.morphology_attr, c.biophysical_properties_attr)
                          for c in doc.cells],
                "cells2": [(c, c.morphology, c.biophysical_properties, c.morphology_attr, c.biophysical_properties_attr)
                           for c in doc.cell2_ca_poolses],
                "morphs": list(doc.morphology), "bios": list(doc.biophysical_properties)}
    old = os.getcwd()
    os.chdir(os.path.join(root, case["cwd"]))
    res, arg, ret = "ok", "", None
    try:
        try:
            ret = fix(doc, overwrite=overwrite)
        except KeyError as e:
            res, arg = "KeyError", (e.args[0] if e.args else "")
        except SystemExit:
            res = "SystemExit"
        except Exception as e:  # noqa
            res, arg = "exc:" + type(e).__name__, str(e)[:80]
    finally:
        os.chdir(old)
    return {"doc": doc, "keep": keep, "pre": pre, "pre_dump": pre_dump, "pre_tree": pre_tree, "seen_pre": seen_pre,
            "seen_pre_all": seen_pre_all, "pre_refs": pre_refs, "res": res, "arg": arg, "ret": ret}


# ---------------------------------------------------------------- oracle: the property on the real objects
def spec_defs(case, table, kind):
    """ids visible to the call for `kind` in ('morphs','bios'): {id: n_definitions}, and whether an include is unreadable"""
    ids = {}
    unreadable = False
    for h in case["doc"]["includes"]:
        f = resolve_href(case, table, h)
        if f is None:
            unreadable = True
            continue
        for s in f[kind]:
            ids[s["id"]] = ids.get(s["id"], 0) + 1
    for s in case["doc"][kind]:
        ids[s["id"]] = ids.get(s["id"], 0) + 1
    return ids, unreadable


def slot_kind(c, which):
    a, e = (c["m_attr"], c["m_elem"]) if which == "m" else (c["b_attr"], c["b_elem"])
    if e is not None:
        return "embedded+attr" if a is not None else "embedded"
    return "ref" if a is not None else "none"


def classify(case, table):
    dm, u1 = spec_defs(case, table, "morphs")
    db, u2 = spec_defs(case, table, "bios")
    dangling, refs, dangling2, refs2 = [], [], [], []
    for c in case["doc"]["cells"]:
        two = c.get("kind") == "Cell2CaPools"
        for which, defs in (("m", dm), ("b", db)):
            if slot_kind(c, which) == "ref":
                a = c["m_attr"] if which == "m" else c["b_attr"]
                (refs2 if two else refs).append((c["id"], which, a))
                if a not in defs:
                    (dangling2 if two else dangling).append(a)
    return {"dm": dm, "db": db, "unreadable": u1 or u2, "dangling": dangling, "refs": refs,
            "dangling2": dangling2, "refs2": refs2}


def key_of(prefix, case, overwrite):
    return "C17:%s:%s:overwrite=%s" % (prefix, case.get("origin", "built"), overwrite)


def oracle(ctx, case, root, table, overwrite, R, tmpl, payload):
    """judge one real run by the property statement; `tmpl` = shapes of the file definitions"""
    cl = classify(case, table)
    doc, ret, res = R["doc"], R["ret"], R["res"]

    def fail(prefix, what):
        ctx.fail(key_of(prefix, case, overwrite), what, payload)

    # overwrite=False: the document passed in is unchanged, whatever the outcome
    if not overwrite:
        if full_dump(doc) != R["pre_dump"]:
            fail("input-changed", "overwrite=False modified the document passed in")
    if cl["unreadable"]:
        ctx.count("oracle:include-unreadable(outside property)")
        if res != "SystemExit":
            fail("unreadable-include-outcome", "unreadable include did not stop the call: %s" % res)
        elif full_dump(doc) != R["pre_dump"]:
            fail("input-changed", "document modified although the call stopped at an unreadable include")
        return
    if cl["dangling"]:
        ctx.count("oracle:dangling")
        if res != "KeyError":
            fail("dangling-no-keyerror", "a reference that cannot be resolved did not raise KeyError: %s %s" % (res, R["arg"]))
        elif R["arg"] not in cl["dangling"]:
            fail("keyerror-wrong-key", "KeyError for %r which is not a dangling reference %r" % (R["arg"], cl["dangling"]))
        return
    if res != "ok":
        fail("unexpected-exception", "every reference is defined but the call raised %s %s" % (res, R["arg"]))
        return
    ctx.count("oracle:resolved-run")
    if overwrite and ret is not doc:
        fail("return-identity", "overwrite=True did not return the document passed in")
        return
    if not overwrite and ret is doc:
        fail("return-identity", "overwrite=False returned the document passed in")
        return
    # candidate definitions by id: shapes of local definitions (of the returned document) and of file definitions
    cand = {"m": {}, "b": {}}
    for which, lst in (("m", ret.morphology), ("b", ret.biophysical_properties)):
        for e in lst:
            cand[which].setdefault(e.id, []).append(shape(osnap(e)))
    for _, fd in tmpl:
        for which, k in (("m", "morphs"), ("b", "bios")):
            for e in fd[k]:
                cand[which].setdefault(e["id"], []).append(shape(e["obj"]))
    if len(ret.cells) != len(doc.cells):
        fail("cell-count", "number of cells changed")
        return
    copies = []      # (cell, which, element)
    for k, c in enumerate(ret.cells):
        pc, pm, pb, pma, pba = R["pre_refs"]["cells"][k]
        if overwrite and c is not pc:
            fail("cell-identity", "cell object replaced")
            return
        for which, pe, pa, e, a in (("m", pm, pma, c.morphology, c.morphology_attr),
                                     ("b", pb, pba, c.biophysical_properties, c.biophysical_properties_attr)):
            if pe is not None:
                # already embedded: left as it is
                if overwrite and (e is not pe or a != pa):
                    fail("embedded-touched", "a cell that already embeds the element was changed")
                if not overwrite and (e is None or a != pa or shape(osnap(e)) != shape(osnap(pe))):
                    fail("embedded-touched", "a cell that already embeds the element differs in the returned copy")
                continue
            if pa is None:
                if e is not None or a is not None:
                    fail("spurious-element", "a cell without reference got an element")
                continue
            # a reference to resolve
            if e is None:
                fail("not-embedded", "a referencing cell has no embedded element after the call")
                continue
            if a is not None:
                fail("reference-not-cleared", "the reference attribute was not cleared")
            if e.id != pa:
                fail("wrong-element", "embedded element has id %r, reference was %r" % (e.id, pa))
            elif shape(osnap(e)) not in cand[which].get(pa, []):
                fail("copy-not-equal", "embedded element is not structurally equal to a definition of %r" % pa)
            copies.append((c, which, e))
    # independence: no object (or list) of the result is reachable twice; copies are new objects
    seen = {}
    ids_post = walk_ids(ret, seen, False)
    if len(set(R["pre_tree"])) == len(R["pre_tree"]) and len(set(ids_post)) != len(ids_post):
        fail("shared-object", "an object is reachable twice in the result: copies are not independent")
    for c, which, e in copies:
        s2 = {}
        for i in walk_ids(e, s2, False):
            if i in R["seen_pre"]:
                fail("copy-not-fresh", "an embedded copy contains an object of the input document")
                break
    if not overwrite:
        if set(ids_post) & set(R["pre_tree"]):
            fail("result-shares-input", "the document returned with overwrite=False shares objects with the input")
    # no stray allocation: everything reachable (also through parent_object_) is the result tree or existed before
    if overwrite or len(R["seen_pre_all"]) == len(R["seen_pre"]):
        sa = {}
        walk_ids(ret, sa, True)
        stray = [i for i in sa if i not in seen and i not in R["seen_pre_all"]]
        if stray:
            ctx.count("oracle:stray-objects", len(stray))
            fail("stray-allocation", "the call allocated %d objects besides the embedded copies (copies of the source's "
                 "document hanging off parent_object_; the number doubles with every cell)" % len(stray))
    for c, which, e in copies:
        par = getattr(e, "parent_object_", None)
        if par is not None and par is not c:
            fail("copy-parent", "parent_object_ of an embedded copy is neither None nor its cell")
            break
    # mutation: changing one copy must not show in another copy nor in any definition
    if copies:
        def all_shapes(skip):
            out = []
            for (c, w, e) in copies:
                if e is not skip:
                    out.append(shape(osnap(e)))
            for e in list(ret.morphology) + list(ret.biophysical_properties) + R["pre_refs"]["morphs"] + R["pre_refs"]["bios"]:
                out.append(shape(osnap(e)))
            return out
        for (c, w, e) in copies[:4]:
            before = all_shapes(e)
            mutate(e)
            if all_shapes(e) != before:
                fail("mutation-leaks", "mutating one embedded copy changed another copy or a definition")
                break
    # Cell2CaPools (subclass of Cell, kept in doc.cell2_ca_poolses)
    for k, c in enumerate(ret.cell2_ca_poolses):
        pc, pm, pb, pma, pba = R["pre_refs"]["cells2"][k]
        if (pm is None and pma is not None and c.morphology is None) or \
                (pb is None and pba is not None and c.biophysical_properties is None):
            ctx.fail("C17:cell2capools-not-resolved", "Cell2CaPools reference left unresolved", payload)
            break


def mutate(e):
    import neuroml as n
    e.notes = (e.notes or "") + "_mutated"
    if hasattr(e, "segments"):
        e.segments.append(n.Segment(id=99, name="extra"))
        if len(e.segments) > 1:
            if e.segments[0].proximal is not None:
                e.segments[0].proximal.x = 12345.0
            e.segments[0].name = "renamed"
    if hasattr(e, "membrane_properties") and e.membrane_properties is not None:
        e.membrane_properties.channel_densities.append(n.ChannelDensity(id="extra"))
        if e.membrane_properties.specific_capacitances:
            e.membrane_properties.specific_capacitances[0].value = "9 uF_per_cm2"


# ---------------------------------------------------------------- one case: model + real + oracle
def model_line(pre_c, n, overwrite, tmpl):
    return json.dumps({"doc": pre_c, "overwrite": overwrite, "files": tmpl, "n": n})


def compare(ctx, case, overwrite, R, table_pre, n, mout, payload):
    """correspondence: outcome, state of the input afterwards, returned document - identities by first-visit numbering"""
    if case.get("origin") == "aliased" and not overwrite:
        ctx.count("corr-skipped:aliased+overwrite=False (deepcopy memo keeps aliases; the model is over trees)")
        return
    ctx.corr_evals += 1
    mixed_copy = (not overwrite) and case.get("origin") == "mixed"
    real = {"res": R["res"], "arg": R["arg"] if R["res"] == "KeyError" else ""}
    t = dict(table_pre)
    real["input"] = canon(dsnap(R["doc"]), t)
    real["ret"] = canon(dsnap(R["ret"]), t, drop_parents=mixed_copy) if R["res"] == "ok" else None
    if "error" in mout or "res" not in mout:
        ctx.disagree("fix-model", payload, real["res"], mout)
        return
    tm = {i: i for i in range(n)}
    model = {"res": mout["res"], "arg": mout["arg"] if mout["res"] == "KeyError" else ""}
    model["input"] = canon(mout["input"], tm)
    model["ret"] = canon(mout["ret"], tm, drop_parents=mixed_copy) if mout["res"] == "ok" else None
    if real != model:
        diff = [k for k in real if real[k] != model[k]]
        ctx.disagree("fix-model", payload, {k: real[k] for k in diff}, {k: model[k] for k in diff})
        return
    if overwrite:
        # which pre-existing objects were assigned to
        changed = set()
        for (c, pm, pb, pma, pba) in R["pre_refs"]["cells"] + R["pre_refs"]["cells2"]:
            if c.morphology is not pm or c.biophysical_properties is not pb or c.morphology_attr != pma \
                    or c.biophysical_properties_attr != pba:
                changed.add(table_pre[id(c)])
        if changed != set(mout["writes"]):
            ctx.disagree("fix-model-writes", payload, sorted(changed), sorted(set(mout["writes"])))


def run_cases(ctx, cases):
    """materialise each case, run the real function twice (overwrite True/False), the model on the same inputs"""
    jobs = []
    roots = []
    lines = []
    try:
        for case in cases:
            root = tempfile.mkdtemp(prefix="verif_c17_")
            roots.append(root)
            table = materialise(case, root)
            tmpl = templates(case, root, table)
            for overwrite in (True, False):
                R = run_real(case, root, overwrite, table)
                tp = {}
                pre_c = canon(R["pre"], tp)
                n = len(tp)
                lines.append(model_line(pre_c, n, overwrite, tmpl))
                jobs.append((case, root, table, tmpl, overwrite, R, tp, n))
        rc, out = fw.run_driver("C17", lines)
        if rc != 0 or len(out) != len(lines):
            ctx.disagree("driver", "driver failed rc=%s" % rc, "\n".join(out[-5:]), None)
            mouts = [{"error": "driver"}] * len(lines)
        else:
            mouts = [json.loads(l) for l in out]
        results = {}
        for (case, root, table, tmpl, overwrite, R, tp, n), mout in zip(jobs, mouts):
            payload = {"case": case, "overwrite": overwrite}
            cl = classify(case, table)
            shared = len(cl["refs"]) - len(set((w, a) for (_, w, a) in cl["refs"]))
            nontrivial = shared > 0 and not cl["dangling"] and not cl["unreadable"]
            ctx.seen({"case": case, "overwrite": overwrite}, nontrivial=nontrivial)
            ctx.count("res:" + R["res"])
            ctx.count("origin:" + case.get("origin", "built"))
            ctx.count("cells:%d" % len([c for c in case["doc"]["cells"] if c.get("kind") != "Cell2CaPools"]))
            for c in case["doc"]["cells"]:
                ctx.count("slot:" + slot_kind(c, "m"))
                ctx.count("slot:" + slot_kind(c, "b"))
            if shared:
                ctx.count("shared-reference")
            compare(ctx, case, overwrite, R, tp, n, mout, payload)
            R["ret_canon"] = canon(dsnap(R["ret"]), {}, drop_parents=True) if R["res"] == "ok" else None
            oracle(ctx, case, root, table, overwrite, R, tmpl, payload)
            results[(id(case), overwrite)] = R
        # overwrite=False returns a document equal to the one overwrite=True produces
        for case in cases:
            a, b = results.get((id(case), True)), results.get((id(case), False))
            if a is None or b is None:
                continue
            payload = {"case": case, "overwrite": "both"}
            if (a["res"], a["arg"]) != (b["res"], b["arg"]):
                ctx.fail(key_of("overwrite-outcome-differs", case, "both"),
                         "overwrite=True gives %s %s, overwrite=False gives %s %s" % (a["res"], a["arg"], b["res"], b["arg"]), payload)
            elif a["res"] == "ok":
                # identity-free comparison (first-visit numbering makes two trees of the same shape equal)
                if a["ret_canon"] != b["ret_canon"]:
                    ctx.fail(key_of("overwrite-result-differs", case, "both"),
                             "the document returned with overwrite=False differs from the overwrite=True result", payload)
        if cases:
            c0 = cases[-1]
            ctx.sample({"cwd": c0["cwd"], "origin": c0.get("origin"), "includes": c0["doc"]["includes"],
                        "local": [s["id"] for s in c0["doc"]["morphs"]] + [s["id"] for s in c0["doc"]["bios"]],
                        "cells": [[c["id"], slot_kind(c, "m"), c["m_attr"], slot_kind(c, "b"), c["b_attr"]] for c in c0["doc"]["cells"]],
                        "files": [[f["path"], [s["id"] for s in f["morphs"]], [s["id"] for s in f["bios"]]] for f in c0["files"]]})
    finally:
        for r in roots:
            shutil.rmtree(r, ignore_errors=True)


# ---------------------------------------------------------------- NeuroMLXMLParser.parse as a caller
def run_parse_cases(ctx, cases):
    """main file on disk (nested includes, merged by the loader), parse() must hand the network handler a document in
    which every cell is resolved - or let the KeyError out; the call it makes is compared with the model"""
    import neuroml.utils as U
    import neuroml.loaders as L
    import neuroml.writers as w
    from neuroml.hdf5.NeuroMLXMLParser import NeuroMLXMLParser
    from neuroml.hdf5.DefaultNetworkHandler import DefaultNetworkHandler
    lines, jobs, roots = [], [], []
    orig = U.fix_external_morphs_biophys_in_cell
    try:
        for case in cases:
            root = tempfile.mkdtemp(prefix="verif_c17p_")
            roots.append(root)
            table = materialise(case, root)
            main = os.path.join(root, "main_net.nml")
            w.NeuroMLWriter.write(mk_doc(case["doc"], root, with_net=True), main)
            calls = []

            def spy(doc, overwrite=True, _calls=calls):
                tp = {}
                pre = canon(dsnap(doc), tp)
                refs = [(c, c.morphology, c.biophysical_properties, c.morphology_attr, c.biophysical_properties_attr)
                        for c in doc.cells]
                pre_all = {}
                walk_ids(doc, pre_all, True)
                rec = {"doc": doc, "overwrite": overwrite, "pre": pre, "tp": tp, "n_includes": len(doc.includes),
                       "refs": refs, "pre_all": pre_all, "post": None}
                _calls.append(rec)
                try:
                    return orig(doc, overwrite)
                finally:
                    rec["post"] = canon(dsnap(doc), dict(tp))      # state of the document right after the call
            U.fix_external_morphs_biophys_in_cell = spy
            old = os.getcwd()
            os.chdir(os.path.join(root, case["cwd"]))
            res, arg = "ok", ""
            parser = NeuroMLXMLParser(DefaultNetworkHandler())
            try:
                try:
                    parser.parse(main)
                except KeyError as e:
                    res, arg = "KeyError", (e.args[0] if e.args else "")
                except SystemExit:
                    res = "SystemExit"
                except Exception as e:  # noqa
                    res, arg = "exc:" + type(e).__name__, str(e)[:80]
            finally:
                os.chdir(old)
                U.fix_external_morphs_biophys_in_cell = orig
            # reference: everything the main file and its (transitive) includes define
            ref = L.read_neuroml2_file(main, include_includes=True, already_included=[])
            jobs.append((case, calls, res, arg, parser, ref))
            if calls:
                lines.append(model_line(calls[0]["pre"], len(calls[0]["tp"]), True, []))
            else:
                lines.append(model_line(canon(dsnap(ref), {}), 0, True, []))
        rc, out = fw.run_driver("C17", lines)
        if rc != 0 or len(out) != len(lines):
            ctx.disagree("driver", "driver failed rc=%s" % rc, "\n".join(out[-5:]), None)
            mouts = [{"error": "driver"}] * len(lines)
        else:
            mouts = [json.loads(l) for l in out]
        for (case, calls, res, arg, parser, ref), mout in zip(jobs, mouts):
            payload = {"case": case, "stream": "parse"}
            dm = set(m.id for m in ref.morphology)
            db = set(b.id for b in ref.biophysical_properties)
            refs = [(c.id, "m", c.morphology_attr) for c in ref.cells if c.morphology_attr is not None and c.morphology is None] + \
                   [(c.id, "b", c.biophysical_properties_attr) for c in ref.cells
                    if c.biophysical_properties_attr is not None and c.biophysical_properties is None]
            dangling = [a for (_, wch, a) in refs if a not in (dm if wch == "m" else db)]
            shared = len(refs) - len(set((wch, a) for (_, wch, a) in refs))
            ctx.seen(payload, nontrivial=shared > 0 and not dangling)
            ctx.count("parse:res:" + res)
            if len(calls) != 1 or calls[0]["overwrite"] is not True:
                ctx.fail("C17:parse:no-single-inplace-call", "parse() did not call the function exactly once in place", payload)
                continue
            call = calls[0]
            if call["doc"] is not parser.nml_doc or call["n_includes"] != 0:
                ctx.fail("C17:parse:wrong-document", "parse() resolved a different document than the one it walks", payload)
                continue
            # correspondence with the model on the document parse() handed over
            ctx.corr_evals += 1
            if "error" in mout or "res" not in mout:
                ctx.disagree("parse-model", payload, res, mout)
            else:
                real = {"res": res, "arg": arg if res == "KeyError" else "", "doc": call["post"]}
                tm = {i: i for i in range(len(call["tp"]))}
                model = {"res": mout["res"], "arg": mout["arg"] if mout["res"] == "KeyError" else "", "doc": canon(mout["input"], tm)}
                if real != model:
                    diff = [k for k in real if real[k] != model[k]]
                    ctx.disagree("parse-model", payload, {k: real[k] for k in diff}, {k: model[k] for k in diff})
            # oracle
            if dangling:
                if res != "KeyError" or arg not in dangling:
                    ctx.fail("C17:parse:dangling-no-keyerror", "parse() of a file with a dangling reference gave %s %s" % (res, arg), payload)
                continue
            if res != "ok":
                ctx.fail("C17:parse:unexpected-exception", "parse() raised %s %s" % (res, arg), payload)
                continue
            doc = parser.nml_doc
            bad = None
            seen = {}
            ids_post = walk_ids(doc, seen, False)
            if len(set(ids_post)) != len(ids_post):
                bad = "an object is reachable twice after parse(): copies are not independent"
            for (c, pm, pb, pma, pba) in call["refs"]:
                for wch, pe, pa, e, a, defs in (("m", pm, pma, c.morphology, c.morphology_attr, doc.morphology),
                                                 ("b", pb, pba, c.biophysical_properties, c.biophysical_properties_attr, doc.biophysical_properties)):
                    if pe is not None:
                        if e is not pe or a != pa:
                            bad = "embedded element touched"
                    elif pa is not None:
                        if e is None or a is not None or e.id != pa:
                            bad = "cell %s not resolved after parse()" % c.id
                        elif shape(osnap(e)) not in [shape(osnap(d)) for d in defs if d.id == pa]:
                            bad = "embedded copy differs from every definition"
                        elif getattr(e, "parent_object_", None) not in (None, c):
                            bad = "parent_object_ of the embedded copy is not its cell"
            if bad:
                ctx.fail("C17:parse:copy-parent" if "parent_object_" in bad else "C17:parse:not-resolved", bad, payload)
                continue
            sa = {}
            walk_ids(doc, sa, True)
            stray = [i for i in sa if i not in seen and i not in call["pre_all"]]
            if stray:
                ctx.fail("C17:parse:stray-allocation", "parse() left %d objects hanging off parent_object_ (copies of the "
                         "whole document per cell; doubles with every cell)" % len(stray), payload)
    finally:
        U.fix_external_morphs_biophys_in_cell = orig
        for r in roots:
            shutil.rmtree(r, ignore_errors=True)


# ---------------------------------------------------------------- generator
def gen_elem(rng, kind, eid, tag):
    if kind == "m":
        return {"id": eid, "tag": tag, "nseg": rng.randint(0, 3), "ngrp": rng.randint(0, 1)}
    return {"id": eid, "tag": tag, "nchan": rng.randint(0, 2)}


def gen_case(rng, big=False, parse=False):
    ids = rng.sample(IDS, rng.randint(2, 5))
    cwd = rng.choice([".", ".", "sub"])
    if parse:
        cwd = rng.choice([".", "other"])
    nfiles = rng.choice([0, 1, 1, 2, 3])
    files = []
    dirs = ["", "", "sub/", "other/"]
    for k in range(nfiles):
        d = rng.choice(dirs)
        f = {"path": "%sinc%d.nml" % (d, k), "morphs": [], "bios": [], "includes": []}
        for j in range(rng.randint(0, 3)):
            f["morphs"].append(gen_elem(rng, "m", rng.choice(ids), "file%d.m%d" % (k, j)))
        for j in range(rng.randint(0, 2)):
            f["bios"].append(gen_elem(rng, "b", rng.choice(ids), "file%d.b%d" % (k, j)))
        files.append(f)
    # a file only reachable through another file's include (the function does not follow it; the loader in parse() does)
    nested_ids = []
    if files and rng.random() < 0.35:
        k = len(files)
        nid = rng.choice(ids + ["nested_only"])
        nested_ids.append(nid)
        nf = {"path": "other/nested%d.nml" % k, "morphs": [gen_elem(rng, "m", nid, "nested.m")],
              "bios": [gen_elem(rng, "b", nid, "nested.b")], "includes": []}
        host = rng.choice(files)
        host["includes"].append("{ROOT}/" + nf["path"] if not parse else os.path.relpath(nf["path"], os.path.dirname(host["path"]) or "."))
        files.append(nf)
    doc = {"includes": [], "morphs": [], "bios": [], "cells": []}
    for f in files:
        if f["path"].startswith("other/nested"):
            continue
        r = rng.random()
        rel = os.path.relpath(f["path"], cwd)
        if parse:
            href = f["path"]                                  # relative to the main file (root)
        elif r < 0.55:
            href = rel                                        # resolves from the working directory
        elif r < 0.7:
            href = "./" + rel
        elif r < 0.85:
            href = "{ROOT}/" + f["path"]
        elif r < 0.93:
            href = f["path"] if cwd != "." else "sub/../" + f["path"]   # relative to the document's directory, not to the cwd
        else:
            href = "missing_" + os.path.basename(f["path"])
        doc["includes"].append(href)
        if rng.random() < 0.12:
            doc["includes"].append(href)                      # the same file included twice
    for j in range(rng.choice([0, 1, 1, 2, 3])):
        doc["morphs"].append(gen_elem(rng, "m", rng.choice(ids), "local.m%d" % j))
    for j in range(rng.choice([0, 1, 1, 2])):
        doc["bios"].append(gen_elem(rng, "b", rng.choice(ids), "local.b%d" % j))
    defined = {"m": [s["id"] for s in doc["morphs"]] + [s["id"] for f in files if not f["path"].startswith("other/nested") for s in f["morphs"]],
               "b": [s["id"] for s in doc["bios"]] + [s["id"] for f in files if not f["path"].startswith("other/nested") for s in f["bios"]]}
    p_dangling = rng.choice([0.0, 0.0, 0.0, 0.1, 0.3])
    ncells = rng.randint(0, 8 if big else 5)
    shared_target = {"m": rng.choice(defined["m"]) if defined["m"] else None,
                     "b": rng.choice(defined["b"]) if defined["b"] else None}
    for k in range(ncells + rng.choice([0, 0, 0, 1, 2])):
        two = k >= ncells
        c = {"id": "c%d" % k, "kind": "Cell2CaPools" if two else "Cell", "notes": rng.choice([None, "n%d" % k])}
        for w in ("m", "b"):
            r = rng.random()
            attr, elem = None, None
            if r < 0.12:
                pass
            elif r < 0.27:
                elem = gen_elem(rng, w, "own%d" % k, "own")
            elif r < 0.35:
                elem = gen_elem(rng, w, "own%d" % k, "own")
                attr = rng.choice(ids + ["undefined_id"])
            elif rng.random() < p_dangling or not defined[w]:
                attr = rng.choice(["undefined_id", "nope"] + nested_ids + ids)
            elif rng.random() < 0.6:
                attr = shared_target[w]
            else:
                attr = rng.choice(defined[w])
            c[w + "_attr"], c[w + "_elem"] = attr, elem
        if two and rng.random() < 0.5:
            c["b_attr"], c["b_elem"] = None, None
        doc["cells"].append(c)
    origin = rng.choice(["built", "built", "loaded", "loaded", "mixed"])
    if not parse and rng.random() < 0.08:
        origin = "aliased"
        for c in doc["cells"]:
            if c["m_elem"] is not None and rng.random() < 0.7:
                c["alias_m"] = True
            if c["b_elem"] is not None and rng.random() < 0.7:
                c["alias_b"] = True
    return {"files": files, "doc": doc, "cwd": cwd, "origin": origin}


def E(kind, eid, tag, **kw):
    d = {"id": eid, "tag": tag}
    d.update({"nseg": 2, "ngrp": 1} if kind == "m" else {"nchan": 1})
    d.update(kw)
    return d


def C(cid, m_attr=None, m_elem=None, b_attr=None, b_elem=None, kind="Cell"):
    return {"id": cid, "kind": kind, "notes": None, "m_attr": m_attr, "m_elem": m_elem, "b_attr": b_attr, "b_elem": b_elem}


CORPUS = [
    # FIXED (fixes/C17-deepcopy-drags-parent-document.patch): document read from a file, nine cells share one
    # morphology; unrepaired code hangs a copy of the whole document (and of all earlier copies) on every copy
    {"files": [], "cwd": ".", "origin": "loaded",
     "doc": {"includes": [], "morphs": [E("m", "m1", "local")], "bios": [E("b", "b1", "local")],
             "cells": [C("c%d" % k, m_attr="m1", b_attr=("b1" if k % 2 else None)) for k in range(9)]}},
    # the same through an included file: every copy drags a copy of the included document
    {"files": [{"path": "sub/inc0.nml", "morphs": [E("m", "m1", "file")], "bios": [E("b", "m1", "file")], "includes": []}],
     "cwd": ".", "origin": "built",
     "doc": {"includes": ["sub/inc0.nml"], "morphs": [], "bios": [],
             "cells": [C("c0", m_attr="m1", b_attr="m1"), C("c1", m_attr="m1"), C("c2", b_attr="m1")]}},
    # collisions: id defined twice locally and in two files, document wins, later wins; one id for both kinds
    {"files": [{"path": "inc0.nml", "morphs": [E("m", "x", "f0.a"), E("m", "x", "f0.b", nseg=1)], "bios": [E("b", "x", "f0")], "includes": []},
               {"path": "other/inc1.nml", "morphs": [E("m", "x", "f1", nseg=3)], "bios": [], "includes": []}],
     "cwd": "sub", "origin": "built",
     "doc": {"includes": ["../inc0.nml", "{ROOT}/other/inc1.nml", "../inc0.nml"],
             "morphs": [E("m", "x", "l0", nseg=0), E("m", "m2", "l1"), E("m", "x", "l2", ngrp=0)], "bios": [],
             "cells": [C("c0", m_attr="x", b_attr="x"), C("c1", m_attr="x", m_elem=E("m", "own", "own")),
                       C("c2", m_attr="m2", b_attr="x"), C("c3")]}},
    # dangling in the middle: earlier cells already modified (overwrite=True), biophysics of the same cell dangling
    {"files": [], "cwd": ".", "origin": "mixed",
     "doc": {"includes": [], "morphs": [E("m", "m1", "local")], "bios": [],
             "cells": [C("c0", m_attr="m1"), C("c1", m_attr="m1", b_attr="b1"), C("c2", m_attr="m1")]}},
    # include that only resolves from the document's directory / missing: sys.exit()
    {"files": [{"path": "sub/inc0.nml", "morphs": [E("m", "m1", "file")], "bios": [], "includes": []}],
     "cwd": "sub", "origin": "built",
     "doc": {"includes": ["sub/inc0.nml"], "morphs": [], "bios": [], "cells": [C("c0", m_attr="m1")]}},
    # definition only in an include of an include: not followed -> KeyError
    {"files": [{"path": "inc0.nml", "morphs": [], "bios": [], "includes": ["{ROOT}/other/nested1.nml"]},
               {"path": "other/nested1.nml", "morphs": [E("m", "m1", "nested")], "bios": [], "includes": []}],
     "cwd": ".", "origin": "loaded",
     "doc": {"includes": ["inc0.nml"], "morphs": [], "bios": [], "cells": [C("c0", m_attr="m1")]}},
    # aliasing: c1 embeds the very object that is doc.morphology[0], c0 and c2 refer to it by id
    {"files": [], "cwd": ".", "origin": "aliased",
     "doc": {"includes": [], "morphs": [E("m", "m1", "local")], "bios": [],
             "cells": [C("c0", m_attr="m1"), dict(C("c1", m_elem=E("m", "m1", "local")), alias_m=True), C("c2", m_attr="m1")]}},
    # KNOWN FINDING C17:cell2capools-not-resolved
    {"files": [], "cwd": ".", "origin": "built",
     "doc": {"includes": [], "morphs": [E("m", "m1", "local")], "bios": [],
             "cells": [C("c0", m_attr="m1"), C("cc", m_attr="m1", kind="Cell2CaPools")]}},
]

PARSE_CORPUS = [
    # main file includes sub/inc0.nml which includes ../other/nested1.nml: the loader merges both, six cells share m1
    {"files": [{"path": "sub/inc0.nml", "morphs": [E("m", "m1", "file")], "bios": [], "includes": ["../other/nested1.nml"]},
               {"path": "other/nested1.nml", "morphs": [], "bios": [E("b", "b1", "nested")], "includes": []}],
     "cwd": "other", "origin": "file",
     "doc": {"includes": ["sub/inc0.nml"], "morphs": [E("m", "m2", "local")], "bios": [],
             "cells": [C("c%d" % k, m_attr=("m1" if k < 5 else "m2"), b_attr="b1") for k in range(6)]}},
    {"files": [], "cwd": ".", "origin": "file",
     "doc": {"includes": [], "morphs": [E("m", "m1", "local")], "bios": [],
             "cells": [C("c0", m_attr="m1"), C("c1", m_attr="gone")]}},
]


def run(ctx):
    big = ctx.tier == "thorough"
    n = ctx.n(500, 2500) * ctx.search_mult
    cases = [json.loads(json.dumps(c)) for c in CORPUS]
    for _ in range(n):
        cases.append(gen_case(ctx.rng, big=big))
    for i in range(0, len(cases), 60):
        run_cases(ctx, cases[i:i + 60])
    pn = ctx.n(100, 400) * ctx.search_mult
    pcases = [json.loads(json.dumps(c)) for c in PARSE_CORPUS]
    for _ in range(pn):
        pcases.append(gen_case(ctx.rng, big=False, parse=True))
    for i in range(0, len(pcases), 60):
        run_parse_cases(ctx, pcases[i:i + 60])


def replay(ctx, payload):
    c = payload.get("case", payload)
    case = c["case"] if isinstance(c, dict) and "case" in c else c
    import contextlib
    import io
    with contextlib.redirect_stdout(io.StringIO()), contextlib.redirect_stderr(io.StringIO()):   # the library prints
        if isinstance(c, dict) and c.get("stream") == "parse":
            run_parse_cases(ctx, [case])
        else:
            run_cases(ctx, [case])
    return {"fails": bool(ctx.failures or ctx.corr_disagreements), "failures": [{"key": f["key"], "what": f["what"]} for f in ctx.failures],
            "disagreements": ctx.corr_disagreements[:3]}
