"""C18 — array morphologies survive their file format; their views agree with the arrays.

Tie: hand model (lean/NmlVerif/Model/ArrayMorph.lean) + correspondence on generated arrays / documents against
the real `neuroml.arraymorph`, `ArrayMorphWriter`, `ArrayMorphLoader` (files in a tempfile.mkdtemp() directory);
the same cases are evaluated against a harness-side oracle that states the property directly on the numpy arrays.

Streams
  morph   one array triple -> len(segments), list(segments), segments[i] for chosen i (negative / out of range
          included), to_neuroml_morphology().segments
  toroot  one tree, every choice of new root (+ malformed indices), also chains of re-rootings on one object
  single  ArrayMorphWriter.write(ArrayMorphology) ; ArrayMorphLoader.load
  doc     ArrayMorphWriter.write(NeuroMLDocument with 0-3 cells and 0-3 stand-alone morphologies) ; load
"""
import json
import os
import shutil
import signal
import tempfile
from fractions import Fraction

import fw

LEAN_PROPS = ["NmlVerif.Props.C18"]
LEVEL = "proof"
RULE = ("random vertex/connectivity/mask triples, 1-60 vertices (thorough: up to 120): tree shapes random-recursive / "
        "chain / star / caterpillar / binary / broom, vertex numbering shuffled (parent index may exceed child index), "
        "dyadic coordinates (k/8, exact), masks none / with floating roots / wrong length; every new root for each tree and "
        "chains of 3 re-rootings; single morphologies and documents with 0-3 cells + 0-3 stand-alone morphologies "
        "(ids None / distinct / colliding). A case is non-trivial when it lies in the property's scope and: the tree has "
        ">= 3 vertices and is not the plain chain -1,0,1,.. (morph); additionally the new root is a valid non-root vertex "
        "(toroot); the document holds >= 2 morphologies / the single morphology >= 2 vertices (file). "
        "distinct = distinct canonical case descriptions")
TRUST = [
    "hand-written model of ArrayMorphology.to_root / segment_from_vertex_index / to_neuroml_morphology, SegmentList "
    "(__len__, __getitem__, sequence-protocol iteration) and of ArrayMorphWriter / ArrayMorphLoader, tied by correspondence only",
    "numpy indexing (negative indices wrap, out of range raises IndexError), np.where order, PyTables group/array storage and "
    "iteration of a group's children in sorted (code point) name order are modelled, not verified",
    "SegmentList.instantiated_segments (object cache) is not modelled; every query uses a fresh ArrayMorphology",
]
ASSUMPTIONS = [
    "object names are NeuroML ids ([A-Za-z_][A-Za-z0-9_]*) that PyTables accepts (not starting with _c_/_f_/_g_/_v_, non-empty)",
    "round trip theorem for documents assumes distinct top-level group names (cell ids + stand-alone morphology ids, after "
    "defaulting) and no cell morphology called 'vertices'; colliding names are open known findings",
    "view / conversion / re-rooting theorems assume a tree without floating vertices (one root, mask all false), as the "
    "property does; other inputs are covered bug-for-bug by correspondence only",
    "array element values travel through HDF5 unchanged (exact for the int64/bool/dyadic float64 values generated)",
]

DEN = 8


# ---------------------------------------------------------------- generators
def gen_tree(rng, n, shape=None):
    """parent list of a tree on 0..n-1 rooted at 0 in 'natural' numbering (parent < child)"""
    shape = shape or rng.choice(["rand", "rand", "rand", "chain", "star", "cat", "bin", "broom", "deep"])
    par = [-1] * n
    for v in range(1, n):
        if shape == "rand":
            par[v] = rng.randrange(v)
        elif shape == "chain":
            par[v] = v - 1
        elif shape == "star":
            par[v] = 0
        elif shape == "cat":
            par[v] = v - 1 if v % 2 == 1 or v < 2 else v - 2
        elif shape == "bin":
            par[v] = (v - 1) // 2
        elif shape == "broom":
            par[v] = v - 1 if v <= n // 2 else n // 2
        else:  # deep: mostly chain with occasional branch
            par[v] = v - 1 if rng.random() < 0.8 else rng.randrange(v)
    return par, shape


def relabel(rng, par, keep_root0=True):
    n = len(par)
    perm = list(range(n))
    if keep_root0:
        rest = perm[1:]
        rng.shuffle(rest)
        perm = [0] + rest
    else:
        rng.shuffle(perm)
    out = [None] * n
    for v in range(n):
        out[perm[v]] = -1 if par[v] == -1 else perm[par[v]]
    return out


def gen_vertices(rng, n, distinct=True):
    vs = []
    for i in range(n):
        # dyadic, distinct per vertex (first coordinate encodes the index so wrong-vertex errors are visible)
        vs.append([i * 8 + rng.randrange(8), rng.randrange(-40, 40), rng.randrange(-16, 16), 1 + rng.randrange(30)])
    return vs  # numerators over DEN


def gen_arr(rng, big=False, kind=None):
    """returns dict v (numerators), c, m (0/1 list or None), kind"""
    kind = kind or rng.choices(["tree0", "tree0id", "rerooted", "floating", "badmask"], [50, 15, 12, 15, 8])[0]
    nmax = 120 if big else 60
    r = rng.random()
    n = 1 + rng.randrange(4) if r < 0.12 else (1 + rng.randrange(12) if r < 0.6 else 1 + rng.randrange(nmax))
    par, shape = gen_tree(rng, n)
    if kind == "tree0id":
        c = par
    elif kind == "rerooted":
        c = relabel(rng, par, keep_root0=False)
    else:
        c = relabel(rng, par)
    m = None
    if kind == "floating" and n >= 2:
        # some non-root vertices become floating roots (connectivity -1, mask 1)
        c = list(c)
        m = [0] * n
        for v in rng.sample(range(1, n), rng.randint(1, min(3, n - 1))):
            c[v] = -1
            m[v] = 1
    elif kind == "floating":
        kind = "tree0"
    if kind == "badmask":
        ln = rng.choice([0, 1, n - 1, n + 1, n + 2]) if rng.random() < 0.5 else n
        m = [1 if rng.random() < 0.3 else 0 for _ in range(max(ln, 0))]
    intcoords = rng.random() < 0.2
    v = gen_vertices(rng, n)
    if intcoords:
        v = [[x * DEN for x in row] for row in v]
    return {"v": v, "c": c, "m": m, "kind": kind, "shape": shape, "int": intcoords}


IDS = ["a", "b", "c1", "A", "Z9", "_z", "a_", "a10", "a2", "cell", "m", "Morphology0", "Morphology1", "Cell0", "Cell1",
       "Morphology", "connectivity", "x"]


def gen_small_arr(rng):
    a = gen_arr(rng, kind=rng.choice(["tree0", "tree0", "floating", "rerooted"]))
    if len(a["c"]) > 12 and rng.random() < 0.7:
        return gen_small_arr(rng)
    return a


def gen_doc(rng, collide=False):
    nc, nm = rng.randint(0, 3), rng.randint(0, 3)
    pool = list(IDS)
    rng.shuffle(pool)

    def pick():
        r = rng.random()
        if r < 0.25:
            return None
        if collide and r < 0.55:
            return rng.choice(IDS[:6])
        return pool.pop()
    cells = []
    for _ in range(nc):
        a = gen_small_arr(rng)
        mid = None if rng.random() < 0.4 else rng.choice(["m", "morph", "Morphology", "a", "vertices" if collide else "v"])
        cells.append({"id": pick(), "mid": mid, "v": a["v"], "c": a["c"], "m": a["m"], "int": a["int"]})
    morphs = []
    for _ in range(nm):
        a = gen_small_arr(rng)
        morphs.append({"id": pick(), "v": a["v"], "c": a["c"], "m": a["m"], "int": a["int"]})
    return {"cells": cells, "morphs": morphs}


# ---------------------------------------------------------------- real library
class Hang(Exception):
    pass


def _alarm(signum, frame):
    raise Hang()


def guarded(fn, secs=2):
    old = signal.signal(signal.SIGALRM, _alarm)
    signal.setitimer(signal.ITIMER_REAL, secs)
    try:
        return fn()
    finally:
        signal.setitimer(signal.ITIMER_REAL, 0)
        signal.signal(signal.SIGALRM, old)


def mk_real(a, id=None):
    import numpy as np
    import neuroml.arraymorph as am
    if a.get("int"):
        v = np.array([[x // DEN for x in row] for row in a["v"]], dtype="int64").reshape(len(a["v"]), 4)
    else:
        v = np.array([[x / DEN for x in row] for row in a["v"]], dtype="float64").reshape(len(a["v"]), 4)
    return am.ArrayMorphology(vertices=v, connectivity=list(a["c"]), id=id,
                              physical_mask=None if a["m"] is None else list(a["m"]))


def num(x):
    f = Fraction(float(x)) * DEN if not isinstance(x, int) else Fraction(x) * DEN
    if f.denominator != 1:
        raise ValueError("inexact coordinate %r" % (x,))
    return int(f)


def canon_arrays(m):
    """(v numerators, c, mask 0/1) of a real ArrayMorphology"""
    v = [[num(x.item()) for x in row] for row in m.vertices] if len(m.vertices) else []
    c = [int(x) for x in m.connectivity.tolist()]
    mk = [int(bool(x)) for x in m.physical_mask.tolist()]
    return {"v": v, "c": c, "m": mk}


def canon_seg(s):
    def pt(p):
        return [num(p.x), num(p.y), num(p.z), num(p.diameter)]
    return [int(s.id), pt(s.proximal), pt(s.distal), None if s.parent is None else int(s.parent.segments)]


def exc_name(e):
    n = type(e).__name__
    return n if n in ("IndexError", "NodeError", "NoSuchNodeError", "UnboundLocalError") else "exc:" + n


def real_morph(a, idx):
    m = mk_real(a)
    arrs = canon_arrays(m)
    out = {"len": len(m.segments)}
    out["iter"] = [canon_seg(s) for s in mk_real(a).segments]
    get = []
    for i in idx:
        try:
            get.append(canon_seg(mk_real(a).segments[i]))
        except Exception as e:  # noqa
            get.append(exc_name(e))
    out["get"] = get
    try:
        out["conv"] = [canon_seg(s) for s in mk_real(a).to_neuroml_morphology(id="T").segments]
    except Exception as e:  # noqa
        out["conv"] = exc_name(e)
    return arrs, out


def close_tables():
    try:
        import tables
        tables.file._open_files.close_all()
    except Exception:
        pass


def real_file(case, root, k):
    """write + load; returns canonical result"""
    import neuroml
    from neuroml.loaders import ArrayMorphLoader
    from neuroml.writers import ArrayMorphWriter
    p = os.path.join(root, "f%d.h5" % k)
    try:
        if "cells" in case:
            doc = neuroml.NeuroMLDocument(id="d")
            for c in case["cells"]:
                cell = neuroml.Cell(id=c["id"])
                cell.morphology = mk_real(c, id=c["mid"])
                doc.cells.append(cell)
            for m in case["morphs"]:
                doc.morphology.append(mk_real(m, id=m["id"]))
            ArrayMorphWriter.write(doc, p)
        else:
            ArrayMorphWriter.write(mk_real(case, id=case["id"]), p)
        leaked = _open_count()
        loaded = ArrayMorphLoader.load(p)
        return {"res": "ok", "morphs": [canon_arrays(m) for m in loaded.morphology], "leaked": leaked}
    except Exception as e:  # noqa
        return {"res": exc_name(e), "leaked": _open_count(), "msg": str(e)[:100]}
    finally:
        close_tables()
        try:
            os.remove(p)
        except OSError:
            pass


def _open_count():
    try:
        import tables
        return len(tables.file._open_files._handlers)
    except Exception:
        return -1


# ---------------------------------------------------------------- oracle helpers (independent of the Lean model)
def is_tree(c, root):
    """exactly one -1 (at root), every other entry a valid index, every vertex reaches root"""
    n = len(c)
    if not (0 <= root < n) or c[root] != -1:
        return False
    for v in range(n):
        if v != root and not (0 <= c[v] < n):
            return False
    for v in range(n):
        x, steps = v, 0
        while x != root:
            x = c[x]
            steps += 1
            if steps > n:
                return False
    return True


def edges(c):
    return sorted(tuple(sorted((v, p))) for v, p in enumerate(c) if p != -1)


def eff_mask(a):
    """the mask the constructor keeps: all-false/None -> zeros(len(connectivity))"""
    if a["m"] is None or not any(a["m"]):
        return [0] * len(a["c"])
    return list(a["m"])


def in_scope(a):
    """the property's view/conversion clauses: a tree rooted at vertex 0, no floating vertices"""
    return is_tree(a["c"], 0) and not any(eff_mask(a)) and len(eff_mask(a)) == len(a["c"])


def strip(a):
    return {"v": a["v"], "c": a["c"], "m": a["m"], "int": a.get("int", False)}


def nontrivial_tree(c):
    n = len(c)
    return n >= 3 and c != list(range(-1, n - 1))


# ---------------------------------------------------------------- case runners
def morph_line(arrs, idx):
    return json.dumps({"op": "morph", "v": arrs["v"], "c": arrs["c"], "m": arrs["m"], "idx": idx})


def check_morph(ctx, a, idx, arrs, real, model):
    case = {"stream": "morph", "arr": strip(a), "idx": idx}
    scope = in_scope(a)
    ctx.seen(case, nontrivial=scope and nontrivial_tree(a["c"]))
    ctx.count("morph:" + a.get("kind", "corpus"))
    ctx.count("morph:n<=3" if len(a["c"]) <= 3 else ("morph:n<=12" if len(a["c"]) <= 12 else "morph:n>12"))
    ctx.corr_evals += 1
    if model != real:
        ctx.disagree("morph", case, real, model)
    # constructor keeps the arrays (sanity of the harness's own reading of the object)
    if arrs["v"] != a["v"] or arrs["c"] != a["c"] or arrs["m"] != eff_mask(a):
        ctx.fail("C18:constructor-changes-arrays", "ArrayMorphology does not hold the arrays it was given", case)
        return
    if not scope:
        return
    n = len(a["c"])
    want = [[v, a["v"][v], a["v"][a["c"][v]]] for v in range(1, n)]
    got_view = [s[:3] for s in real["iter"]]
    if real["len"] != n - 1 or len(real["iter"]) != n - 1:
        ctx.fail("C18:view-count", "segment view does not have one segment per non-root vertex (len=%s, iterated=%s, n=%d)"
                 % (real["len"], len(real["iter"]), n), case)
    elif got_view != want:
        bad = [i for i in range(n - 1) if got_view[i] != want[i]][0]
        ctx.fail("C18:view-endpoints", "segment %d of the view does not join vertex %d and its parent vertex" % (bad, bad + 1),
                 dict(case, got=real["iter"][bad], want=want[bad]))
    else:
        for i, g in zip(idx, real["get"]):
            if 0 <= i < n - 1 and g != real["iter"][i]:
                ctx.fail("C18:view-getitem", "segments[%d] differs from the %d-th iterated segment" % (i, i), case)
                break
    if real["conv"] != real["iter"]:
        if isinstance(real["conv"], list) and len(real["conv"]) == len(real["iter"]) and real["conv"] and \
                real["conv"][0][0] == 0:
            key = "C18:convert-bogus-root-segment"
        else:
            key = "C18:convert-differs-from-view"
        ctx.fail(key, "to_neuroml_morphology does not yield the segments of the view", dict(case, conv=real["conv"]))


HANGS = {"n": 0}
MAX_HANGS = 6     # each costs `secs` seconds; after that many, to_root calls are answered "skipped" (a disagreement)


def real_toroot_seq(a, js):
    """apply to_root(j) for j in js on ONE object; returns list of (conn before, result)"""
    m = mk_real(a)
    v0 = canon_arrays(m)
    out = []
    for j in js:
        before = [int(x) for x in m.connectivity.tolist()]
        if HANGS["n"] >= MAX_HANGS:
            out.append((before, {"res": "skipped-after-repeated-hangs"}))
            break
        try:
            guarded(lambda: m.to_root(j))
            after = canon_arrays(m)
            res = {"res": "ok", "arr": after}
        except Hang:
            HANGS["n"] += 1
            res = {"res": "outOfFuel"}
            out.append((before, res))
            break
        except Exception as e:  # noqa
            res = {"res": exc_name(e)}
        out.append((before, res))
        if res["res"] != "ok":
            break
    return v0, out


def check_toroot(ctx, a, v0, before, j, real, model, wellformed):
    case = {"stream": "toroot", "arr": dict(strip(a), c=before), "j": j}
    n = len(before)
    ctx.seen(case, nontrivial=wellformed and nontrivial_tree(before) and 0 <= j < n and before[j] != -1)
    ctx.count("toroot:wellformed" if wellformed and 0 <= j < n else "toroot:malformed")
    if real["res"] == "skipped-after-repeated-hangs":
        ctx.count("toroot:skipped-after-repeated-hangs")
        return
    ctx.corr_evals += 1
    if model != real:
        ctx.disagree("toroot", case, real, model)
    if not wellformed:
        return
    if not (0 <= j < n):
        return
    if real["res"] != "ok":
        ctx.fail("C18:toroot-raises", "to_root on a tree failed: %s" % real["res"], case)
        return
    after = real["arr"]
    if after["v"] != v0["v"] or after["m"] != v0["m"]:
        ctx.fail("C18:toroot-touches-other-arrays", "to_root changed vertices or mask", case)
    c2 = after["c"]
    if [v for v in range(n) if c2[v] == -1] != [j]:
        ctx.fail("C18:toroot-roots", "after to_root(%d) the roots are %s" % (j, [v for v in range(n) if c2[v] == -1]),
                 dict(case, after=c2))
    elif edges(c2) != edges(before):
        ctx.fail("C18:toroot-edges", "to_root changed the undirected edge set", dict(case, after=c2))
    elif not is_tree(c2, j):
        ctx.fail("C18:toroot-not-tree", "result of to_root is not a tree rooted at the new root", dict(case, after=c2))


def multiset(ms):
    return sorted(json.dumps(m, sort_keys=True) for m in ms)


def top_names(case):
    cells = [c["id"] if c["id"] is not None else "Cell%d" % k for k, c in enumerate(case["cells"])]
    morphs = [m["id"] if m["id"] is not None else "Morphology%d" % k for k, m in enumerate(case["morphs"])]
    return cells, morphs


def check_file(ctx, case, real, model):
    isdoc = "cells" in case
    canon = {"stream": "doc" if isdoc else "single", "case": case}
    items = (case["cells"] + case["morphs"]) if isdoc else [case]
    ctx.seen(canon, nontrivial=len(items) >= 2 if isdoc else len(case["c"]) >= 2)
    ctx.count("file:doc" if isdoc else "file:single")
    if isdoc:
        ctx.count("doc:cells=%d,morphs=%d" % (len(case["cells"]), len(case["morphs"])))
    ctx.corr_evals += 1
    r = {k: v for k, v in real.items() if k in ("res", "morphs")}
    if model != r:
        ctx.disagree("file", canon, r, model)
    # ---- full property: identical arrays for every morphology
    want = [{"v": x["v"], "c": x["c"], "m": eff_mask(x)} for x in items]
    if isdoc:
        cells, morphs = top_names(case)
        if len(set(cells)) != len(cells) or len(set(morphs)) != len(morphs):
            ctx.count("doc:duplicate-id-same-type(not a valid document)")
            return
        if set(cells) & set(morphs):
            ctx.count("doc:cell-id==morphology-id")
            if real["res"] != "ok" or multiset(real["morphs"]) != multiset(want):
                ctx.fail("C18:doc-cell-and-morphology-share-name",
                         "a cell and a stand-alone morphology with the same id cannot be written: %s" % real["res"], canon)
            return
        if any(c["mid"] == "vertices" for c in case["cells"]):
            ctx.count("doc:cell-morphology-named-vertices")
            if real["res"] != "ok" or multiset(real["morphs"]) != multiset(want):
                ctx.fail("C18:doc-cell-morphology-named-vertices",
                         "a cell whose morphology id is 'vertices' is mistaken for a morphology group on load: %s" % real["res"],
                         canon)
            return
    if real["res"] != "ok":
        nm = len(case["morphs"]) if isdoc else 0
        key = "C18:doc-standalone-unwritable" if (isdoc and nm and real["res"] in ("UnboundLocalError", "NodeError")) \
            else "C18:roundtrip-raises"
        ctx.fail(key, "write/load failed: %s %s (open handles left: %s)" % (real["res"], real.get("msg", ""), real.get("leaked")),
                 canon)
        return
    if multiset(real["morphs"]) != multiset(want):
        ctx.fail("C18:roundtrip-arrays-differ", "loaded arrays differ from the written ones", dict(canon, loaded=real["morphs"]))
    elif real.get("leaked"):
        ctx.fail("C18:handle-left-open", "writer left an HDF5 handle open", canon)


def file_line(case):
    def arrj(x):
        return {"v": x["v"], "c": x["c"], "m": eff_mask(x)}
    if "cells" in case:
        return json.dumps({"op": "doc",
                           "cells": [dict(arrj(c), id=c["id"], mid=c["mid"]) for c in case["cells"]],
                           "morphs": [dict(arrj(m), id=m["id"]) for m in case["morphs"]]})
    return json.dumps(dict(arrj(case), op="single", id=case["id"]))


def pick_idx(rng, n):
    cand = list(range(-n - 2, n + 3))
    rng.shuffle(cand)
    return sorted(cand[: min(len(cand), 8)])


def run_cases(ctx, morphs, toroots, files):
    """morphs: [(arr, idx)], toroots: [(arr, [j...], wellformed)], files: [case]"""
    lines, plan = [], []
    # morph stream (model input = the arrays the real object holds)
    for a, idx in morphs:
        arrs, real = real_morph(a, idx)
        plan.append(("morph", a, idx, arrs, real))
        lines.append(morph_line(arrs, idx))
    # toroot stream
    for a, js, wf in toroots:
        v0, seq = real_toroot_seq(a, js)
        for (before, res), j in zip(seq, js):
            plan.append(("toroot", a, v0, before, j, res, wf))
            lines.append(json.dumps({"op": "toroot", "v": v0["v"], "c": before, "m": v0["m"], "j": j}))
    # file stream
    root = tempfile.mkdtemp(prefix="verif_c18_")
    try:
        for k, case in enumerate(files):
            real = real_file(case, root, k)
            plan.append(("file", case, real))
            lines.append(file_line(case))
    finally:
        close_tables()
        shutil.rmtree(root, ignore_errors=True)
    rc, out = fw.run_driver("C18", lines)
    if rc != 0 or len(out) != len(lines):
        ctx.disagree("driver", "driver failed rc=%s (%d lines in, %d out)" % (rc, len(lines), len(out)), "\n".join(out[-5:]), None)
        out = ['{"error":"driver"}'] * len(lines)
    sampled = {}
    for p, o in zip(plan, out):
        try:
            mo = json.loads(o)
        except ValueError:
            mo = {"error": o[:200]}
        if p[0] == "morph":
            check_morph(ctx, p[1], p[2], p[3], p[4], mo)
            if p[1].get("kind") and sampled.setdefault("morph", 0) < 2:
                sampled["morph"] += 1
                ctx.sample({"stream": "morph", "kind": p[1]["kind"], "shape": p[1]["shape"], "n": len(p[1]["c"]),
                            "c": p[1]["c"][:16], "m": p[1]["m"] and p[1]["m"][:16], "idx": p[2]})
        elif p[0] == "toroot":
            check_toroot(ctx, p[1], p[2], p[3], p[4], p[5], mo, p[6])
            if p[1].get("kind") and len(p[3]) >= 5 and sampled.setdefault("toroot", 0) < 2:
                sampled["toroot"] += 1
                ctx.sample({"stream": "toroot", "c": p[3][:16], "new_root": p[4],
                            "after": (p[5].get("arr") or {}).get("c", p[5]["res"])[:16]})
        else:
            check_file(ctx, p[1], p[2], mo)
            if "cells" in p[1] and len(p[1]["cells"]) + len(p[1]["morphs"]) >= 3 and sampled.setdefault("doc", 0) < 2:
                sampled["doc"] += 1
                ctx.sample({"stream": "doc", "cells": [[c["id"], c["mid"], len(c["c"])] for c in p[1]["cells"]],
                            "morphs": [[m["id"], len(m["c"])] for m in p[1]["morphs"]], "result": p[2]["res"],
                            "loaded_sizes": [len(m["c"]) for m in p[2].get("morphs", [])]})


V4 = [[0, 0, 0, 8], [8, 0, 0, 16], [16, 0, 0, 24], [24, 0, 0, 32]]
CORPUS = {
    "morphs": [
        # conversion must not emit a segment for the root / drop the last vertex (repaired: fixes/C18-convert-range.patch)
        ({"v": V4, "c": [-1, 0, 1, 1], "m": None}, [0, 1, 2, 3, -1, -4]),
        ({"v": V4[:2], "c": [-1, 0], "m": None}, [0, 1, -1]),
        ({"v": V4[:1], "c": [-1], "m": None}, [0, -1]),
        # parent index larger than child index
        ({"v": V4, "c": [-1, 3, 1, 0], "m": None}, [0, 1, 2]),
        # floating vertices: bug-for-bug only (vertex after a masked one is skipped, masked root gets a segment)
        ({"v": V4, "c": [-1, 0, -1, 2], "m": [0, 0, 1, 0]}, [0, 1, 2, -1]),
        ({"v": V4, "c": [-1, 0, 1, -1], "m": [0, 0, 0, 1]}, [0, 1, 2, 3]),
    ],
    "toroots": [
        ({"v": V4, "c": [-1, 0, 1, 2], "m": None}, [2], True),                # the repo's own test
        ({"v": V4, "c": [-1, 0, 1, 1], "m": None}, [3, 0, 2], True),          # chain of re-rootings on one object
        ({"v": V4, "c": [1, 2, 3, -1], "m": None}, [0], True),                # root is the last vertex
        ({"v": V4, "c": [1, 2, 3, -1], "m": None}, [-1], False),              # to_root(-1) there never terminates
        ({"v": V4, "c": [-1, 0, 1, 1], "m": None}, [-1], False),
        ({"v": V4, "c": [-1, 0, 1, 1], "m": None}, [4], False),
    ],
    "files": [
        {"id": None, "v": V4, "c": [-1, 0, 1, 1], "m": None},
        {"id": "vertices", "v": V4, "c": [-1, 0, 1, 1], "m": [0, 0, 1, 0]},
        # stand-alone morphologies (was: UnboundLocalError / NodeError; repaired: fixes/C18-writer-standalone.patch)
        {"cells": [], "morphs": [{"id": "m1", "v": V4[:2], "c": [-1, 0], "m": None}]},
        {"cells": [{"id": "c1", "mid": "mc", "v": V4, "c": [-1, 0, 1, 1], "m": None}],
         "morphs": [{"id": "m1", "v": V4[:2], "c": [-1, 0], "m": None}, {"id": None, "v": V4[:3], "c": [-1, 0, 0], "m": [0, 1, 0]}]},
        {"cells": [{"id": None, "mid": None, "v": V4, "c": [-1, 0, 1, 1], "m": None},
                   {"id": None, "mid": None, "v": V4[:1], "c": [-1], "m": None}], "morphs": []},
        {"cells": [], "morphs": []},
        # KNOWN FINDINGS: name collisions in the flat group layout
        {"cells": [{"id": "x", "mid": "m", "v": V4[:2], "c": [-1, 0], "m": None}],
         "morphs": [{"id": "x", "v": V4[:3], "c": [-1, 0, 0], "m": None}]},
        {"cells": [{"id": "x", "mid": "vertices", "v": V4[:2], "c": [-1, 0], "m": None}], "morphs": []},
    ],
}


def run(ctx):
    rng = ctx.rng
    HANGS["n"] = 0
    big = ctx.tier == "thorough"
    morphs = [(dict(a), list(i)) for a, i in CORPUS["morphs"]]
    toroots = [(dict(a), list(j), wf) for a, j, wf in CORPUS["toroots"]]
    files = [json.loads(json.dumps(c)) for c in CORPUS["files"]]
    mult = ctx.search_mult
    for _ in range(ctx.n(250, 2500) * mult):
        a = gen_arr(rng, big)
        morphs.append((a, pick_idx(rng, len(a["c"]))))
    for _ in range(ctx.n(70, 600) * mult):
        a = gen_arr(rng, big, kind=rng.choice(["tree0", "tree0", "tree0id", "rerooted"]))
        n = len(a["c"])
        for j in range(n):                                   # every choice of new root, fresh object each
            toroots.append((a, [j], True))
        js = [rng.randrange(n) for _ in range(3)]            # three re-rootings on one object
        toroots.append((a, js, True))
        if rng.random() < 0.5:
            bad = rng.choice([n, n + 3, -n - 1, -1, -n, -rng.randint(1, n)])
            if bad == -1 and a["c"][-1] == -1:
                bad = n          # to_root(-1) with the root in the last slot never terminates (kept once, in CORPUS)
            toroots.append((a, [bad], False))
    for _ in range(ctx.n(12, 60) * mult):                    # forests: bug-for-bug only
        a = gen_arr(rng, big, kind="floating")
        n = len(a["c"])
        root_comp = [v for v in range(n) if _reaches(a["c"], v, 0)]
        toroots.append((a, [rng.choice(root_comp)], False))
    for _ in range(ctx.n(40, 300) * mult):
        a = gen_arr(rng, big)
        files.append({"id": rng.choice([None, None, "m", "vertices", "Morphology", "a10"]), "v": a["v"], "c": a["c"],
                      "m": a["m"], "int": a["int"]})
    for i in range(ctx.n(160, 1200) * mult):
        files.append(gen_doc(rng, collide=(i % 5 == 4)))
    if big:
        ctx.count("tier:thorough-sizes")
    run_cases(ctx, morphs, toroots, files)


def _reaches(c, v, root):
    steps = 0
    while v != root:
        v = c[v]
        steps += 1
        if v == -1 or steps > len(c):
            return False
    return True


def replay(ctx, payload):
    case = payload["case"]
    case = case.get("case", case) if "stream" not in case else case
    st = case.get("stream")
    if st == "morph":
        run_cases(ctx, [(case["arr"], case["idx"])], [], [])
    elif st == "toroot":
        a = case["arr"]
        wf = any(is_tree(a["c"], r) for r in range(len(a["c"])))
        run_cases(ctx, [], [(a, [case["j"]], wf)], [])
    elif st in ("doc", "single"):
        run_cases(ctx, [], [], [case["case"]])
    else:
        return {"fails": False, "note": "no case in payload (obligation-only replay): re-run bin/check C18"}
    return {"fails": bool(ctx.failures or ctx.corr_disagreements), "failures": ctx.failures,
            "disagreements": ctx.corr_disagreements}
