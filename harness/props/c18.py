"""C18 — array morphologies survive their file format; their views agree with the arrays.

Tie: hand model (lean/NmlVerif/Model/ArrayMorph.lean) + a statement-level translation of the methods of
`neuroml/arraymorph.py` regenerated on every run (translators/py2lean_arraymorph.py -> lean/NmlVerif/Gen/ArrayMorph.lean,
proved equal to the hand model in Props/C18Gen.lean) + correspondence on generated arrays / histories / documents against
the real `neuroml.arraymorph`, `ArrayMorphWriter`, `ArrayMorphLoader` (files in a tempfile.mkdtemp() directory);
the same cases are evaluated against a harness-side oracle that states the property directly on the numpy arrays.

Streams
  hist    HISTORIES on ONE object: any sequence of segments[i] / len / iteration / segment_from_vertex_index /
          to_neuroml_morphology / to_root (+ valid_ids, segments[i] = seg, append, +=, the plain accessors); real result and
          model result compared call by call, final arrays and final `instantiated_segments` compared, and the oracle
          evaluates the full view / conversion / re-rooting clauses after EVERY call
  morph   one array triple -> len(segments), list(segments), segments[i] for chosen i (negative / out of range
          included), to_neuroml_morphology().segments, each on a fresh object
  toroot  one tree, every choice of new root (+ malformed indices), chains of re-rootings on one object, forests,
          cyclic connectivity (guarded by a timer: the real loop does not terminate, the model runs out of fuel)
  single  ArrayMorphWriter.write(ArrayMorphology) ; ArrayMorphLoader.load
  doc     ArrayMorphWriter.write(NeuroMLDocument with 0-3 cells and 0-3 stand-alone morphologies, cells without a morphology
          or with a plain Morphology, plain stand-alone morphologies, ids None / distinct / colliding / of the shape of the
          writer's default names) ; load
"""
import json
import os
import shutil
import signal
import sys
import tempfile
from fractions import Fraction

import fw

LEAN_PROPS = ["NmlVerif.Props.C18", "NmlVerif.Props.C18Gen"]
LEVEL = "proof"
RULE = ("random vertex/connectivity/mask triples, 0-60 vertices (thorough: up to 120): tree shapes random-recursive / "
        "chain / star / caterpillar / binary / broom / deep, vertex numbering shuffled (parent index may exceed child index), "
        "dyadic coordinates (k/8, exact; 15% of the arrays hold one coordinate above 2^37 that float32 / int32 cannot hold), "
        "float64 or int64 vertices, masks none / explicit all-zero of any length / bools / with floating roots / wrong length; "
        "histories of 2-14 calls on one object (view reads by index incl. negative and out of range, iteration, len, "
        "segment_from_vertex_index, conversion, re-rooting, 1 in 7 also with user-assigned / appended segments); every new "
        "root for each tree and chains of 3 re-rootings; single morphologies and documents with 0-3 cells + 0-3 stand-alone "
        "morphologies (ids None / distinct / colliding; 1 in 6 with non-array members; 1 in 4 with one morphology object shared "
        "by several members). A case is non-trivial when it lies in "
        "the property's scope and: the tree has >= 3 vertices and is not the plain chain -1,0,1,.. (morph, hist; a history "
        "must also make two different kinds of call); additionally the new root is a valid non-root vertex (toroot); the "
        "document holds >= 2 array morphologies / the single morphology >= 2 vertices (file). "
        "distinct = distinct canonical case descriptions")
TRUST = [
    "hand-written model of ArrayMorphology / SegmentList incl. the per-object segment cache, of ArrayMorphWriter / "
    "ArrayMorphLoader; the methods root_index, num_vertices, to_root, segment_from_vertex_index, to_neuroml_morphology, "
    "SegmentList.__init__/__vertex_index_from_segment_index__/__len__/__getitem__/__setitem__ are ALSO translated from the "
    "source on every run and proved equal to the hand model (Props/C18Gen.lean); the translator itself, the writer / loader "
    "model and SegmentList.append are tied by correspondence only",
    "numpy indexing (negative indices wrap, out of range raises IndexError), np.where order, np.sum, Python's sequence-protocol "
    "iteration (__getitem__(0), (1), ... until IndexError), dict semantics of instantiated_segments, PyTables group/array "
    "storage and iteration of a group's children in sorted (code point) name order are modelled, not verified",
    "a to_root that raises may leave the connectivity array half-written: the model does not describe the object after a "
    "failed to_root and the harness ends a history there",
]
ASSUMPTIONS = [
    "object names are NeuroML ids ([A-Za-z_][A-Za-z0-9_]*) that PyTables accepts (not starting with _c_/_f_/_g_/_v_, non-empty)",
    "round trip theorem for documents (any mix of cells with / without an embedded ArrayMorphology, plain and array stand-alone "
    "morphologies) assumes distinct top-level group names among the members that are array morphologies (cell ids + stand-alone "
    "morphology ids, defaulted by position); the excluded classes are the two open known findings (a cell and a stand-alone "
    "morphology share a name; a default name equals an explicit id)",
    "view / conversion / re-rooting theorems assume a tree without floating vertices (one root, mask all false), as the "
    "property does (the history theorem c18_history_full needs no assumption at all: any arrays, any calls, any indices); "
    "other inputs are covered bug-for-bug by correspondence only",
    "array element values travel through HDF5 unchanged (exact for the int64/bool/dyadic float64 values generated; dtypes and "
    "shapes are compared by the oracle)",
    "slices of the view, ArrayMorphology.pop (declared failing by its own docstring), appending to a morphology built without "
    "any vertex (numpy turns its connectivity into floats) are outside the model",
]

DEN = 8
# The model is the code with fixes/C18-toroot-invalidates-cache.patch, fixes/C18-loader-vertices-is-array.patch and
# fixes/C18-writer-skips-non-array.patch applied (no switches: on a tree without one of them the check reports the defect
# as a VIOLATION with the failing input: keys C18:view-stale-after-toroot, C18:doc-cell-morphology-named-vertices,
# C18:doc-cell-without-morphology, C18:doc-plain-morphology).


def regenerate(ctx):
    """translator step: lean/NmlVerif/Gen/ArrayMorph.lean from the CURRENT neuroml/arraymorph.py (Props/C18Gen.lean proves
    every generated definition equal to the hand model)"""
    tdir = os.path.join(fw.VERIF, "translators")
    if tdir not in sys.path:
        sys.path.insert(0, tdir)
    import py2lean_arraymorph
    return py2lean_arraymorph.regenerate(fw.REPO, os.path.join(fw.LEAN, "NmlVerif", "Gen", "ArrayMorph.lean"))


# ---------------------------------------------------------------- generators
def gen_tree(rng, n, shape=None):
    """parent list of a tree on 0..n-1 rooted at 0 in 'natural' numbering (parent < child)"""
    shape = shape or rng.choice(["rand", "rand", "rand", "chain", "star", "cat", "bin", "broom", "deep"])
    par = [-1] * n
    for v in range(1, n):
        if shape == "rand":
            par[v] = rng.randrange(v)
        elif shape == "chain":
            par[v] = v - 1
        elif shape == "star":
            par[v] = 0
        elif shape == "cat":
            par[v] = v - 1 if v % 2 == 1 or v < 2 else v - 2
        elif shape == "bin":
            par[v] = (v - 1) // 2
        elif shape == "broom":
            par[v] = v - 1 if v <= n // 2 else n // 2
        else:  # deep: mostly chain with occasional branch
            par[v] = v - 1 if rng.random() < 0.8 else rng.randrange(v)
    return par, shape


def relabel(rng, par, keep_root0=True):
    n = len(par)
    perm = list(range(n))
    if keep_root0:
        rest = perm[1:]
        rng.shuffle(rest)
        perm = [0] + rest
    else:
        rng.shuffle(perm)
    out = [None] * n
    for v in range(n):
        out[perm[v]] = -1 if par[v] == -1 else perm[par[v]]
    return out


def gen_vertices(rng, n, distinct=True):
    vs = []
    for i in range(n):
        # dyadic, distinct per vertex (first coordinate encodes the index so wrong-vertex errors are visible)
        vs.append([i * 8 + rng.randrange(8), rng.randrange(-40, 40), rng.randrange(-16, 16), 1 + rng.randrange(30)])
    if n and rng.random() < 0.15:
        # one coordinate that needs more than 24 bits of mantissa / 32 bits of integer: exact in float64 and int64 only
        vs[rng.randrange(n)][rng.randrange(3)] = (2 ** 40 + 8 * rng.randrange(1000) + rng.randrange(8)) * rng.choice([1, -1])
    return vs  # numerators over DEN


def gen_arr(rng, big=False, kind=None):
    """returns dict v (numerators), c, m (0/1 list or None), kind"""
    kind = kind or rng.choices(["tree0", "tree0id", "rerooted", "floating", "badmask"], [50, 15, 12, 15, 8])[0]
    nmax = 120 if big else 60
    r = rng.random()
    n = rng.randrange(5) if r < 0.12 else (1 + rng.randrange(12) if r < 0.6 else 1 + rng.randrange(nmax))   # 0 = no vertex at all
    par, shape = gen_tree(rng, n)
    if kind == "tree0id":
        c = par
    elif kind == "rerooted":
        c = relabel(rng, par, keep_root0=False)
    else:
        c = relabel(rng, par)
    m = None
    if kind == "floating" and n >= 2:
        # some non-root vertices become floating roots (connectivity -1, mask 1)
        c = list(c)
        m = [0] * n
        for v in rng.sample(range(1, n), rng.randint(1, min(3, n - 1))):
            c[v] = -1
            m[v] = 1
    elif kind == "floating":
        kind = "tree0"
    if kind == "badmask":
        ln = rng.choice([0, 1, n - 1, n + 1, n + 2]) if rng.random() < 0.5 else n
        m = [1 if rng.random() < 0.3 else 0 for _ in range(max(ln, 0))]
    if m is None and kind in ("tree0", "tree0id", "rerooted") and rng.random() < 0.15:
        m = [0] * rng.choice([n, n, 0, n + 1])     # an explicit all-zero mask (any length: the constructor replaces it)
    intcoords = rng.random() < 0.2
    v = gen_vertices(rng, n)
    if intcoords:
        v = [[x * DEN for x in row] for row in v]
    out = {"v": v, "c": c, "m": m, "kind": kind, "shape": shape, "int": intcoords}
    if n and rng.random() < 0.1:
        out["nt"] = True
    if m is not None and rng.random() < 0.3:
        out["mb"] = True         # mask given as bools instead of 0/1 ints
    return out


IDS = ["a", "b", "c1", "A", "Z9", "_z", "a_", "a10", "a2", "cell", "m", "Morphology0", "Morphology1", "Cell0", "Cell1",
       "Morphology", "connectivity", "x"]


def gen_small_arr(rng):
    a = gen_arr(rng, kind=rng.choice(["tree0", "tree0", "floating", "rerooted"]))
    if len(a["c"]) > 12 and rng.random() < 0.7:
        return gen_small_arr(rng)
    return a


def gen_doc(rng, collide=False, mixed=False, share=False):
    """0-3 cells and 0-3 stand-alone morphologies.  collide: ids drawn from a small pool (same id for a cell and a
    morphology, explicit ids of the shape of the writer's defaults, a cell morphology called 'vertices').
    mixed: some cells have no embedded morphology / a plain neuroml.Morphology, some stand-alone morphologies are plain.
    share: one ArrayMorphology OBJECT is the morphology of several cells and / or listed (once) as a stand-alone morphology
    as well ("obj": members with the same number hold the same Python object)"""
    nc, nm = rng.randint(0, 3), rng.randint(0, 3)
    pool = list(IDS)
    rng.shuffle(pool)

    def pick(defaults):
        r = rng.random()
        if r < 0.25:
            return None
        if collide and r < 0.45:
            return rng.choice(IDS[:6])
        if collide and r < 0.6:
            return rng.choice(defaults)
        return pool.pop()
    cells = []
    for _ in range(nc):
        a = gen_small_arr(rng)
        mid = None if rng.random() < 0.4 else rng.choice(["m", "morph", "Morphology", "a", "vertices" if collide else "v"])
        c = {"id": pick(["Cell0", "Cell1", "Cell2", "Morphology0"]), "mid": mid, "v": a["v"], "c": a["c"], "m": a["m"],
             "int": a["int"]}
        if mixed and rng.random() < 0.4:
            c["kind"] = rng.choice(["none", "plain"])
        cells.append(c)
    morphs = []
    for _ in range(nm):
        a = gen_small_arr(rng)
        m = {"id": pick(["Morphology0", "Morphology1", "Morphology2", "Cell0"]), "v": a["v"], "c": a["c"], "m": a["m"],
             "int": a["int"]}
        if mixed and rng.random() < 0.25:
            m["kind"] = "plain"
        morphs.append(m)
    if share:
        arr_cells = [k for k, c in enumerate(cells) if c.get("kind") is None]
        if arr_cells:
            src = rng.choice(arr_cells)
            cells[src]["obj"] = 1
            for k in arr_cells:                     # other cells using the same object
                if k != src and rng.random() < 0.6:
                    cells[k].update({x: cells[src][x] for x in ("mid", "v", "c", "m", "int")}, obj=1)
            arr_morphs = [k for k, m in enumerate(morphs) if m.get("kind") is None]
            if arr_morphs and rng.random() < 0.7:   # ... and listed (once) as a stand-alone morphology too
                k = rng.choice(arr_morphs)
                morphs[k].update({x: cells[src][x] for x in ("v", "c", "m", "int")}, id=cells[src]["mid"], obj=1)
    return {"cells": cells, "morphs": morphs}


def obj_key(x, pfx, k):
    """which Python object the ArrayMorphology of a member is: an explicit "obj" number (shared), else one of its own"""
    return x["obj"] if "obj" in x else (1000 if pfx == "c" else 2000) + k


# ---------------------------------------------------------------- real library
class Hang(Exception):
    pass


def _alarm(signum, frame):
    raise Hang()


def guarded(fn, secs=1.5):
    """run fn; a loop that burns `secs` seconds of this process's CPU time is taken for non-terminating (CPU time, not wall
    time: being descheduled on a loaded machine must not look like a hang)"""
    old = signal.signal(signal.SIGVTALRM, _alarm)
    signal.setitimer(signal.ITIMER_VIRTUAL, secs)
    try:
        return fn()
    finally:
        signal.setitimer(signal.ITIMER_VIRTUAL, 0)
        signal.signal(signal.SIGVTALRM, old)


def mk_real(a, id=None):
    import numpy as np
    import neuroml.arraymorph as am
    if a.get("int"):
        v = np.array([[x // DEN for x in row] for row in a["v"]], dtype="int64").reshape(len(a["v"]), 4)
    else:
        v = np.array([[x / DEN for x in row] for row in a["v"]], dtype="float64").reshape(len(a["v"]), 4)
    mask = None if a["m"] is None else ([bool(x) for x in a["m"]] if a.get("mb") else list(a["m"]))
    extra = {}
    if a.get("nt"):        # optional per-vertex arrays the constructor also takes (not part of the file format)
        extra = {"node_types": [1 + (k % 3) for k in range(len(a["c"]))], "fractions_along": [1] * len(a["c"])}
    return am.ArrayMorphology(vertices=v, connectivity=list(a["c"]), id=id, physical_mask=mask, **extra)


def num(x):
    f = Fraction(float(x)) * DEN if not isinstance(x, int) else Fraction(x) * DEN
    if f.denominator != 1:
        raise ValueError("inexact coordinate %r" % (x,))
    return int(f)


def canon_arrays(m):
    """(v numerators, c, mask 0/1) of a real ArrayMorphology"""
    v = [[num(x.item()) for x in row] for row in m.vertices] if len(m.vertices) else []
    c = [int(x) for x in m.connectivity.tolist()]
    mk = [int(bool(x)) for x in m.physical_mask.tolist()]
    return {"v": v, "c": c, "m": mk}


def canon_dtypes(m):
    return [str(m.vertices.dtype), str(m.connectivity.dtype), str(m.physical_mask.dtype), list(m.vertices.shape)]


def canon_seg(s):
    def pt(p):
        return [num(p.x), num(p.y), num(p.z), num(p.diameter)]
    return [int(s.id), pt(s.proximal), pt(s.distal), None if s.parent is None else int(s.parent.segments)]


def exc_name(e):
    n = type(e).__name__
    return n if n in ("IndexError", "NodeError", "NoSuchNodeError", "UnboundLocalError", "AttributeError", "KeyError") \
        else "exc:" + n


def real_morph(a, idx):
    m = mk_real(a)
    arrs = canon_arrays(m)
    try:
        out = {"len": len(m.segments)}
    except Exception as e:  # noqa
        out = {"len": exc_name(e)}
    try:
        out["iter"] = [canon_seg(s) for s in mk_real(a).segments]
    except Exception as e:  # noqa
        out["iter"] = exc_name(e)
    get = []
    for i in idx:
        try:
            get.append(canon_seg(mk_real(a).segments[i]))
        except Exception as e:  # noqa
            get.append(exc_name(e))
    out["get"] = get
    try:
        out["conv"] = [canon_seg(s) for s in mk_real(a).to_neuroml_morphology(id="T").segments]
    except Exception as e:  # noqa
        out["conv"] = exc_name(e)
    return arrs, out


def close_tables():
    try:
        import tables
        tables.file._open_files.close_all()
    except Exception:
        pass


def real_file(case, root, k):
    """write + load; returns canonical result"""
    import neuroml
    from neuroml.loaders import ArrayMorphLoader
    from neuroml.writers import ArrayMorphWriter
    p = os.path.join(root, "f%d.h5" % k)
    written = []
    try:
        if "cells" in case:
            doc = neuroml.NeuroMLDocument(id="d")
            objs = {}            # members with the same "obj" number hold the SAME ArrayMorphology object
            for k, c in enumerate(case["cells"]):
                cell = neuroml.Cell(id=c["id"])
                if c.get("kind") == "plain":
                    cell.morphology = neuroml.Morphology(id=c["mid"])
                elif c.get("kind") != "none":
                    key = obj_key(c, "c", k)
                    if key not in objs:
                        objs[key] = mk_real(c, id=c["mid"])
                    cell.morphology = objs[key]
                    written.append(cell.morphology)
                doc.cells.append(cell)
            for k, m in enumerate(case["morphs"]):
                if m.get("kind") == "plain":
                    doc.morphology.append(neuroml.Morphology(id=m["id"]))
                else:
                    key = obj_key(m, "m", k)
                    if key not in objs:
                        objs[key] = mk_real(m, id=m["id"])
                    doc.morphology.append(objs[key])
                    written.append(doc.morphology[-1])
            wd = [[canon_arrays(m), canon_dtypes(m)] for m in written]
            ArrayMorphWriter.write(doc, p)
        else:
            one = mk_real(case, id=case["id"])
            wd = [[canon_arrays(one), canon_dtypes(one)]]
            ArrayMorphWriter.write(one, p)
        leaked = _open_count()
        loaded = ArrayMorphLoader.load(p)
        views = []            # the views of the LOADED objects (file format and view cooperating)
        for m in loaded.morphology:
            try:
                views.append({"len": len(m.segments), "iter": [canon_seg(x) for x in m.segments],
                              "conv": [canon_seg(x) for x in m.to_neuroml_morphology(id="L").segments]})
            except Exception as e:  # noqa
                views.append({"exc": exc_name(e)})
        return {"res": "ok", "morphs": [canon_arrays(m) for m in loaded.morphology], "leaked": leaked, "views": views,
                "typed": [wd, [[canon_arrays(m), canon_dtypes(m)] for m in loaded.morphology]]}
    except Exception as e:  # noqa
        return {"res": exc_name(e), "leaked": _open_count(), "msg": str(e)[:100]}
    finally:
        close_tables()
        try:
            os.remove(p)
        except OSError:
            pass


def _open_count():
    try:
        import tables
        return len(tables.file._open_files._handlers)
    except Exception:
        return -1


# ---------------------------------------------------------------- oracle helpers (independent of the Lean model)
def is_tree(c, root):
    """exactly one -1 (at root), every other entry a valid index, every vertex reaches root"""
    n = len(c)
    if not (0 <= root < n) or c[root] != -1:
        return False
    for v in range(n):
        if v != root and not (0 <= c[v] < n):
            return False
    for v in range(n):
        x, steps = v, 0
        while x != root:
            x = c[x]
            steps += 1
            if steps > n:
                return False
    return True


def edges(c):
    return sorted(tuple(sorted((v, p))) for v, p in enumerate(c) if p != -1)


def eff_mask(a):
    """the mask the constructor keeps: all-false/None -> zeros(len(connectivity))"""
    if a["m"] is None or not any(a["m"]):
        return [0] * len(a["c"])
    return list(a["m"])


def in_scope(a):
    """the property's view/conversion clauses: a tree rooted at vertex 0, no floating vertices"""
    return is_tree(a["c"], 0) and not any(eff_mask(a)) and len(eff_mask(a)) == len(a["c"])


def bad_parent_ref(segs, c):
    """segments (canonical, ids = vertex indices) whose parent reference is not the segment of the parent vertex; only the
    clear case is judged: vertex k > 1 whose parent vertex p is not the root vertex 0 (segment p exists and has id p)"""
    return [sg for sg in segs if isinstance(sg, list) and isinstance(sg[0], int) and 1 < sg[0] < len(c) and c[sg[0]] >= 1
            and sg[3] != c[sg[0]]]


def strip(a):
    d = {"v": a["v"], "c": a["c"], "m": a["m"], "int": a.get("int", False)}
    for k in ("nt", "mb"):
        if a.get(k):
            d[k] = True
    return d


def nontrivial_tree(c):
    n = len(c)
    return n >= 3 and c != list(range(-1, n - 1))


# ---------------------------------------------------------------- case runners
def morph_line(arrs, idx):
    return json.dumps({"op": "morph", "v": arrs["v"], "c": arrs["c"], "m": arrs["m"], "idx": idx})


def check_morph(ctx, a, idx, arrs, real, model):
    case = {"stream": "morph", "arr": strip(a), "idx": idx}
    scope = in_scope(a)
    ctx.seen(case, nontrivial=scope and nontrivial_tree(a["c"]))
    ctx.count("morph:" + a.get("kind", "corpus"))
    ctx.count("morph:n<=3" if len(a["c"]) <= 3 else ("morph:n<=12" if len(a["c"]) <= 12 else "morph:n>12"))
    ctx.corr_evals += 1
    if model != real:
        ctx.disagree("morph", case, real, model)
    # constructor keeps the arrays (sanity of the harness's own reading of the object)
    if arrs["v"] != a["v"] or arrs["c"] != a["c"] or arrs["m"] != eff_mask(a):
        ctx.fail("C18:constructor-changes-arrays", "ArrayMorphology does not hold the arrays it was given", case)
        return
    if not scope:
        return
    n = len(a["c"])
    want = [[v, a["v"][v], a["v"][a["c"][v]]] for v in range(1, n)]
    if not isinstance(real["iter"], list):
        ctx.fail("C18:view-count", "iterating the view raised %s on a tree with %d vertices" % (real["iter"], n), case)
        return
    got_view = [s[:3] for s in real["iter"]]
    if real["len"] != n - 1 or len(real["iter"]) != n - 1:
        ctx.fail("C18:view-count", "segment view does not have one segment per non-root vertex (len=%s, iterated=%s, n=%d)"
                 % (real["len"], len(real["iter"]), n), case)
    elif got_view != want:
        bad = [i for i in range(n - 1) if got_view[i] != want[i]][0]
        ctx.fail("C18:view-endpoints", "segment %d of the view does not join vertex %d and its parent vertex" % (bad, bad + 1),
                 dict(case, got=real["iter"][bad], want=want[bad]))
    else:
        for i, g in zip(idx, real["get"]):
            if 0 <= i < n - 1 and g != real["iter"][i]:
                ctx.fail("C18:view-getitem", "segments[%d] differs from the %d-th iterated segment" % (i, i), case)
                break
    if real["conv"] != real["iter"]:
        if isinstance(real["conv"], list) and len(real["conv"]) == len(real["iter"]) and real["conv"] and \
                real["conv"][0][0] == 0:
            key = "C18:convert-bogus-root-segment"
        else:
            key = "C18:convert-differs-from-view"
        ctx.fail(key, "to_neuroml_morphology does not yield the segments of the view", dict(case, conv=real["conv"]))
    else:
        bad = bad_parent_ref(real["conv"], a["c"])
        if bad:
            ctx.fail("C18:segment-parent-ref", "segment %d of the converted morphology does not name the segment of its parent "
                     "vertex %d as parent" % (bad[0][0], a["c"][bad[0][0]]), dict(case, got=bad[0]))


HANGS = {"n": 0}
MAX_HANGS = 6     # each costs `secs` seconds; after that many, to_root calls are answered "skipped" (a disagreement)


def real_toroot_seq(a, js):
    """apply to_root(j) for j in js on ONE object; returns list of (conn before, result)"""
    m = mk_real(a)
    v0 = canon_arrays(m)
    out = []
    for j in js:
        before = [int(x) for x in m.connectivity.tolist()]
        if HANGS["n"] >= MAX_HANGS:
            out.append((before, {"res": "skipped-after-repeated-hangs"}))
            break
        try:
            guarded(lambda: m.to_root(j))
            after = canon_arrays(m)
            res = {"res": "ok", "arr": after}
        except Hang:
            HANGS["n"] += 1
            res = {"res": "outOfFuel"}
            out.append((before, res))
            break
        except Exception as e:  # noqa
            res = {"res": exc_name(e)}
        out.append((before, res))
        if res["res"] != "ok":
            break
    return v0, out


def check_toroot(ctx, a, v0, before, j, real, model, wellformed):
    case = {"stream": "toroot", "arr": dict(strip(a), c=before), "j": j}
    n = len(before)
    ctx.seen(case, nontrivial=wellformed and nontrivial_tree(before) and 0 <= j < n and before[j] != -1)
    ctx.count("toroot:wellformed" if wellformed and 0 <= j < n else "toroot:malformed")
    if real["res"] == "skipped-after-repeated-hangs":
        ctx.count("toroot:skipped-after-repeated-hangs")
        return
    ctx.corr_evals += 1
    if model != real:
        ctx.disagree("toroot", case, real, model)
    if not wellformed:
        return
    if not (0 <= j < n):
        return
    if real["res"] != "ok":
        ctx.fail("C18:toroot-raises", "to_root on a tree failed: %s" % real["res"], case)
        return
    after = real["arr"]
    if after["v"] != v0["v"] or after["m"] != v0["m"]:
        ctx.fail("C18:toroot-touches-other-arrays", "to_root changed vertices or mask", case)
    c2 = after["c"]
    if [v for v in range(n) if c2[v] == -1] != [j]:
        ctx.fail("C18:toroot-roots", "after to_root(%d) the roots are %s" % (j, [v for v in range(n) if c2[v] == -1]),
                 dict(case, after=c2))
    elif edges(c2) != edges(before):
        ctx.fail("C18:toroot-edges", "to_root changed the undirected edge set", dict(case, after=c2))
    elif not is_tree(c2, j):
        ctx.fail("C18:toroot-not-tree", "result of to_root is not a tree rooted at the new root", dict(case, after=c2))


# ---------------------------------------------------------------- histories of calls on ONE object
def seg_to_real(sj):
    import neuroml
    def pt(p):
        return neuroml.Point3DWithDiam(x=p[0] / DEN, y=p[1] / DEN, z=p[2] / DEN, diameter=p[3] / DEN)
    s = neuroml.Segment(proximal=pt(sj[1]), distal=pt(sj[2]), id=sj[0])
    if sj[3] is not None:
        s.parent = neuroml.SegmentParent(segments=sj[3])
    return s


def real_call(m, call):
    """one call of a history on the real object -> canonical result"""
    o = call["o"]
    if o == "get":
        try:
            return canon_seg(m.segments[call["i"]])
        except Exception as e:  # noqa
            return exc_name(e)
    if o == "len":
        try:
            return len(m.segments)
        except Exception as e:  # noqa
            return exc_name(e)
    if o == "iter":
        try:
            return [canon_seg(s) for s in m.segments]
        except Exception as e:  # noqa
            return exc_name(e)
    if o == "sfv":
        try:
            return canon_seg(m.segment_from_vertex_index(call["k"]))
        except Exception as e:  # noqa
            return exc_name(e)
    if o == "conv":
        try:
            return [canon_seg(s) for s in m.to_neuroml_morphology(id="T").segments]
        except Exception as e:  # noqa
            return exc_name(e)
    if o == "toroot":
        if HANGS["n"] >= MAX_HANGS:
            return {"res": "skipped-after-repeated-hangs"}
        try:
            guarded(lambda: m.to_root(call["j"]))
            return {"res": "ok", "c": [int(x) for x in m.connectivity.tolist()]}
        except Hang:
            HANGS["n"] += 1
            return {"res": "outOfFuel"}
        except Exception as e:  # noqa
            return {"res": exc_name(e)}
    try:
        if o == "valid":
            return bool(m.valid_ids)
        if o == "set":
            m.segments[call["i"]] = seg_to_real(call["s"])
            return None
        if o == "append":
            m.segments.append(seg_to_real(call["s"]))
            return None
        if o == "iadd":
            m.segments += [seg_to_real(x) for x in call["ss"]]
            return None
        if o == "parent_id":
            return int(m.parent_id(call["i"]))
        if o == "vertex":
            return [num(x.item()) for x in m.vertex(call["i"])]
        if o == "children":
            return [int(x) for x in m.children(call["i"])[0].tolist()]
        if o == "physical":
            return [int(x) for x in m.physical_indices.tolist()]
        if o == "root_vertex":
            return [num(x.item()) for x in m.root_vertex]
        if o == "alen":
            return len(m)
    except Exception as e:  # noqa
        return exc_name(e)
    raise ValueError(o)


def real_hist(a, calls):
    """run `calls` on ONE ArrayMorphology; a failed to_root ends the history (the object may be half-written).
    returns (arrays at start, calls really made, [(conn before the call, result)], final arrays, final cache)"""
    m = mk_real(a)
    arrs = canon_arrays(m)
    made, steps = [], []
    for call in calls:
        before = [int(x) for x in m.connectivity.tolist()]
        r = real_call(m, call)
        made.append(call)
        steps.append((before, r))
        if call["o"] == "toroot" and r["res"] != "ok":
            break
    try:
        cache = sorted([int(k), canon_seg(v)] for k, v in m.segments.instantiated_segments.items())
    except Exception as e:  # noqa
        cache = "uncanonical-cache:" + exc_name(e)
    return arrs, made, steps, canon_arrays(m), cache


def hist_line(arrs, made):
    return json.dumps({"op": "hist", "v": arrs["v"], "c": arrs["c"], "m": arrs["m"], "calls": made})


def call_str(c):
    return c["o"] + "".join("(%s)" % c[k] for k in ("i", "k", "j") if k in c)


def check_hist(ctx, a, calls, arrs, made, steps, final, cache, model):
    case = {"stream": "hist", "arr": strip(a), "calls": calls}
    n = len(a["c"])
    kinds = [c["o"] for c in made]
    has_set = "set" in kinds
    scope0 = in_scope(a)
    ctx.seen(case, nontrivial=scope0 and nontrivial_tree(a["c"]) and len(set(kinds)) >= 2)
    ctx.count("hist:" + a.get("kind", "corpus"))
    ctx.count("hist:calls=%s" % (len(made) if len(made) < 8 else "8+"))
    for k in kinds:
        ctx.count("hist:call:" + k)
    fills = [i for i, k in enumerate(kinds) if k in ("get", "iter")]
    if fills and any(k == "conv" for k in kinds[fills[0] + 1:]):
        ctx.count("hist:pattern:cache-filled-then-convert")
    tr = [i for i, k in enumerate(kinds) if k == "toroot" and i > (fills[0] if fills else len(kinds))]
    if tr and any(k in ("get", "iter") for k in kinds[tr[0] + 1:]):
        ctx.count("hist:pattern:fill-toroot-read")
    ctx.corr_evals += 1
    real = {"steps": [r for _, r in steps], "arr": final, "cache": cache}
    if any(isinstance(r, dict) and r.get("res") == "skipped-after-repeated-hangs" for _, r in steps):
        ctx.count("hist:skipped-after-repeated-hangs")
        return
    if model != real:
        bad = None
        if isinstance(model.get("steps"), list) and len(model["steps"]) == len(real["steps"]):
            bad = [i for i in range(len(made)) if model["steps"][i] != real["steps"][i]][:1]
        ctx.disagree("hist", dict(case, first_differing_call=(call_str(made[bad[0]]) if bad else "final state")), real, model)
    # ---- the property on the real object, after every call
    if arrs["v"] != a["v"] or arrs["c"] != a["c"] or arrs["m"] != eff_mask(a):
        ctx.fail("C18:constructor-changes-arrays", "ArrayMorphology does not hold the arrays it was given", case)
        return
    nofloat = not any(eff_mask(a)) and len(eff_mask(a)) == n and len(a["v"]) == n
    shadow = {}          # segment index -> (connectivity when the view first handed it out, the segment)
    overridden = set()   # keys the user assigned through segments[i] = seg
    by_root = {}         # root -> connectivity array seen with that root (a tree's array is determined by edges + root)
    v = a["v"]
    for pos, (call, (c, r)) in enumerate(zip(made, steps)):
        o = call["o"]
        where = "call %d of the history, %s" % (pos, call_str(call))
        if o in ("append", "iadd"):  # from here on the object is not "given as arrays" any more (floating vertices): model only
            ctx.count("hist:append-ends-oracle")
            return
        if nofloat and c.count(-1) == 1:
            by_root.setdefault(c.index(-1), c)
        if o in ("parent_id", "vertex", "children", "physical", "root_vertex", "alen") and len(a["v"]) == n:
            i = call.get("i")
            exp = {"parent_id": lambda: c[i] if -n <= i < n else "IndexError",
                   "vertex": lambda: v[i] if -n <= i < n else "IndexError",
                   "children": lambda: [k for k in range(n) if c[k] == i],
                   "physical": lambda: [k for k, b in enumerate(eff_mask(a)) if not b],
                   "root_vertex": lambda: v[c.index(-1)] if -1 in c else "IndexError",
                   "alen": lambda: n}[o]()
            if r != exp:
                ctx.fail("C18:accessor-disagrees-with-arrays", "%s returned %s, the arrays say %s (%s)" % (o, r, exp, where), case)
            continue
        tree0 = nofloat and is_tree(c, 0)
        want = [[k, v[k], v[c[k]]] for k in range(1, n)] if tree0 else None

        def stale(i, got):
            return i in shadow and shadow[i][0] != c and shadow[i][1] == got
        if o == "toroot":
            wf = nofloat and any(is_tree(c, r0) for r0 in range(n))
            j = call["j"]
            if wf and 0 <= j < n:
                if r["res"] != "ok":
                    ctx.fail("C18:toroot-raises", "to_root on a tree failed (%s): %s" % (where, r["res"]), case)
                    return
                c2 = r["c"]
                if [x for x in range(n) if c2[x] == -1] != [j]:
                    ctx.fail("C18:toroot-roots", "after to_root(%d) the roots are %s (%s)" %
                             (j, [x for x in range(n) if c2[x] == -1], where), dict(case, before=c, after=c2))
                elif edges(c2) != edges(c):
                    ctx.fail("C18:toroot-edges", "to_root changed the undirected edge set (%s)" % where,
                             dict(case, before=c, after=c2))
                elif not is_tree(c2, j):
                    ctx.fail("C18:toroot-not-tree", "result of to_root is not a tree rooted at the new root (%s)" % where,
                             dict(case, before=c, after=c2))
                elif by_root.get(j, c2) != c2:
                    ctx.fail("C18:toroot-back-differs", "re-rooting back at %d does not restore the array the object had "
                             "when %d was the root before (%s)" % (j, j, where), dict(case, before=c, after=c2, earlier=by_root[j]))
            continue
        if o == "set":
            overridden.add(call["i"])
            continue
        if o == "get":
            i = call["i"]
            if isinstance(r, list) and i not in overridden:
                if tree0 and 0 <= i < n - 1 and r[:3] != want[i]:
                    if stale(i, r):
                        ctx.fail("C18:view-stale-after-toroot",
                                 "segments[%d] still is the segment handed out before to_root changed the parent of vertex %d (%s)"
                                 % (i, i + 1, where), dict(case, got=r, want=want[i]))
                    else:
                        ctx.fail("C18:view-endpoints", "segments[%d] does not join vertex %d and its parent vertex (%s)"
                                 % (i, i + 1, where), dict(case, got=r, want=want[i]))
                shadow.setdefault(i, (c, r))
            elif tree0 and 0 <= i < n - 1 and i not in overridden:
                ctx.fail("C18:view-endpoints", "segments[%d] raised %s on a tree with %d vertices (%s)" % (i, r, n, where), case)
        elif o == "len":
            if tree0 and r != n - 1:
                ctx.fail("C18:view-count", "len(segments) = %s on a tree with %d vertices (%s)" % (r, n, where), case)
        elif o == "iter":
            if not isinstance(r, list):
                if tree0:
                    ctx.fail("C18:view-count", "iterating the view raised %s on a tree with %d vertices (%s)" % (r, n, where), case)
                continue
            if tree0 and not overridden:
                if len(r) != n - 1:
                    ctx.fail("C18:view-count", "iterating the view gives %d segments on a tree with %d vertices (%s)"
                             % (len(r), n, where), case)
                else:
                    bad = [i for i in range(n - 1) if r[i][:3] != want[i]]
                    if bad and all(stale(i, r[i]) for i in bad):
                        ctx.fail("C18:view-stale-after-toroot",
                                 "iteration still yields the segment %d handed out before to_root changed that vertex's parent (%s)"
                                 % (bad[0], where), dict(case, got=r[bad[0]], want=want[bad[0]]))
                    elif bad:
                        ctx.fail("C18:view-endpoints", "iterated segment %d does not join vertex %d and its parent vertex (%s)"
                                 % (bad[0], bad[0] + 1, where), dict(case, got=r[bad[0]], want=want[bad[0]]))
            for i, sg in enumerate(r):
                shadow.setdefault(i, (c, sg))
        elif o == "sfv":
            k = call["k"]
            if tree0 and 1 <= k < n and (not isinstance(r, list) or r[:3] != want[k - 1]):
                ctx.fail("C18:sfv-endpoints", "segment_from_vertex_index(%d) does not join vertex %d and its parent vertex (%s)"
                         % (k, k, where), dict(case, got=r, want=want[k - 1]))
        elif o == "conv":
            if tree0 and (not isinstance(r, list) or [x[:3] for x in r] != want):
                if isinstance(r, list) and len(r) == n - 1 and r and r[0][0] == 0:
                    key = "C18:convert-bogus-root-segment"
                else:
                    key = "C18:convert-differs-from-view"
                ctx.fail(key, "to_neuroml_morphology does not yield one segment per non-root vertex joining it to its parent "
                              "vertex (%s)" % where, dict(case, conv=r, want=want))
        fresh_view = not overridden and not any(shadow[k][0] != c for k in shadow)      # no user-set / stale cache entries
        if tree0 and (o in ("sfv", "conv") or (o in ("get", "iter") and fresh_view)):
            segs = r if o in ("iter", "conv") and isinstance(r, list) else ([r] if isinstance(r, list) else [])
            bad = bad_parent_ref(segs, c)
            if bad:
                ctx.fail("C18:segment-parent-ref", "segment %d does not name the segment of its parent vertex %d as parent (%s)"
                         % (bad[0][0], c[bad[0][0]], where), dict(case, got=bad[0]))
        # an observer must not change the arrays
        nxt = steps[pos + 1][0] if pos + 1 < len(steps) else final["c"]
        if nxt != c:
            ctx.fail("C18:view-modifies-arrays", "%s changed the connectivity array" % where, case)
    if "append" not in kinds and "iadd" not in kinds and (final["v"] != arrs["v"] or final["m"] != arrs["m"]):
        ctx.fail("C18:history-touches-other-arrays", "a call of the history changed vertices or mask", case)


def gen_calls(rng, n, with_set=False, long=False):
    """a history: view reads, conversions and re-rootings in any order on one object"""
    k = rng.randint(2, 14 if long else 8)
    calls = []
    root = 0
    for _ in range(k):
        r = rng.random()
        if r < 0.34:
            q = rng.random()
            if n >= 2 and q < 0.75:
                i = rng.randrange(n - 1)
            elif q < 0.9:
                i = -rng.randint(1, n + 1)
            else:
                i = n - 1 + rng.randrange(3)
            calls.append({"o": "get", "i": i})
        elif r < 0.44:
            calls.append({"o": "iter"})
        elif r < 0.50:
            calls.append({"o": "len"})
        elif r < 0.60:
            kk = rng.randrange(1, n) if n >= 2 and rng.random() < 0.8 else rng.choice([0, -1, n, n + 1, -n])
            calls.append({"o": "sfv", "k": kk})
        elif r < 0.78:
            calls.append({"o": "conv"})
        elif r < 0.93 and n >= 1:
            j = 0 if (root != 0 and rng.random() < 0.6) else rng.randrange(n)
            calls.append({"o": "toroot", "j": j})
            root = j
        elif r < 0.95:
            calls.append({"o": "valid"})
        elif r < 0.97:
            o = rng.choice(["parent_id", "vertex", "children", "physical", "root_vertex", "alen"])
            calls.append({"o": o, "i": rng.randrange(-n - 1, n + 2)} if o in ("parent_id", "vertex", "children") else {"o": o})
        elif with_set and n >= 1 and rng.random() < 0.4:
            mk = lambda: [rng.randrange(1, 60), [rng.randrange(400) for _ in range(4)],  # noqa: E731
                          [rng.randrange(400) for _ in range(4)], None]
            calls.append({"o": "append", "s": mk()} if rng.random() < 0.7 else {"o": "iadd", "ss": [mk(), mk()]})
        elif with_set:
            sv = [rng.randrange(1, 60), [rng.randrange(400) for _ in range(4)], [rng.randrange(400) for _ in range(4)],
                  rng.choice([None, rng.randrange(n + 1)])]
            calls.append({"o": "set", "i": rng.randrange(-1, n + 1), "s": sv})
        else:
            calls.append({"o": "conv"})
    return calls


def multiset(ms):
    return sorted(json.dumps(m, sort_keys=True) for m in ms)


def top_names(case):
    """root group names the writer uses: only members that are array morphologies get a group; the default name is made of
    the position among ALL members of the list"""
    arr = lambda x: x.get("kind") in (None, "array")  # noqa: E731
    cells = [c["id"] if c["id"] is not None else "Cell%d" % k for k, c in enumerate(case["cells"]) if arr(c)]
    # the id of a morphology OBJECT is assigned where the writer first meets it (cell loop first) and then stays
    ids = {}
    for k, c in enumerate(case["cells"]):
        if arr(c):
            cur = ids.get(obj_key(c, "c", k), c["mid"])
            ids[obj_key(c, "c", k)] = cur if cur is not None else "Morphology%d" % k
    morphs = []
    for k, m in enumerate(case["morphs"]):
        if arr(m):
            cur = ids.get(obj_key(m, "m", k), m["id"])
            ids[obj_key(m, "m", k)] = cur if cur is not None else "Morphology%d" % k
            morphs.append(ids[obj_key(m, "m", k)])
    return cells, morphs


def check_file(ctx, case, real, model):
    isdoc = "cells" in case
    canon = {"stream": "doc" if isdoc else "single", "case": case}
    items = (case["cells"] + case["morphs"]) if isdoc else [case]
    ctx.seen(canon, nontrivial=len([x for x in items if x.get("kind") in (None, "array")]) >= 2 if isdoc else len(case["c"]) >= 2)
    ctx.count("file:doc" if isdoc else "file:single")
    if isdoc:
        ctx.count("doc:cells=%d,morphs=%d" % (len(case["cells"]), len(case["morphs"])))
    ctx.corr_evals += 1
    r = {k: v for k, v in real.items() if k in ("res", "morphs")}
    if model != r:
        ctx.disagree("file", canon, r, model)
    # ---- full property: identical arrays for every (array) morphology
    is_arr = lambda x: x.get("kind") in (None, "array")  # noqa: E731
    want = [{"v": x["v"], "c": x["c"], "m": eff_mask(x)} for x in items if is_arr(x)]
    survived = real["res"] == "ok" and multiset(real["morphs"]) == multiset(want)
    if isdoc:
        cells, morphs = top_names(case)
        explicit_c = [c["id"] for c in case["cells"] if c["id"] is not None]
        explicit_m = [m["id"] for m in case["morphs"] if m["id"] is not None]
        if len(set(explicit_c)) != len(explicit_c) or len(set(explicit_m)) != len(explicit_m):
            ctx.count("doc:duplicate-explicit-id-same-type(not a valid document)")
            return
        # which of the known obstacles does this document have?  (a finding key is used only when the document has that
        # obstacle AND the writer / loader failed in the way that obstacle makes it fail; anything else is a violation)
        nonarr = [x for x in items if not is_arr(x)]
        objs = [x["obj"] for x in items if "obj" in x]
        if len(objs) != len(set(objs)):
            ctx.count("doc:shared-morphology-object")
        dflt_clash = len(set(cells)) != len(cells) or len(set(morphs)) != len(morphs)
        share = bool(set(cells) & set(morphs))
        vert = any(is_arr(c) and c["mid"] == "vertices" for c in case["cells"])
        for flag, name in ((any(x.get("kind") == "none" for x in nonarr), "doc:cell-without-embedded-morphology"),
                           (any(x.get("kind") == "plain" for x in nonarr), "doc:plain-morphology"),
                           (dflt_clash, "doc:default-id-collides-with-explicit-id"), (share, "doc:cell-id==morphology-id"),
                           (vert, "doc:cell-morphology-named-vertices")):
            if flag:
                ctx.count(name)
        if not survived:
            res, key, what = real["res"], None, None
            if res == "AttributeError" and nonarr:
                if nonarr[0].get("kind") == "none":
                    key, what = "C18:doc-cell-without-morphology", "a document with a cell that has no embedded morphology cannot be written"
                else:
                    key, what = "C18:doc-plain-morphology", "a document that also holds a plain neuroml.Morphology cannot be written"
            elif res == "NodeError" and dflt_clash:
                key, what = "C18:doc-default-id-collides", "the default name of an id-less cell / morphology equals an explicit id"
            elif res == "NodeError" and share:
                key, what = "C18:doc-cell-and-morphology-share-name", "a cell and a stand-alone morphology with the same id cannot be written"
            elif res == "NoSuchNodeError" and vert:
                key, what = "C18:doc-cell-morphology-named-vertices", \
                    "a cell whose morphology id is 'vertices' is mistaken for a morphology group on load"
            if key:
                ctx.fail(key, "%s: %s" % (what, res), canon)
                return
    if real["res"] != "ok":
        nm = len(case["morphs"]) if isdoc else 0
        key = "C18:doc-standalone-unwritable" if (isdoc and nm and real["res"] in ("UnboundLocalError", "NodeError")) \
            else "C18:roundtrip-raises"
        ctx.fail(key, "write/load failed: %s %s (open handles left: %s)" % (real["res"], real.get("msg", ""), real.get("leaked")),
                 canon)
        return
    if multiset(real["morphs"]) != multiset(want):
        ctx.fail("C18:roundtrip-arrays-differ", "loaded arrays differ from the written ones", dict(canon, loaded=real["morphs"]))
    elif multiset(real["typed"][0]) != multiset(real["typed"][1]):
        ctx.fail("C18:roundtrip-dtype-differs", "loaded arrays have another dtype / shape than the written ones",
                 dict(canon, written=real["typed"][0], loaded=real["typed"][1]))
    else:
        # the loaded objects' own views agree with the loaded arrays
        for la, vw in zip(real["morphs"], real["views"]):
            if not in_scope(la):
                continue
            n = len(la["c"])
            want_l = [[k, la["v"][k], la["v"][la["c"][k]]] for k in range(1, n)]
            if vw.get("len") != n - 1 or [x[:3] for x in vw.get("iter", [])] != want_l or \
                    [x[:3] for x in vw.get("conv", [])] != want_l:
                ctx.fail("C18:loaded-view-disagrees", "the segment view / conversion of a LOADED morphology does not agree with "
                         "its arrays", dict(canon, loaded=la, view=vw))
                break
        if real.get("leaked"):
            ctx.fail("C18:handle-left-open", "writer left an HDF5 handle open", canon)


def file_line(case):
    def arrj(x):
        return {"v": x["v"], "c": x["c"], "m": eff_mask(x)}
    if "cells" in case:
        return json.dumps({"op": "doc",
                           "cells": [dict(arrj(c), id=c["id"], mid=c["mid"], kind=c.get("kind", "array"), obj=obj_key(c, "c", k))
                                     for k, c in enumerate(case["cells"])],
                           "morphs": [dict(arrj(m), id=m["id"], kind=m.get("kind", "array"), obj=obj_key(m, "m", k))
                                      for k, m in enumerate(case["morphs"])]})
    return json.dumps(dict(arrj(case), op="single", id=case["id"]))


def pick_idx(rng, n):
    cand = list(range(-n - 2, n + 3))
    rng.shuffle(cand)
    return sorted(cand[: min(len(cand), 8)])


def run_cases(ctx, morphs, toroots, files, hists=()):
    """morphs: [(arr, idx)], toroots: [(arr, [j...], wellformed)], files: [case], hists: [(arr, calls)]"""
    lines, plan = [], []
    # history stream: many calls on ONE object (model input = the arrays the real object holds at the start)
    for a, calls in hists:
        arrs, made, steps, final, cache = real_hist(a, calls)
        plan.append(("hist", a, calls, arrs, made, steps, final, cache))
        lines.append(hist_line(arrs, made))
    # morph stream (model input = the arrays the real object holds)
    for a, idx in morphs:
        arrs, real = real_morph(a, idx)
        plan.append(("morph", a, idx, arrs, real))
        lines.append(morph_line(arrs, idx))
    # toroot stream
    for a, js, wf in toroots:
        v0, seq = real_toroot_seq(a, js)
        for (before, res), j in zip(seq, js):
            plan.append(("toroot", a, v0, before, j, res, wf))
            lines.append(json.dumps({"op": "toroot", "v": v0["v"], "c": before, "m": v0["m"], "j": j}))
    # file stream
    root = tempfile.mkdtemp(prefix="verif_c18_")
    try:
        for k, case in enumerate(files):
            real = real_file(case, root, k)
            plan.append(("file", case, real))
            lines.append(file_line(case))
    finally:
        close_tables()
        shutil.rmtree(root, ignore_errors=True)
    rc, out = fw.run_driver("C18", lines)
    if rc != 0 or len(out) != len(lines):
        ctx.disagree("driver", "driver failed rc=%s (%d lines in, %d out)" % (rc, len(lines), len(out)), "\n".join(out[-5:]), None)
        out = ['{"error":"driver"}'] * len(lines)
    sampled = {}
    for p, o in zip(plan, out):
        try:
            mo = json.loads(o)
        except ValueError:
            mo = {"error": o[:200]}
        if p[0] == "hist":
            check_hist(ctx, p[1], p[2], p[3], p[4], p[5], p[6], p[7], mo)
            if p[1].get("kind") and len(p[4]) >= 4 and sampled.setdefault("hist", 0) < 2:
                sampled["hist"] += 1
                ctx.sample({"stream": "hist", "c": p[1]["c"][:16], "calls": [call_str(c) for c in p[4]],
                            "results": [r if not isinstance(r, list) else "(%d values)" % len(r) for _, r in p[5]][:14]})
        elif p[0] == "morph":
            check_morph(ctx, p[1], p[2], p[3], p[4], mo)
            if p[1].get("kind") and sampled.setdefault("morph", 0) < 2:
                sampled["morph"] += 1
                ctx.sample({"stream": "morph", "kind": p[1]["kind"], "shape": p[1]["shape"], "n": len(p[1]["c"]),
                            "c": p[1]["c"][:16], "m": p[1]["m"] and p[1]["m"][:16], "idx": p[2]})
        elif p[0] == "toroot":
            check_toroot(ctx, p[1], p[2], p[3], p[4], p[5], mo, p[6])
            if p[1].get("kind") and len(p[3]) >= 5 and sampled.setdefault("toroot", 0) < 2:
                sampled["toroot"] += 1
                ctx.sample({"stream": "toroot", "c": p[3][:16], "new_root": p[4],
                            "after": (p[5].get("arr") or {}).get("c", p[5]["res"])[:16]})
        else:
            check_file(ctx, p[1], p[2], mo)
            if "cells" in p[1] and len(p[1]["cells"]) + len(p[1]["morphs"]) >= 3 and sampled.setdefault("doc", 0) < 2:
                sampled["doc"] += 1
                ctx.sample({"stream": "doc", "cells": [[c["id"], c["mid"], len(c["c"])] for c in p[1]["cells"]],
                            "morphs": [[m["id"], len(m["c"])] for m in p[1]["morphs"]], "result": p[2]["res"],
                            "loaded_sizes": [len(m["c"]) for m in p[2].get("morphs", [])]})


V4 = [[0, 0, 0, 8], [8, 0, 0, 16], [16, 0, 0, 24], [24, 0, 0, 32]]
CORPUS = {
    "morphs": [
        # conversion must not emit a segment for the root / drop the last vertex (repaired: fixes/C18-convert-range.patch)
        ({"v": V4, "c": [-1, 0, 1, 1], "m": None}, [0, 1, 2, 3, -1, -4]),
        ({"v": V4[:2], "c": [-1, 0], "m": None}, [0, 1, -1]),
        ({"v": V4[:1], "c": [-1], "m": None}, [0, -1]),
        # parent index larger than child index
        ({"v": V4, "c": [-1, 3, 1, 0], "m": None}, [0, 1, 2]),
        # floating vertices: bug-for-bug only (vertex after a masked one is skipped, masked root gets a segment)
        ({"v": V4, "c": [-1, 0, -1, 2], "m": [0, 0, 1, 0]}, [0, 1, 2, -1]),
        ({"v": V4, "c": [-1, 0, 1, -1], "m": [0, 0, 0, 1]}, [0, 1, 2, 3]),
    ],
    "toroots": [
        ({"v": V4, "c": [-1, 0, 1, 2], "m": None}, [2], True),                # the repo's own test
        ({"v": V4, "c": [-1, 0, 1, 1], "m": None}, [3, 0, 2], True),          # chain of re-rootings on one object
        ({"v": V4, "c": [1, 2, 3, -1], "m": None}, [0], True),                # root is the last vertex
        ({"v": V4, "c": [1, 2, 3, -1], "m": None}, [-1], False),              # to_root(-1) there never terminates
        ({"v": V4, "c": [-1, 0, 1, 1], "m": None}, [-1], False),
        ({"v": V4, "c": [-1, 0, 1, 1], "m": None}, [4], False),
        # cyclic connectivity (2 -> 3 -> 1 -> 2 next to the root 0): to_root from the cycle never reaches the old root
        ({"v": V4, "c": [-1, 2, 3, 1], "m": None}, [2], False),
        ({"v": V4, "c": [-1, 2, 3, 1], "m": None}, [0], False),               # ... from the root itself it stops at once
    ],
    "hists": [
        # the cache is keyed by SEGMENT index (vertex index - 1): a conversion that "reuses" cached segments by vertex index
        # duplicates the segment of vertex k+1 in the slot of vertex k -- only visible after a view read on the same object
        ({"v": V4, "c": [-1, 0, 1, 1], "m": None}, [{"o": "get", "i": 1}, {"o": "conv"}]),
        ({"v": V4, "c": [-1, 0, 1, 1], "m": None}, [{"o": "iter"}, {"o": "conv"}, {"o": "get", "i": 0}, {"o": "sfv", "k": 3},
                                                    {"o": "len"}, {"o": "valid"}]),
        ({"v": V4, "c": [-1, 3, 1, 0], "m": None}, [{"o": "get", "i": 2}, {"o": "get", "i": -2}, {"o": "get", "i": 2},
                                                    {"o": "conv"}, {"o": "iter"}]),
        # re-rooting there and back on one object, views before / in between / after; no view read before the first to_root
        ({"v": V4, "c": [-1, 0, 1, 2], "m": None}, [{"o": "toroot", "j": 3}, {"o": "conv"}, {"o": "toroot", "j": 0},
                                                    {"o": "get", "i": 0}, {"o": "iter"}, {"o": "conv"}]),
        # regression (was finding C18:view-stale-after-toroot, repaired by fixes/C18-toroot-invalidates-cache.patch): a view read
        # between two re-rootings must not be served again afterwards
        ({"v": V4, "c": [-1, 0, 1, 2], "m": None}, [{"o": "toroot", "j": 3}, {"o": "get", "i": 0}, {"o": "toroot", "j": 0},
                                                    {"o": "get", "i": 0}, {"o": "conv"}]),
        # user-assigned segment (outside the property): the conversion must not pick it up, iteration runs past the arrays
        ({"v": V4, "c": [-1, 0, 1, 1], "m": None}, [{"o": "set", "i": 3, "s": [9, [1, 2, 3, 4], [5, 6, 7, 8], 2]}, {"o": "iter"},
                                                    {"o": "conv"}, {"o": "valid"}, {"o": "get", "i": 3}]),
        ({"v": V4[:1], "c": [-1], "m": None}, [{"o": "iter"}, {"o": "conv"}, {"o": "len"}, {"o": "toroot", "j": 0}, {"o": "get", "i": 0}]),
        ({"v": [], "c": [], "m": None}, [{"o": "iter"}, {"o": "conv"}, {"o": "len"}, {"o": "get", "i": 0}, {"o": "toroot", "j": 0}]),
        ({"v": [], "c": [], "m": None}, [{"o": "len"}, {"o": "append", "s": [3, [8, 16, 24, 32], [0, 8, 0, 8], None]}]),
        ({"v": V4[:2], "c": [-1, 0], "m": None}, [{"o": "get", "i": 0}, {"o": "append", "s": [5, [80, 0, 0, 8], [72, 0, 0, 8], None]},
                                                  {"o": "len"}, {"o": "iter"}, {"o": "get", "i": 1}, {"o": "conv"},
                                                  {"o": "iadd", "ss": [[6, [1, 1, 1, 1], [2, 2, 2, 2], 5], [7, [3, 3, 3, 3], [4, 4, 4, 4], 6]]},
                                                  {"o": "len"}, {"o": "iter"}, {"o": "valid"}, {"o": "physical"}]),
    ],
    "files": [
        {"id": None, "v": V4, "c": [-1, 0, 1, 1], "m": None},
        {"id": "vertices", "v": V4, "c": [-1, 0, 1, 1], "m": [0, 0, 1, 0]},
        # stand-alone morphologies (was: UnboundLocalError / NodeError; repaired: fixes/C18-writer-standalone.patch)
        {"cells": [], "morphs": [{"id": "m1", "v": V4[:2], "c": [-1, 0], "m": None}]},
        {"cells": [{"id": "c1", "mid": "mc", "v": V4, "c": [-1, 0, 1, 1], "m": None}],
         "morphs": [{"id": "m1", "v": V4[:2], "c": [-1, 0], "m": None}, {"id": None, "v": V4[:3], "c": [-1, 0, 0], "m": [0, 1, 0]}]},
        {"cells": [{"id": None, "mid": None, "v": V4, "c": [-1, 0, 1, 1], "m": None},
                   {"id": None, "mid": None, "v": V4[:1], "c": [-1], "m": None}], "morphs": []},
        {"cells": [], "morphs": []},
        # KNOWN FINDING (open): name collision in the flat group layout
        {"cells": [{"id": "x", "mid": "m", "v": V4[:2], "c": [-1, 0], "m": None}],
         "morphs": [{"id": "x", "v": V4[:3], "c": [-1, 0, 0], "m": None}]},
        # regression (was C18:doc-cell-morphology-named-vertices, repaired by fixes/C18-loader-vertices-is-array.patch)
        {"cells": [{"id": "x", "mid": "vertices", "v": V4[:2], "c": [-1, 0], "m": None}], "morphs": []},
        {"cells": [{"id": "x", "mid": "vertices", "v": V4[:2], "c": [-1, 0], "m": None},
                   {"id": "vertices", "mid": "vertices", "v": V4[:3], "c": [-1, 0, 1], "m": [0, 1, 0]}],
         "morphs": [{"id": "connectivity", "v": V4[:1], "c": [-1], "m": None}]},
        # regression (were C18:doc-cell-without-morphology / C18:doc-plain-morphology, repaired by
        # fixes/C18-writer-skips-non-array.patch): a cell that refers to a stand-alone morphology instead of embedding one; a
        # plain Morphology in the document; skipped members still count for the default names; their ids cannot collide
        {"cells": [{"id": "c", "mid": None, "kind": "none", "v": [], "c": [], "m": None}],
         "morphs": [{"id": "m", "v": V4[:3], "c": [-1, 0, 0], "m": None}]},
        {"cells": [{"id": "c", "mid": "pm", "kind": "plain", "v": [], "c": [], "m": None},
                   {"id": "c2", "mid": "am", "v": V4[:2], "c": [-1, 0], "m": None}], "morphs": []},
        {"cells": [], "morphs": [{"id": "pm", "kind": "plain", "v": [], "c": [], "m": None},
                                 {"id": "m", "v": V4[:3], "c": [-1, 0, 0], "m": None}]},
        {"cells": [{"id": "m", "mid": None, "kind": "none", "v": [], "c": [], "m": None},
                   {"id": None, "mid": None, "v": V4[:1], "c": [-1], "m": None},
                   {"id": "p", "mid": "pm", "kind": "plain", "v": [], "c": [], "m": None}],
         "morphs": [{"id": "pm", "kind": "plain", "v": [], "c": [], "m": None},
                    {"id": None, "v": V4[:2], "c": [-1, 0], "m": None}, {"id": "m", "v": V4[:3], "c": [-1, 0, 0], "m": None}]},
        # one ArrayMorphology OBJECT used by two cells and listed stand-alone as well ("obj"): written three times, under the
        # name its first occurrence was given
        {"cells": [{"id": None, "mid": None, "obj": 1, "v": V4[:2], "c": [-1, 0], "m": None},
                   {"id": None, "mid": None, "kind": "none", "v": [], "c": [], "m": None},
                   {"id": None, "mid": None, "obj": 1, "v": V4[:2], "c": [-1, 0], "m": None}],
         "morphs": [{"id": None, "obj": 1, "v": V4[:2], "c": [-1, 0], "m": None}, {"id": None, "v": V4[:1], "c": [-1], "m": None}]},
        # KNOWN FINDING (open, default-id-collides through sharing): the object of cell 0 was named Morphology0 by the cell loop;
        # listed again as the SECOND stand-alone morphology it keeps that name = the default name of the id-less first one
        {"cells": [{"id": "c", "mid": None, "obj": 1, "v": V4[:2], "c": [-1, 0], "m": None}],
         "morphs": [{"id": None, "v": V4[:1], "c": [-1], "m": None}, {"id": None, "obj": 1, "v": V4[:2], "c": [-1, 0], "m": None}]},
        # KNOWN FINDING (open): the default name of an id-less morphology / cell equals an explicit id
        {"cells": [], "morphs": [{"id": "Morphology1", "v": V4[:2], "c": [-1, 0], "m": None},
                                 {"id": None, "v": V4[:3], "c": [-1, 0, 0], "m": None}]},
        {"cells": [{"id": None, "mid": None, "v": V4[:2], "c": [-1, 0], "m": None},
                   {"id": "Cell0", "mid": None, "v": V4[:3], "c": [-1, 0, 0], "m": None}], "morphs": []},
        # default ids that do NOT collide: id-less cell 0 (Cell0/Morphology0) and an id-less stand-alone morphology (Morphology0)
        {"cells": [{"id": None, "mid": None, "v": V4[:2], "c": [-1, 0], "m": None}],
         "morphs": [{"id": None, "v": V4[:3], "c": [-1, 0, 0], "m": None}, {"id": "Cell1", "v": V4[:1], "c": [-1], "m": None}]},
    ],
}


def run(ctx):
    rng = ctx.rng
    HANGS["n"] = 0
    big = ctx.tier == "thorough"
    morphs = [(dict(a), list(i)) for a, i in CORPUS["morphs"]]
    toroots = [(dict(a), list(j), wf) for a, j, wf in CORPUS["toroots"]]
    files = [json.loads(json.dumps(c)) for c in CORPUS["files"]]
    mult = ctx.search_mult
    for _ in range(ctx.n(250, 2500) * mult):
        a = gen_arr(rng, big)
        morphs.append((a, pick_idx(rng, len(a["c"]))))
    for _ in range(ctx.n(70, 600) * mult):
        a = gen_arr(rng, big, kind=rng.choice(["tree0", "tree0", "tree0id", "rerooted"]))
        n = len(a["c"])
        for j in range(n):                                   # every choice of new root, fresh object each
            toroots.append((a, [j], True))
        if n:
            js = [rng.randrange(n) for _ in range(3)]        # three re-rootings on one object
            toroots.append((a, js, True))
        if rng.random() < 0.5:
            bad = rng.choice([n, n + 3, -n - 1, -1, -n, -rng.randint(1, max(n, 1))])
            if bad == -1 and n and a["c"][-1] == -1:
                bad = n          # to_root(-1) with the root in the last slot never terminates (kept once, in CORPUS)
            toroots.append((a, [bad], False))
    for _ in range(ctx.n(1, 3)):                             # cyclic connectivity, guarded (each costs the guard's timeout)
        a = gen_arr(rng, big, kind="tree0")
        n = len(a["c"])
        if n >= 4:
            cyc = rng.sample(range(1, n), rng.randint(2, min(4, n - 1)))
            c = list(a["c"])
            for x, y in zip(cyc, cyc[1:] + cyc[:1]):
                c[x] = y
            a = dict(a, c=c, kind="cyclic")
            on_cycle = [x for x in range(n) if not _reaches(c, x, 0)]
            toroots.append((a, [rng.choice(on_cycle)], False))
            ctx.count("toroot:cyclic(guarded)")
    for _ in range(ctx.n(12, 60) * mult):                    # forests: bug-for-bug only
        a = gen_arr(rng, big, kind="floating")
        n = len(a["c"])
        root_comp = [v for v in range(n) if _reaches(a["c"], v, 0)]
        if root_comp:
            toroots.append((a, [rng.choice(root_comp)], False))
    hists = [(dict(a), json.loads(json.dumps(c))) for a, c in CORPUS["hists"]]
    for i in range(ctx.n(450, 4000) * mult):
        kind = rng.choices(["tree0", "tree0id", "rerooted", "floating", "badmask"], [60, 14, 10, 10, 6])[0]
        a = gen_arr(rng, big, kind=kind)
        tree = any(is_tree(a["c"], r0) for r0 in range(len(a["c"]))) and not any(eff_mask(a))
        calls = gen_calls(rng, len(a["c"]), with_set=(i % 7 == 6), long=(i % 3 == 0))
        if not tree:       # to_root on forests / garbage may not terminate: the toroot stream has the guarded cases
            calls = [c for c in calls if c["o"] != "toroot"] or [{"o": "iter"}]
        if len(a["c"]) == 0 and i % 2:
            calls.append({"o": "append", "s": [3, [8, 16, 24, 32], [0, 8, 0, 8], None]})
        hists.append((a, calls))
    for _ in range(ctx.n(40, 300) * mult):
        a = gen_arr(rng, big)
        files.append({"id": rng.choice([None, None, "m", "vertices", "Morphology", "a10"]), "v": a["v"], "c": a["c"],
                      "m": a["m"], "int": a["int"]})
    for i in range(ctx.n(200, 1500) * mult):
        files.append(gen_doc(rng, collide=(i % 5 == 4), mixed=(i % 6 == 5), share=(i % 4 == 3)))
    if big:
        ctx.count("tier:thorough-sizes")
    run_cases(ctx, morphs, toroots, files, hists)


def _reaches(c, v, root):
    steps = 0
    while v != root:
        v = c[v]
        steps += 1
        if v == -1 or steps > len(c):
            return False
    return True


def replay(ctx, payload):
    case = payload["case"]
    case = case.get("case", case) if "stream" not in case else case
    st = case.get("stream")
    if st == "hist":
        run_cases(ctx, [], [], [], [(case["arr"], case["calls"])])
    elif st == "morph":
        run_cases(ctx, [(case["arr"], case["idx"])], [], [])
    elif st == "toroot":
        a = case["arr"]
        wf = any(is_tree(a["c"], r) for r in range(len(a["c"])))
        run_cases(ctx, [], [(a, [case["j"]], wf)], [])
    elif st in ("doc", "single"):
        run_cases(ctx, [], [], [case["case"]])
    else:
        return {"fails": False, "note": "no case in payload (obligation-only replay): re-run bin/check C18"}
    return {"fails": bool(ctx.failures or ctx.corr_disagreements), "failures": ctx.failures,
            "disagreements": ctx.corr_disagreements}
