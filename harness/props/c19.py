"""C19 — connection and input accessors and the document summary agree with the data.

Tie (two independent ones):
  * translator: `regenerate(ctx)` re-derives lean/NmlVerif/Gen/Accessors.lean from the Python AST of
    neuroml/nml/helper_methods.py, neuroml/nml/nml.py and neuroml/hdf5/NeuroMLXMLParser.py on every run; the theorems of
    lean/NmlVerif/Props/C19Gen.lean (`generated = hand model`, by `rfl`) break when the Python changes;
  * hand model (lean/NmlVerif/Model/Accessors.lean) + correspondence: the real classes vs lean/Drivers/C19.lean on
    generated objects / strings / documents, and a harness-side oracle evaluating the property on the real code.
"""
import json
import math
import os
import re
import sys
import time
from fractions import Fraction

import fw

LEAN_PROPS = ["NmlVerif.Props.C19", "NmlVerif.Props.C19Gen"]
LEVEL = "proof"

# ------------------------------------------------------------------------------------------------
# translator: Python AST of the tiny accessors -> lean/NmlVerif/Gen/Accessors.lean  (regenerate(ctx))
# ------------------------------------------------------------------------------------------------
import ast
import runpy

CLASSES = ["Connection", "ConnectionWD", "ElectricalConnection", "ElectricalConnectionInstance",
           "ElectricalConnectionInstanceW", "ContinuousConnection", "ContinuousConnectionInstance",
           "ContinuousConnectionInstanceW", "Input", "InputW", "ExplicitInput", "SynapticConnection", "Population"]
WHITELIST = ["_get_cell_id", "get_pre_cell_id", "get_post_cell_id", "get_pre_segment_id", "get_post_segment_id",
             "get_pre_fraction_along", "get_post_fraction_along", "get_weight", "get_delay_in_ms",
             "get_target_cell_id", "get_segment_id", "get_fraction_along", "get_size"]
CTOR_FIELDS = ["pre_cell_id", "pre_segment_id", "pre_fraction_along", "post_cell_id", "post_segment_id",
               "post_fraction_along", "pre_cell", "pre_segment", "post_cell", "post_segment", "weight", "delay",
               "target", "segment_id", "fraction_along", "from_", "to", "size"]
FLOAT_LITS = {0.5: "fs.half", 1.0: "fs.one", 1000.0: "fs.thousand"}
TOTALS = {"tot_cells": ".cells", "tot_pop": ".pops", "tot_conns": ".conns", "tot_proj": ".projs",
          "tot_inputs": ".inputs", "tot_input_lists": ".inputLists"}


class Gap(Exception):
    pass


def lean_chars(s):
    def one(c):
        if c == "'":
            return "'\\''"
        if c == "\\":
            return "'\\\\'"
        if c == "\n":
            return "'\\n'"
        if c == "\t":
            return "'\\t'"
        if 32 <= ord(c) < 127:
            return "'%s'" % c
        return "(Char.ofNat %d)" % ord(c)
    return "[" + ", ".join(one(c) for c in s) + "]"


def lean_str(s):
    return '"' + s.replace("\\", "\\\\").replace('"', '\\"').replace("\n", "\\n") + '"'


def src(node):
    try:
        return ast.unparse(node)
    except Exception:
        return type(node).__name__


class FunTr:
    """one method body -> one Lean term over the prelude combinators of Model/Accessors.lean"""

    def __init__(self, prefix, cls, params, resolvable):
        self.prefix, self.cls, self.params, self.resolvable = prefix, cls, params, resolvable

    def gap(self, node, why):
        raise Gap("%s: `%s`" % (why, src(node)[:90]))

    def expr(self, e):
        E = self.expr
        if isinstance(e, ast.Name):
            if e.id in self.params:
                return e.id
            self.gap(e, "free variable")
        if isinstance(e, ast.Constant):
            v = e.value
            if v is None:
                return "pnone"
            if isinstance(v, bool):
                self.gap(e, "bool literal")
            if isinstance(v, int):
                return "(pint %s)" % (v if v >= 0 else "(%d)" % v)
            if isinstance(v, float):
                if v in FLOAT_LITS:
                    return "(pnum %s)" % FLOAT_LITS[v]
                self.gap(e, "float literal outside {0.5, 1.0, 1000.0}")
            if isinstance(v, str):
                return "(pstr %s)" % lean_chars(v)
            self.gap(e, "literal")
        if isinstance(e, ast.Attribute):
            if isinstance(e.value, ast.Name) and e.value.id == "self":
                return "(attr self %s)" % lean_str(e.attr)
            self.gap(e, "attribute of a non-self value")
        if isinstance(e, ast.IfExp):
            return "(pIfElse fs %s %s %s)" % (self.test(e.test), E(e.body), E(e.orelse))
        if isinstance(e, ast.Subscript):
            s = e.slice
            if isinstance(s, ast.Constant) and isinstance(s.value, int) and not isinstance(s.value, bool) and s.value >= 0:
                return "(pIndex %d %s)" % (s.value, E(e.value))
            if (isinstance(s, ast.Slice) and s.lower is None and s.step is None and isinstance(s.upper, ast.UnaryOp)
                    and isinstance(s.upper.op, ast.USub) and isinstance(s.upper.operand, ast.Constant)
                    and isinstance(s.upper.operand.value, int) and s.upper.operand.value > 0):
                return "(pDropRight %d %s)" % (s.upper.operand.value, E(e.value))
            self.gap(e, "subscript shape")
        if isinstance(e, ast.BinOp):
            if (isinstance(e.op, ast.Mult) and isinstance(e.right, ast.Constant) and isinstance(e.right.value, float)
                    and e.right.value in FLOAT_LITS):
                return "(pMulF fs %s %s)" % (E(e.left), FLOAT_LITS[e.right.value])
            self.gap(e, "binary operation")
        if isinstance(e, ast.Compare):
            return self.test(e)
        if isinstance(e, ast.Call):
            f = e.func
            if e.keywords:
                self.gap(e, "keyword arguments")
            if isinstance(f, ast.Name):
                if f.id in ("int", "float", "len") and len(e.args) == 1:
                    return {"int": "(pInt fs %s)", "float": "(pFloat fs %s)", "len": "(pLen %s)"}[f.id] % E(e.args[0])
                self.gap(e, "call of `%s`" % f.id)
            if isinstance(f, ast.Attribute):
                if isinstance(f.value, ast.Name) and f.value.id == "self":
                    if f.attr not in self.resolvable:
                        self.gap(e, "call of a method outside the whitelist")
                    fn = "%s.%s.%s" % (self.prefix, self.cls, f.attr)
                    if len(e.args) == 0:
                        return "(%s fs self)" % fn
                    if len(e.args) == 1:
                        return "(pCall1 (%s fs self) %s)" % (fn, E(e.args[0]))
                    self.gap(e, "method call with >1 arguments")
                if f.attr == "split" and len(e.args) == 1 and isinstance(e.args[0], ast.Constant) \
                        and isinstance(e.args[0].value, str) and len(e.args[0].value) == 1:
                    return "(pSplit %s %s)" % (lean_chars(e.args[0].value)[1:-1], E(f.value))
                if f.attr == "strip" and not e.args:
                    return "(pStrip %s)" % E(f.value)
                if f.attr == "endswith" and len(e.args) == 1 and isinstance(e.args[0], ast.Constant) \
                        and isinstance(e.args[0].value, str):
                    return "(pEndsWith %s %s)" % (lean_chars(e.args[0].value), E(f.value))
                self.gap(e, "method `%s`" % f.attr)
            self.gap(e, "call shape")
        self.gap(e, "expression " + type(e).__name__)

    def test(self, t):
        """an expression in test position (also usable as a value: the combinators return Python bools)"""
        if isinstance(t, ast.Compare) and len(t.ops) == 1:
            op, a, b = t.ops[0], t.left, t.comparators[0]
            if isinstance(op, ast.In) and isinstance(a, ast.Constant) and isinstance(a.value, str):
                return "(pIn %s %s)" % (lean_chars(a.value), self.expr(b))
            if isinstance(op, ast.NotEq) and isinstance(b, ast.Constant) and b.value is None:
                return "(pNeNone %s)" % self.expr(a)
            if isinstance(op, ast.IsNot) and isinstance(b, ast.Constant) and b.value is None:
                return "(pIsNotNone %s)" % self.expr(a)
            if (isinstance(op, ast.Gt) and isinstance(b, ast.Constant) and isinstance(b.value, int)
                    and not isinstance(b.value, bool) and isinstance(a, ast.Call) and isinstance(a.func, ast.Name)
                    and a.func.id == "len"):
                return "(pGtInt %d %s)" % (b.value, self.expr(a))
            self.gap(t, "comparison shape")
        if isinstance(t, (ast.BoolOp, ast.UnaryOp)):
            self.gap(t, "boolean operator")
        return self.expr(t)

    def stmts(self, ss):
        if not ss:
            return "pnone"
        s, rest = ss[0], ss[1:]
        if isinstance(s, ast.Return):
            return self.expr(s.value) if s.value is not None else "pnone"
        if isinstance(s, ast.If):
            return "(pIfElse fs %s %s %s)" % (self.test(s.test), self.stmts(s.body + rest), self.stmts(s.orelse + rest))
        if isinstance(s, ast.Pass):
            return self.stmts(rest)
        if isinstance(s, ast.Expr):
            v = s.value
            if isinstance(v, ast.Constant) and isinstance(v.value, str):      # docstring
                return self.stmts(rest)
            if isinstance(v, ast.Call) and isinstance(v.func, ast.Name) and v.func.id == "print":
                return self.stmts(rest)                                        # output is not modelled
            if isinstance(v, ast.Call) and isinstance(v.func, ast.Name) and v.func.id == "exit":
                return "pexit"
            self.gap(s, "expression statement")
        self.gap(s, "statement " + type(s).__name__)


def fun_def(prefix, cls, name, fdef, resolvable):
    args = fdef.args
    if args.vararg or args.kwarg or args.kwonlyargs or args.defaults or args.posonlyargs:
        raise Gap("%s.%s: parameter list shape" % (cls, name))
    names = [a.arg for a in args.args]
    if not names or names[0] != "self":
        raise Gap("%s.%s: first parameter is not self" % (cls, name))
    params = names[1:]
    body = FunTr(prefix, cls, params, resolvable).stmts(fdef.body)
    sig = "".join(" (%s : Res F)" % p for p in params)
    return "def %s.%s.%s (fs : FloatSem F) (self : Obj F)%s : Res F :=\n  %s\n" % (prefix, cls, name, sig, body)


def calls_of(fdef):
    out = []
    for n in ast.walk(fdef):
        if (isinstance(n, ast.Call) and isinstance(n.func, ast.Attribute) and isinstance(n.func.value, ast.Name)
                and n.func.value.id == "self"):
            out.append(n.func.attr)
    return out


def class_methods_block(prefix, own, bases, gaps):
    """own: {class: {method: FunctionDef}} (own definitions only); emits, per class of CLASSES, every whitelisted
    method it has after method resolution, `self.m(...)` resolved against the same class."""
    out = []
    index = {}
    for cls in CLASSES:
        chain, c = [], cls
        while c is not None and c not in chain:
            chain.append(c)
            c = bases.get(c)
        resolved = {}
        for m in WHITELIST:
            for c in chain:
                if m in own.get(c, {}):
                    resolved[m] = own[c][m]
                    break
        done = []

        def emit(m, stack=()):
            if m in done or m not in resolved:
                return
            if m in stack:
                raise Gap("%s.%s: recursive accessor" % (cls, m))
            for k in calls_of(resolved[m]):
                if k in resolved:
                    emit(k, stack + (m,))
            try:
                out.append(fun_def(prefix, cls, m, resolved[m], resolved))
                done.append(m)
            except Gap as g:
                gaps.append("%s %s.%s: %s" % (prefix, cls, m, g))
        for m in WHITELIST:
            emit(m)
        index[cls] = done
    return "\n".join(out), index


def nml_tables(tree):
    own, bases, inits = {}, {}, {}
    for node in tree.body:
        if isinstance(node, ast.ClassDef):
            b = node.bases[0].id if node.bases and isinstance(node.bases[0], ast.Name) else None
            bases[node.name] = b
            d = {}
            for it in node.body:
                if isinstance(it, ast.FunctionDef):
                    d[it.name] = it                     # a later def overrides an earlier one, as in Python
            own[node.name] = d
            if "__init__" in d:
                inits[node.name] = d["__init__"]
    return own, bases, inits


def helper_tables(path, bases):
    ns = runpy.run_path(path, run_name="verif_helper_methods")
    own = {}
    for spec in ns["METHOD_SPECS"]:
        text = "class _X:\n" + spec.source.replace("PERCENTAGE", "%") + "\n    pass\n"
        try:
            body = ast.parse(text).body[0].body
        except SyntaxError:
            continue                                     # (none today) a spec that is not plain methods
        for cls in CLASSES + [c for c in bases if c not in CLASSES]:
            if spec.match_name(cls):
                d = own.setdefault(cls, {})
                for it in body:
                    if isinstance(it, ast.FunctionDef):
                        d[it.name] = it
    return own


def ctor_block(inits, bases, gaps):
    out = []
    for cls in CLASSES:
        chain, c = [], cls
        while c is not None and c in inits:
            chain.append(c)
            c = bases.get(c)
        rows = []
        try:
            own = inits[cls]
            names = [a.arg for a in own.args.args]
            dfl = dict(zip(names[len(names) - len(own.args.defaults):], own.args.defaults))
            # every class of the chain: which of its parameters are assigned with which cast; parameters are handed
            # to super().__init__ under the same name
            for c in reversed(chain):
                f = inits[c]
                for st in f.body:
                    if (isinstance(st, ast.Assign) and len(st.targets) == 1 and isinstance(st.targets[0], ast.Attribute)
                            and isinstance(st.targets[0].value, ast.Name) and st.targets[0].value.id == "self"
                            and st.targets[0].attr in CTOR_FIELDS):
                        fld, v = st.targets[0].attr, st.value
                        if not (isinstance(v, ast.Call) and isinstance(v.func, ast.Name) and v.func.id == "_cast"
                                and len(v.args) == 2 and isinstance(v.args[1], ast.Name) and v.args[1].id == fld):
                            raise Gap("%s.__init__: `%s`" % (c, src(st)))
                        k = v.args[0]
                        cast = {"None": ".asIs", "int": ".toInt", "float": ".toFloat"}.get(
                            "None" if isinstance(k, ast.Constant) and k.value is None else getattr(k, "id", "?"))
                        if cast is None:
                            raise Gap("%s.__init__: cast `%s`" % (c, src(k)))
                        if c != cls:
                            check_passthrough(cls, c, fld, inits, bases)
                        d = dfl.get(fld)
                        if d is None or not isinstance(d, ast.Constant):
                            raise Gap("%s.__init__: default of `%s`" % (cls, fld))
                        if d.value is None:
                            lit = ".none"
                        elif isinstance(d.value, str):
                            lit = "(.str %s)" % lean_chars(d.value)
                        else:
                            raise Gap("%s.__init__: default of `%s` = %r" % (cls, fld, d.value))
                        rows.append("⟨%s, %s, %s⟩" % (lean_str(fld), cast, lit))
        except (Gap, KeyError) as g:
            gaps.append("nml.py constructor %s: %s" % (cls, g))
            continue
        out.append("def Nml.%s.fields : List CtorField :=\n  [%s]\n" % (cls, ",\n   ".join(rows)))
    return "\n".join(out)


def check_passthrough(cls, upto, fld, inits, bases):
    """`fld` of cls.__init__ reaches the parameter `fld` of upto.__init__ through the super().__init__ calls"""
    c = cls
    while c != upto:
        f, b = inits[c], bases[c]
        call = None
        for n in ast.walk(f):
            if (isinstance(n, ast.Call) and isinstance(n.func, ast.Attribute) and n.func.attr == "__init__"
                    and isinstance(n.func.value, ast.Call) and getattr(n.func.value.func, "id", "") == "super"):
                call = n
        if call is None:
            raise Gap("%s.__init__: no super().__init__ call" % c)
        bparams = [a.arg for a in inits[b].args.args][1:]
        ok = False
        for i, a in enumerate(call.args):
            if isinstance(a, ast.Name) and a.id == fld:
                ok = i < len(bparams) and bparams[i] == fld
        for kw in call.keywords:
            if kw.arg == fld and isinstance(kw.value, ast.Name) and kw.value.id == fld:
                ok = True
        if not ok:
            raise Gap("%s.__init__ does not pass `%s` to %s.__init__ under the same name" % (c, fld, b))
        c = b


def summary_block(fdef, gaps):
    """the `tot_x += …` statements of NeuroMLDocument.summary and the printed total lines"""
    adds, lines, inits = [], [], set()
    net_loop = None
    for st in fdef.body:
        if (isinstance(st, ast.For) and isinstance(st.iter, ast.Attribute) and st.iter.attr == "networks"
                and isinstance(st.target, ast.Name)):
            net_loop = st
    if net_loop is None:
        gaps.append("summary: no `for network in self.networks` loop")
        return ""
    nv = net_loop.target.id

    def loop_list(it):
        # sorted(network.L, key=...)  |  network.L
        if isinstance(it, ast.Call) and isinstance(it.func, ast.Name) and it.func.id == "sorted" and it.args:
            it = it.args[0]
        if isinstance(it, ast.Attribute) and isinstance(it.value, ast.Name) and it.value.id == nv:
            return it.attr
        return None

    def len_of(e, var):
        if (isinstance(e, ast.Call) and isinstance(e.func, ast.Name) and e.func.id == "len" and len(e.args) == 1
                and isinstance(e.args[0], ast.Attribute) and isinstance(e.args[0].value, ast.Name)
                and e.args[0].value.id == var):
            return e.args[0].attr
        return None

    def walk_loop(body, L, var, guard):
        for s in body:
            if isinstance(s, ast.AugAssign) and isinstance(s.target, ast.Name) and s.target.id.startswith("tot_"):
                t = TOTALS.get(s.target.id)
                if t is None or not isinstance(s.op, ast.Add):
                    gaps.append("summary: total `%s`" % src(s))
                    continue
                if s.target.id not in inits:
                    gaps.append("summary: `%s` is not initialised to 0 before its loop" % s.target.id)
                v = s.value
                if isinstance(v, ast.Constant) and v.value == 1 and guard is None:
                    w = ".one"
                elif len_of(v, var) is not None and guard is None:
                    w = ".len %s" % lean_str(len_of(v, var))
                elif len_of(v, var) is not None and guard == len_of(v, var):
                    w = ".lenIfPos %s" % lean_str(len_of(v, var))
                elif (isinstance(v, ast.Call) and isinstance(v.func, ast.Attribute) and v.func.attr == "get_size"
                      and isinstance(v.func.value, ast.Name) and v.func.value.id == var and guard is None):
                    w = ".size"
                else:
                    gaps.append("summary: addend `%s`%s" % (src(s), " under a guard" if guard else ""))
                    continue
                adds.append("⟨%s, %s, %s⟩" % (lean_str(L), t, w))
            elif isinstance(s, ast.If):
                g = None
                t = s.test
                if (isinstance(t, ast.Compare) and len(t.ops) == 1 and isinstance(t.ops[0], ast.Gt)
                        and isinstance(t.comparators[0], ast.Constant) and t.comparators[0].value == 0):
                    g = len_of(t.left, var)
                has_tot = any(isinstance(x, ast.AugAssign) and isinstance(x.target, ast.Name)
                              and x.target.id.startswith("tot_") for b in (s.body, s.orelse) for y in b for x in ast.walk(y))
                if has_tot and (g is None or guard is not None or s.orelse):
                    gaps.append("summary: total updated under `%s`" % src(t))
                else:
                    walk_loop(s.body, L, var, g if has_tot else guard)
            elif isinstance(s, (ast.For, ast.While)):
                if any(isinstance(x, ast.AugAssign) and isinstance(x.target, ast.Name) and x.target.id.startswith("tot_")
                       for x in ast.walk(s)):
                    gaps.append("summary: total updated in a nested loop")

    def flatten(e):
        if isinstance(e, ast.BinOp) and isinstance(e.op, ast.Add):
            return flatten(e.left) + flatten(e.right)
        return [e]

    for st in net_loop.body:
        if isinstance(st, ast.Assign) and len(st.targets) == 1 and isinstance(st.targets[0], ast.Name) \
                and st.targets[0].id.startswith("tot_"):
            if isinstance(st.value, ast.Constant) and st.value.value == 0 and not isinstance(st.value.value, bool):
                inits.add(st.targets[0].id)
            else:
                gaps.append("summary: `%s`" % src(st))
        elif isinstance(st, ast.For):
            L = loop_list(st.iter)
            touches = any(isinstance(x, ast.AugAssign) and isinstance(x.target, ast.Name) and x.target.id.startswith("tot_")
                          for x in ast.walk(st))
            if L is None or not isinstance(st.target, ast.Name):
                if touches:
                    gaps.append("summary: totals updated in a loop over `%s`" % src(st.iter))
                continue
            walk_loop(st.body, L, st.target.id, None)
        elif isinstance(st, ast.AugAssign) and isinstance(st.target, ast.Name) and st.target.id.startswith("tot_"):
            gaps.append("summary: total updated outside a list loop: `%s`" % src(st))
        elif (isinstance(st, ast.AugAssign) and isinstance(st.target, ast.Name) and st.target.id == "info"):
            parts = flatten(st.value)
            if any(isinstance(p, ast.Call) and isinstance(p.func, ast.Name) and p.func.id == "str" and p.args
                   and isinstance(p.args[0], ast.Name) and p.args[0].id.startswith("tot_") for p in parts):
                segs, text_done = [], False
                for p in parts:
                    if text_done:
                        break
                    if isinstance(p, ast.Constant) and isinstance(p.value, str):
                        if "\n" in p.value:
                            head = p.value.split("\n")[0]
                            if head:
                                segs.append(".lit %s" % lean_str(head))
                            text_done = True
                        else:
                            segs.append(".lit %s" % lean_str(p.value))
                    elif (isinstance(p, ast.Call) and isinstance(p.func, ast.Name) and p.func.id == "str"
                          and isinstance(p.args[0], ast.Name) and p.args[0].id in TOTALS):
                        segs.append(".tot %s" % TOTALS[p.args[0].id])
                    else:
                        gaps.append("summary: total line piece `%s`" % src(p))
                        text_done = True
                lines.append("[" + ", ".join(segs) + "]")
    return ("def Nml.summaryTable : List Add :=\n  [%s]\n\ndef Nml.summaryLines : List (List Seg) :=\n  [%s]\n"
            % (",\n   ".join(adds), ",\n   ".join(lines)))


def generate(repo):
    """-> (lean text, gaps, stats)"""
    gaps = []
    tree = ast.parse(open(os.path.join(repo, "neuroml/nml/nml.py")).read())
    own_n, bases, inits = nml_tables(tree)
    own_h = helper_tables(os.path.join(repo, "neuroml/nml/helper_methods.py"), bases)
    parts = ["import NmlVerif.Model.Accessors",
             "/-! GENERATED on every check run by harness/props/c19.py (regenerate) from the Python AST of",
             "    neuroml/nml/helper_methods.py, neuroml/nml/nml.py and neuroml/hdf5/NeuroMLXMLParser.py. Do not edit. -/",
             "set_option linter.unusedVariables false", "namespace NmlVerif.Acc.Gen", "variable {F : Type}", ""]
    nfun = 0
    for prefix, own in (("Helper", own_h), ("Nml", own_n)):
        block, index = class_methods_block(prefix, own, bases, gaps)
        nfun += sum(len(v) for v in index.values())
        parts.append("/-! ### accessors, %s -/\n" % prefix)
        parts.append(block)
        parts.append("def %s.index : List (String × List String) :=\n  [%s]\n" % (
            prefix, ",\n   ".join("(%s, [%s])" % (lean_str(c), ", ".join(lean_str(m) for m in index[c])) for c in CLASSES)))
        sm = own.get("NeuroMLDocument", {}).get("summary")
        if sm is None:
            gaps.append("%s: NeuroMLDocument.summary not found" % prefix)
        else:
            parts.append(summary_block(sm, gaps).replace("def Nml.", "def %s." % prefix))
    parts.append("/-! ### constructors (nml.py) -/\n")
    parts.append(ctor_block(inits, bases, gaps))
    ptree = ast.parse(open(os.path.join(repo, "neuroml/hdf5/NeuroMLXMLParser.py")).read())
    pd = None
    for node in ptree.body:
        if isinstance(node, ast.ClassDef) and node.name == "NeuroMLXMLParser":
            for it in node.body:
                if isinstance(it, ast.FunctionDef) and it.name == "_parse_delay":
                    pd = it
    if pd is None:
        gaps.append("NeuroMLXMLParser._parse_delay not found")
    else:
        try:
            parts.append(fun_def("XmlParser", "NeuroMLXMLParser", "_parse_delay", pd, {}))
            nfun += 1
        except Gap as g:
            gaps.append("NeuroMLXMLParser._parse_delay: %s" % g)
    parts.append("end NmlVerif.Acc.Gen\n")
    return "\n".join(parts), gaps, {"functions_translated": nfun}


GEN_PATH = os.path.join(fw.LEAN, "NmlVerif", "Gen", "Accessors.lean")


def regenerate(ctx):
    t0 = time.time()
    text, gaps, stats = generate(fw.REPO)
    old = open(GEN_PATH).read() if os.path.exists(GEN_PATH) else None
    if old != text:
        os.makedirs(os.path.dirname(GEN_PATH), exist_ok=True)
        tmp = GEN_PATH + ".tmp%d" % os.getpid()
        with open(tmp, "w") as fh:
            fh.write(text)
        os.replace(tmp, GEN_PATH)
    stats.update({"gaps": list(gaps), "changed_on_disk": old is not None and old != text,
                  "seconds": round(time.time() - t0, 1), "source": fw.REPO})
    ctx.extra["translator"] = stats
    return gaps


# ------------------------------------------------------------------------------------------------
# generators
# ------------------------------------------------------------------------------------------------
RULE = ("accessor stream: every connection/input class x every accessor it has, reference paths of the forms "
        "../pop/n/comp, ../pop/n, pop[n], ../pop[n] with NmlId-pattern ids (digits, underscores, 1-80 chars, ids made of "
        "the letters m/s/e) and indices 0..10^18 (canonical and leading-zero spellings), segment/fraction/weight unset / "
        "zero / non-zero (dyadic decimals), keyword, string-typed and assigned-after-construction values; delay stream: "
        "every spelling class of Nml2Quantity_time (sign x integer part x fraction x exponent x whitespace x unit, "
        "degenerate number parts) checked against the regex shipped in nml.py, plus a malformed stream; documents: 0-3 "
        "networks with random populations (size-only / instance lists / both), projections of the three kinds with all "
        "eight connection lists, input lists, explicit inputs and synaptic connections, totals counted harness-side and "
        "parsed back from summary() text, a share re-read from written XML; has_segment_fraction_info on random lists. "
        "non-trivial = path with index >= 10 or id with digit/underscore, or a stored (not unset) field, or a delay with "
        "fraction/exponent/whitespace, or a network with >= 2 populations and >= 1 non-empty projection; distinct = "
        "distinct canonical case descriptions")
TRUST = [
    "py2lean-style translator in harness/props/c19.py (AST shapes -> prelude combinators; method resolution; constructor defaults; tot_* += table) is validated by the correspondence streams, not verified",
    "Python builtins str.split/strip/in/endswith/slices/int() are modelled by the prelude of Model/Accessors.lean for ASCII digits (non-ASCII digits accepted by int() are outside the modelled alphabet); float() / float arithmetic is an abstract parameter (FloatSem) in every theorem and exact rationals in the driver",
    "has_segment_fraction_info, summary() text layout, sorted(), inspect.getmembers: hand model + correspondence only",
]
ASSUMPTIONS = [
    "delays: theorems give float(<number part>) and float(<number part>)*1000.0; that Python's float() reads a decimal spelling as its value is sampled (oracle: within 2^-52 relative of the exact decimal value, exact for dyadic values)",
    "connection classes: 'unset' = constructor argument not passed (the constructor stores the schema default); an explicit None on a connection raises TypeError in the accessor (modelled, outside the statement)",
    "ElectricalConnection / ContinuousConnection (non-instance) hold plain indices, not reference paths: covered by the model and correspondence, not by the cell-index theorems",
]

LETTERS = "abcdefghijklmnopqrstuvwxyzABCDEFGHIJKLMNOPQRSTUVWXYZ"
IDCH = LETTERS + "0123456789_"


def gen_id(rng):
    r = rng.random()
    if r < 0.08:
        return rng.choice(["s", "ms", "e", "E", "m", "e5", "_", "__", "_9", "s1", "inf", "nan", "None", "x_0_1"])
    if r < 0.16:
        n = rng.randint(30, 80)
    elif r < 0.4:
        n = rng.randint(1, 3)
    else:
        n = rng.randint(3, 14)
    s = rng.choice(LETTERS + "_")
    alphabet = rng.choice([IDCH, "0123456789_", "ems_01", IDCH])
    return s + "".join(rng.choice(alphabet) for _ in range(n - 1))


def gen_index(rng):
    r = rng.random()
    if r < 0.15:
        return rng.choice([0, 1, 9, 10, 99, 100, 10 ** 9, 10 ** 9 - 1, 2 ** 31, 2 ** 53 + 1, 10 ** 18])
    if r < 0.5:
        return rng.randint(0, 50)
    if r < 0.8:
        return rng.randint(0, 10 ** 9)
    return 10 ** rng.randint(1, 9) + rng.randint(0, 9)


def gen_digits(rng, n):
    """a spelling of n matching [0-9]+ : canonical, or with leading zeros"""
    s = str(n)
    if rng.random() < 0.12:
        s = "0" * rng.randint(1, 3) + s
    return s


FORMS = ["slash", "slash", "slash_nocomp", "bracket", "bracket", "dots_bracket"]


def gen_path(rng, form=None):
    form = form or rng.choice(FORMS)
    pop, comp, n = gen_id(rng), gen_id(rng), gen_index(rng)
    ds = gen_digits(rng, n)
    if form == "slash":
        s = "../%s/%s/%s" % (pop, ds, comp)
    elif form == "slash_nocomp":
        s = "../%s/%s" % (pop, ds)
    elif form == "bracket":
        s = "%s[%s]" % (pop, ds)
    else:
        s = "../%s[%s]" % (pop, ds)
    return {"s": s, "form": form, "pop": pop, "comp": comp, "n": n, "digits": ds}


def gen_bad_ref(rng):
    """references outside the two forms (model vs code only)"""
    pop, comp, n = gen_id(rng), gen_id(rng), gen_index(rng)
    return rng.choice([
        "%s/%d/%s" % (pop, n, comp), "%s/%d" % (pop, n), "", pop, "%s[]" % pop, "%s[%d" % (pop, n), "%s[ %d ]" % (pop, n),
        "../%s/ %d /%s" % (pop, n, comp), "%s[1_0]" % pop, "%s[+%d]" % (pop, n), "%s[-%d]" % (pop, n), "../%s/%s/%d" % (pop, comp, n),
        "%s[%d][7]" % (pop, n), "%s[%s]" % (pop, comp), "../../%s/%d/%s" % (pop, n, comp), "%s[%d]/%d/x" % (pop, n, n + 1),
        "../%s/%d.0/%s" % (pop, n, comp), "%s[1e3]" % pop, "%s[\t%d\n]" % (pop, n), "/%s/%d" % (pop, n), "%s[__1]" % pop,
        "%s[%d_]" % (pop, n), None, 5, "../%s//%d" % (pop, n)])


def dyadic(rng, lo_exp=1, hi_exp=10, maxnum=None):
    """(decimal string, Fraction) of k / 2^j, exactly representable"""
    j = rng.randint(lo_exp, hi_exp)
    k = rng.randint(1, (2 ** j) if maxnum is None else maxnum * 2 ** j)
    fr = Fraction(k, 2 ** j)
    return frac_to_decimal(fr), fr


def frac_to_decimal(fr):
    """exact decimal expansion of a dyadic rational"""
    sign = "-" if fr < 0 else ""
    fr = abs(fr)
    ip = fr.numerator // fr.denominator
    rem = fr - ip
    digs = ""
    while rem:
        rem *= 10
        d = rem.numerator // rem.denominator
        digs += str(d)
        rem -= d
    return sign + str(ip) + ("." + digs if digs else ".0")


def gen_fraction(rng):
    """-> (encoded value or ABSENT, expected Fraction, tag)"""
    r = rng.random()
    if r < 0.25:
        return ABSENT, Fraction(1, 2), "unset"
    if r < 0.45:
        return {"f": "0.0"}, Fraction(0), "zero"
    if r < 0.55:
        return {"f": "1.0"}, Fraction(1), "one"
    if r < 0.6:
        return {"f": "0.5"}, Fraction(1, 2), "half"
    ds, fr = dyadic(rng)
    return {"f": ds}, fr, "nonzero"


def gen_segment(rng):
    r = rng.random()
    if r < 0.3:
        return ABSENT, 0, "unset"
    if r < 0.5:
        return 0, 0, "zero"
    n = rng.choice([1, 2, 7, 10, 255, rng.randint(1, 10 ** 6)])
    return n, n, "nonzero"


def gen_weight(rng):
    r = rng.random()
    if r < 0.25:
        return ABSENT, Fraction(1), "unset"
    if r < 0.45:
        return {"f": "0.0"}, Fraction(0), "zero"
    if r < 0.5:
        return {"f": "1.0"}, Fraction(1), "one"
    ds, fr = dyadic(rng, 0, 8, maxnum=1000)
    if rng.random() < 0.3:
        ds, fr = "-" + ds, -fr
    return {"f": ds}, fr, "nonzero"


ABSENT = "__absent__"

TIME_RE_FALLBACK = r"^(-?([0-9]*(\.[0-9]+)?)([eE]-?[0-9]+)?[\s]*(s|ms))$"


def gen_time_spelling(rng):
    """one spelling of the Nml2Quantity_time pattern, by class"""
    sign = rng.choice(["", "", "-"])
    ip = rng.choice(["", "0", "5", "12", "007", str(rng.randint(0, 10 ** 6)), str(rng.randint(0, 999))])
    fp = rng.choice(["", "", ".5", ".25", ".0", ".125", "." + str(rng.randint(0, 99999)), ".001"])
    ex = rng.choice(["", "", "", "e3", "E2", "e-3", "E-1", "e0", "e-06", "E12", "e" + str(rng.randint(0, 20)), "e-" + str(rng.randint(0, 20))])
    ws = rng.choice(["", "", " ", "  ", "\t", " \t ", "\n", "\r\n"])
    unit = rng.choice(["s", "ms"])
    num = sign + ip + fp + ex
    cls = "%s|%s|%s|%s|%s|%s" % ("neg" if sign else "pos", "noint" if not ip else ("lead0" if len(ip) > 1 and ip[0] == "0" else "int"),
                                 "frac" if fp else "nofrac", ("E" if ex[:1] == "E" else "e") + ("-" if "-" in ex else "+") if ex else "noexp",
                                 "ws" if ws else "nows", unit)
    return {"s": num + ws + unit, "num": num, "ws": ws, "unit": unit, "cls": cls}


def exact_time_value(num):
    """exact value of the number part, or None when it is not a number (degenerate spellings)"""
    m = re.fullmatch(r"(-?)([0-9]*)(?:\.([0-9]+))?(?:[eE](-?[0-9]+))?", num)
    if not m:
        return None
    sign, ip, fp, ex = m.groups()
    if not ip and not fp:
        return None
    v = Fraction(int(ip or "0")) + (Fraction(int(fp), 10 ** len(fp)) if fp else 0)
    if ex:
        v *= Fraction(10) ** int(ex)
    return -v if sign else v


def gen_bad_delay(rng):
    v = rng.choice(["5", "", "s", "ms", "5 m s", "5mss", "5sms", "1 s 2 ms", None, "5 S", "5msec", "5 sec", "ms5", "s5", "5.ms", "5.s",
                    "+5ms", "+5s", " 5ms", " 5 s ", "5ms ", "5s\n", "1_0ms", "1_0 s", "0x10ms", "5e+3ms", "5e+3 s", "--5ms", "5..0s",
                    "1e", "1e ms", "five ms", "5\xa0ms", "5 s", ".ms", ".s", "-ms", "-s", "e5s", "e5ms", "5min", "5us", "5m", 5, {"f": "2.5"}])
    return v


CONN_OLD = ["Connection", "ConnectionWD"]
CONN_NEW_IDX = ["ElectricalConnection", "ContinuousConnection"]
CONN_NEW_PATH = ["ElectricalConnectionInstance", "ElectricalConnectionInstanceW", "ContinuousConnectionInstance",
                 "ContinuousConnectionInstanceW"]
INPUTS = ["Input", "InputW"]
ACC_CLASSES = CONN_OLD + CONN_NEW_IDX + CONN_NEW_PATH + INPUTS + ["ExplicitInput"]
METHODS = {
    "Connection": ["get_pre_cell_id", "get_post_cell_id", "get_pre_segment_id", "get_post_segment_id", "get_pre_fraction_along", "get_post_fraction_along"],
    "Input": ["get_target_cell_id", "get_segment_id", "get_fraction_along"],
    "ExplicitInput": ["get_target_cell_id", "get_segment_id", "get_fraction_along"],
    "Population": ["get_size"],
}
METHODS["ConnectionWD"] = METHODS["Connection"] + ["get_delay_in_ms"]
for _c in CONN_NEW_IDX + CONN_NEW_PATH:
    METHODS[_c] = list(METHODS["Connection"]) + (["get_weight"] if _c.endswith("W") else [])
METHODS["InputW"] = METHODS["Input"] + ["get_weight"]
WITH_WEIGHT = ["ConnectionWD", "ElectricalConnectionInstanceW", "ContinuousConnectionInstanceW", "InputW"]


def gen_acc_case(rng, cls=None):
    cls = cls or rng.choice(ACC_CLASSES)
    given, sets, expect, tags = {}, {}, {}, []
    nontrivial = False

    def put_ref(field, method, index_form=False):
        nonlocal nontrivial
        if index_form:
            n = gen_index(rng) % (10 ** 15)
            given[field] = gen_digits(rng, n)
            tags.append("ref:index")
            return
        if rng.random() < 0.1:
            b = gen_bad_ref(rng)
            if b is None and rng.random() < 0.5:
                return                                   # argument not passed: attribute is None
            given[field] = b
            tags.append("ref:malformed")
            return
        p = gen_path(rng)
        given[field] = p["s"]
        expect[method] = {"kind": "int", "v": p["n"], "why": "cell index of a %s reference" % p["form"], "in": "path-" + p["form"]}
        tags.append("ref:" + p["form"])
        if p["n"] >= 10 or any(ch in "0123456789_" for ch in p["pop"]):
            nontrivial = True

    def put(field, method, gen, kind, dflt_kind):
        """kind: int | frac"""
        nonlocal nontrivial
        enc, exp, tag = gen(rng)
        how = rng.random()
        if enc is ABSENT:
            if cls in INPUTS and how < 0.3:
                given[field] = None                       # explicit None on an input = unset
            elif cls not in INPUTS and field != "weight" and how < 0.08:
                given[field] = None                       # explicit None on a connection: TypeError (modelled, not judged)
                tags.append("explicit-none")
                return
        else:
            nontrivial = True
            if how < 0.12 and kind == "int":
                given[field] = str(enc)                   # string-typed keyword argument (cast by the constructor)
            elif how < 0.12 and kind == "frac":
                given[field] = enc["f"]
            elif how < 0.2:
                sets[field] = enc                         # assigned after construction
            else:
                given[field] = enc
        expect[method] = {"kind": kind, "v": (exp if kind == "int" else [exp.numerator, exp.denominator]),
                          "why": "%s %s" % (tag, field), "in": tag}
        tags.append("%s:%s" % (field, tag))

    if cls in CONN_OLD:
        put_ref("pre_cell_id", "get_pre_cell_id")
        put_ref("post_cell_id", "get_post_cell_id")
        put("pre_segment_id", "get_pre_segment_id", gen_segment, "int", 0)
        put("post_segment_id", "get_post_segment_id", gen_segment, "int", 0)
        put("pre_fraction_along", "get_pre_fraction_along", gen_fraction, "frac", 0)
        put("post_fraction_along", "get_post_fraction_along", gen_fraction, "frac", 0)
    elif cls in CONN_NEW_IDX or cls in CONN_NEW_PATH:
        put_ref("pre_cell", "get_pre_cell_id", cls in CONN_NEW_IDX)
        put_ref("post_cell", "get_post_cell_id", cls in CONN_NEW_IDX)
        put("pre_segment", "get_pre_segment_id", gen_segment, "int", 0)
        put("post_segment", "get_post_segment_id", gen_segment, "int", 0)
        put("pre_fraction_along", "get_pre_fraction_along", gen_fraction, "frac", 0)
        put("post_fraction_along", "get_post_fraction_along", gen_fraction, "frac", 0)
    elif cls in INPUTS:
        put_ref("target", "get_target_cell_id")
        put("segment_id", "get_segment_id", gen_segment, "int", 0)
        put("fraction_along", "get_fraction_along", gen_fraction, "frac", 0)
    else:
        put_ref("target", "get_target_cell_id")
        expect["get_segment_id"] = {"kind": "int", "v": 0, "why": "an explicit input has no segment id", "in": "unset"}
        expect["get_fraction_along"] = {"kind": "frac", "v": [1, 2], "why": "an explicit input has no fraction", "in": "unset"}
    if cls in WITH_WEIGHT and cls != "ConnectionWD":
        put("weight", "get_weight", gen_weight, "frac", 1)
    if cls == "ConnectionWD":
        enc, exp, tag = gen_weight(rng)
        if enc is not ABSENT:
            given["weight"] = enc
        if rng.random() < 0.12:
            given["delay"] = gen_bad_delay(rng)
            tags.append("delay:malformed")
        else:
            t = gen_time_spelling(rng)
            given["delay"] = t["s"]
            expect["get_delay_in_ms"] = {"kind": "delay", "num": t["num"], "unit": t["unit"], "in": "time-" + t["unit"],
                                         "why": "delay spelling class " + t["cls"]}
            tags.append("delay:" + t["cls"])
            if t["ws"] or "." in t["num"] or "e" in t["num"].lower():
                nontrivial = True
    return {"kind": "acc", "cls": cls, "given": given, "set": sets, "expect": expect, "tags": tags, "nontrivial": nontrivial}


def gen_size_case(rng):
    inst = rng.choice([0, 0, 1, 2, 3, 5, 17])
    size = rng.choice([None, None, 0, 1, inst, inst + 2, rng.randint(0, 10 ** 6)])
    exp = inst if inst > 0 else (size or 0)
    return {"kind": "acc", "cls": "Population", "given": ({} if size is None and rng.random() < 0.5 else {"size": size}),
            "set": {"instances": {"objs": inst}},
            "expect": {"get_size": {"kind": "int", "v": exp, "why": "instances=%d size=%r" % (inst, size),
                                    "in": "instances" if inst else ("size" if size else "empty")}},
            "tags": ["size:inst%d" % min(inst, 2)], "nontrivial": inst > 0 or bool(size)}


def gen_cellid_case(rng):
    cls = rng.choice(ACC_CLASSES + ["SynapticConnection"])
    if cls in CONN_NEW_IDX:
        n = gen_index(rng) % (10 ** 15)
        return {"kind": "cellid", "cls": cls, "arg": rng.choice([gen_digits(rng, n), "%d.0" % n, "%d.75" % n, " %d " % n, gen_path(rng)["s"], ""]),
                "expect": None, "tags": ["cellid:index"], "nontrivial": n >= 10}
    if rng.random() < 0.25:
        return {"kind": "cellid", "cls": cls, "arg": gen_bad_ref(rng), "expect": None, "tags": ["cellid:malformed"], "nontrivial": False}
    p = gen_path(rng)
    return {"kind": "cellid", "cls": cls, "arg": p["s"], "path": p,
            "expect": {"kind": "int", "v": p["n"], "why": "cell index of a %s reference" % p["form"], "in": "path-" + p["form"]},
            "tags": ["cellid:" + p["form"]], "nontrivial": p["n"] >= 10 or any(ch in "0123456789_" for ch in p["pop"])}


def gen_delay_case(rng):
    if rng.random() < 0.2:
        return {"kind": "parse_delay", "arg": gen_bad_delay(rng), "expect": None, "tags": ["parse_delay:malformed"], "nontrivial": False}
    t = gen_time_spelling(rng)
    return {"kind": "parse_delay", "arg": t["s"], "spelling": t,
            "expect": {"kind": "delay", "num": t["num"], "unit": t["unit"], "in": "time-" + t["unit"], "why": "delay spelling class " + t["cls"]},
            "tags": ["parse_delay:" + t["cls"]], "nontrivial": bool(t["ws"]) or "." in t["num"] or "e" in t["num"].lower()}


def gen_regex_case(rng):
    """strings around the Nml2Quantity_time pattern: real regex (as generateDS applies it) vs the Lean recogniser"""
    r = rng.random()
    if r < 0.45:
        t = gen_time_spelling(rng)["s"]
        if rng.random() < 0.4:                                 # one edit
            i = rng.randint(0, len(t))
            t = t[:i] + rng.choice(["", "-", ".", "e", "E", "0", " ", "s", "m", "+", "\t"]) + t[i + (rng.random() < 0.5):]
    elif r < 0.9:
        t = "".join(rng.choice("--..eE0123456789  \t\nsmsm") for _ in range(rng.randint(0, 9)))
    else:
        t = str(gen_bad_delay(rng))
    return {"kind": "match_time", "s": t, "tags": ["regex"], "nontrivial": len(t) >= 3}


def gen_hsfi_case(rng):
    k = rng.choice([0, 1, 1, 2, 3, 5])
    conns, any_info = [], False
    kind = "old" if rng.random() < 0.85 else "new"
    for _ in range(k):
        c = {}
        info = False
        for f in ("pre_segment_id", "post_segment_id"):
            if rng.random() < 0.15:
                c[f] = rng.choice([1, 2, 30])
                info = True
        for f in ("pre_fraction_along", "post_fraction_along"):
            r = rng.random()
            if r < 0.12:
                c[f] = {"f": rng.choice(["0.0", "1.0", "0.25", "0.75"])}
                info = True
            elif r < 0.2:
                c[f] = {"f": "0.5"}
        conns.append(c)
        any_info = any_info or info
    return {"kind": "hsfi", "family": kind, "conns": conns,
            "expect": ({"kind": "bool", "v": any_info} if kind == "old" else None),
            "tags": ["hsfi:%s:%d" % (kind, min(k, 2))], "nontrivial": k >= 2 and any_info}


def gen_doc_case(rng, big=False):
    nets = []
    for _ in range(rng.choice([0, 1, 1, 1, 2, 3])):
        used = set()

        def fresh():
            for _ in range(50):
                i = gen_id(rng)
                if i not in used and len(i) < 40:
                    used.add(i)
                    return i
            i = "id_%d" % len(used)
            used.add(i)
            return i
        pops = []
        for _ in range(rng.choice([0, 1, 2, 3, 4] + ([8] if big else []))):
            inst = rng.choice([0, 0, 1, 2, 4])
            size = rng.choice([None, 0, 1, 5, inst, inst + 3, rng.randint(0, 5000)])
            pops.append({"id": fresh(), "instances": inst, "size": size})
        hi = 6 if big else 3

        def cnt():
            return rng.choice([0, 0, 1, 2, rng.randint(0, hi)])
        net = {"id": fresh(), "temperature": rng.choice([None, None, "32degC"]), "populations": pops,
               "projections": [{"id": fresh(), "connections": cnt(), "connection_wds": cnt()} for _ in range(rng.choice([0, 1, 2, 3]))],
               "electrical_projections": [{"id": fresh(), "electrical_connections": cnt(), "electrical_connection_instances": cnt(),
                                           "electrical_connection_instance_ws": cnt()} for _ in range(rng.choice([0, 0, 1, 2]))],
               "continuous_projections": [{"id": fresh(), "continuous_connections": cnt(), "continuous_connection_instances": cnt(),
                                           "continuous_connection_instance_ws": cnt()} for _ in range(rng.choice([0, 0, 1, 2]))],
               "input_lists": [{"id": fresh(), "input": cnt(), "input_ws": cnt()} for _ in range(rng.choice([0, 1, 2, 3]))],
               "explicit_inputs": rng.choice([0, 0, 1, 3]), "synaptic_connections": rng.choice([0, 0, 1, 2])}
        nets.append(net)
    return {"kind": "doc", "nets": nets, "extras": rng.choice([0, 1, 2]), "seed": rng.randint(0, 10 ** 9),
            "roundtrip": rng.random() < 0.25, "tags": ["doc:nets%d" % len(nets)],
            "nontrivial": any(len(n["populations"]) >= 2 and any(p["connections"] + p["connection_wds"] > 0 for p in n["projections"])
                              for n in nets)}


# ------------------------------------------------------------------------------------------------
# real library
# ------------------------------------------------------------------------------------------------
def decode(v):
    """driver-format value -> Python value for the real code"""
    if isinstance(v, dict) and "f" in v:
        return float(v["f"])
    if isinstance(v, dict) and "objs" in v:
        import neuroml as n
        return [n.Instance(id=i, location=n.Location(x=float(i), y=0.0, z=2.5)) for i in range(v["objs"])]
    return v


def canon_value(v):
    if v is None or isinstance(v, (bool, str)):
        return v
    if isinstance(v, int):
        return {"i": str(v)}
    if isinstance(v, float):
        if math.isfinite(v):
            fr = Fraction(v)
            return {"q": [str(fr.numerator), str(fr.denominator)]}
        return {"float": repr(v)}
    return {"other": type(v).__name__}


def call_real(fn):
    try:
        v = fn()
    except SystemExit:
        return {"err": "SystemExit"}
    except (ValueError, TypeError, IndexError, AttributeError) as e:
        return {"err": type(e).__name__}
    except Exception as e:  # noqa
        return {"err": "Other:" + type(e).__name__}
    return {"ok": canon_value(v)}


EXTRA_KW = {
    "Connection": {"id": 0}, "ConnectionWD": {"id": 0},
    "ElectricalConnection": {"id": 0, "synapse": "gj"}, "ElectricalConnectionInstance": {"id": 0, "synapse": "gj"},
    "ElectricalConnectionInstanceW": {"id": 0, "synapse": "gj"},
    "ContinuousConnection": {"id": 0, "pre_component": "sa", "post_component": "sb"},
    "ContinuousConnectionInstance": {"id": 0, "pre_component": "sa", "post_component": "sb"},
    "ContinuousConnectionInstanceW": {"id": 0, "pre_component": "sa", "post_component": "sb"},
    "Input": {"id": 0, "destination": "synapses"}, "InputW": {"id": 0, "destination": "synapses"},
    "ExplicitInput": {"input": "pg"}, "SynapticConnection": {"synapse": "syn"},
    "Population": {"id": "pop", "component": "cell"},
}


def build_real(cls, given, sets):
    import neuroml
    kw = dict(EXTRA_KW[cls])
    kw.update({k: decode(v) for k, v in given.items()})
    obj = getattr(neuroml, cls)(**kw)
    for k, v in sets.items():
        setattr(obj, k, decode(v))
    return obj


def real_acc(case):
    out = {}
    try:
        obj = build_real(case["cls"], case["given"], case["set"])
    except (ValueError, TypeError) as e:
        return {m: {"err": "ctor:" + type(e).__name__} for m in METHODS[case["cls"]]}
    for m in METHODS[case["cls"]]:
        out[m] = call_real(getattr(obj, m))
    return out


def real_cellid(case):
    obj = build_real(case["cls"], {}, {})
    return call_real(lambda: obj._get_cell_id(case["arg"]))


def real_parse_delay(case):
    from neuroml.hdf5.NeuroMLXMLParser import NeuroMLXMLParser
    return call_real(lambda: NeuroMLXMLParser._parse_delay(None, case["arg"]))


def real_hsfi(case):
    import neuroml.utils as u
    cls = "Connection" if case["family"] == "old" else "ElectricalConnection"
    try:
        conns = [build_real(cls, g, {}) for g in case["conns"]]
    except (ValueError, TypeError) as e:
        return {"err": "ctor:" + type(e).__name__}
    return call_real(lambda: u.has_segment_fraction_info(conns))


TOTAL_RES = [re.compile(r"^\*   (\d+) cells in (\d+) populations $"),
             re.compile(r"^\*   (\d+) connections in (\d+) projections $"),
             re.compile(r"^\*   (\d+) inputs in (\d+) input lists $")]


def build_doc(case):
    import random
    import neuroml as n
    r = random.Random(case["seed"])
    doc = n.NeuroMLDocument(id="doc_%d" % (case["seed"] % 1000))
    for k in range(case["extras"]):
        doc.izhikevich_cells.append(n.IzhikevichCell(id="iz%d" % k, v0="-70mV", thresh="30mV", a="0.02", b="0.2", c="-65", d="6"))
        doc.pulse_generators.append(n.PulseGenerator(id="pg%d" % k, delay="0ms", duration="1ms", amplitude="1nA"))

    def ref(pops):
        p = gen_path(r)
        return p["s"]

    def frac():
        return r.choice([0.5, 0.5, 0.0, 0.25, 1.0])
    for spec in case["nets"]:
        net = n.Network(id=spec["id"], temperature=spec["temperature"])
        doc.networks.append(net)
        for p in spec["populations"]:
            pop = n.Population(id=p["id"], component="iz0", size=p["size"], type="populationList" if p["instances"] else None)
            for i in range(p["instances"]):
                pop.instances.append(n.Instance(id=i, location=n.Location(x=float(i), y=r.choice([0.0, 1.5]), z=2.5)))
            if r.random() < 0.2:
                pop.properties.append(n.Property(tag="color", value="1 0 0"))
            net.populations.append(pop)
        for p in spec["projections"]:
            pr = n.Projection(id=p["id"], presynaptic_population="pa", postsynaptic_population="pb", synapse="syn")
            for i in range(p["connections"]):
                pr.connections.append(n.Connection(id=i, pre_cell_id=ref(0), post_cell_id=ref(0), pre_segment_id=r.choice([0, 3]),
                                                   post_fraction_along=frac()))
            for i in range(p["connection_wds"]):
                pr.connection_wds.append(n.ConnectionWD(id=i, pre_cell_id=ref(0), post_cell_id=ref(0), weight=r.choice([0.0, 0.5, 2.0]),
                                                        delay=r.choice(["5ms", "0.5 s", "1e-3s", "1.5E2 ms"])))
            net.projections.append(pr)
        for p in spec["electrical_projections"]:
            ep = n.ElectricalProjection(id=p["id"], presynaptic_population="pa", postsynaptic_population="pb")
            for i in range(p["electrical_connections"]):
                ep.electrical_connections.append(n.ElectricalConnection(id=i, pre_cell=str(r.randint(0, 99)), post_cell=str(r.randint(0, 99)), synapse="gj"))
            for i in range(p["electrical_connection_instances"]):
                ep.electrical_connection_instances.append(n.ElectricalConnectionInstance(id=i, pre_cell=ref(0), post_cell=ref(0), synapse="gj"))
            for i in range(p["electrical_connection_instance_ws"]):
                ep.electrical_connection_instance_ws.append(n.ElectricalConnectionInstanceW(id=i, pre_cell=ref(0), post_cell=ref(0), synapse="gj",
                                                                                            weight=r.choice([0.0, 0.25, 1.0])))
            net.electrical_projections.append(ep)
        for p in spec["continuous_projections"]:
            cp = n.ContinuousProjection(id=p["id"], presynaptic_population="pa", postsynaptic_population="pb")
            for i in range(p["continuous_connections"]):
                cp.continuous_connections.append(n.ContinuousConnection(id=i, pre_cell=str(r.randint(0, 99)), post_cell=str(r.randint(0, 99)),
                                                                        pre_component="sa", post_component="sb"))
            for i in range(p["continuous_connection_instances"]):
                cp.continuous_connection_instances.append(n.ContinuousConnectionInstance(id=i, pre_cell=ref(0), post_cell=ref(0),
                                                                                         pre_component="sa", post_component="sb"))
            for i in range(p["continuous_connection_instance_ws"]):
                cp.continuous_connection_instance_ws.append(n.ContinuousConnectionInstanceW(id=i, pre_cell=ref(0), post_cell=ref(0),
                                                                                            pre_component="sa", post_component="sb",
                                                                                            weight=r.choice([0.0, 0.5, 4.0])))
            net.continuous_projections.append(cp)
        for l in spec["input_lists"]:
            il = n.InputList(id=l["id"], populations="pa", component="pg0")
            for i in range(l["input"]):
                il.input.append(n.Input(id=i, target=ref(0), destination="synapses", segment_id=r.choice([None, 0, 2]),
                                        fraction_along=r.choice([None, 0.0, 0.25])))
            for i in range(l["input_ws"]):
                il.input_ws.append(n.InputW(id=i, target=ref(0), destination="synapses", weight=r.choice([0.0, 1.0, 0.5])))
            net.input_lists.append(il)
        for i in range(spec["explicit_inputs"]):
            net.explicit_inputs.append(n.ExplicitInput(target=ref(0), input="pg0"))
        for i in range(spec["synaptic_connections"]):
            net.synaptic_connections.append(n.SynapticConnection(from_=ref(0), to=ref(0), synapse="syn"))
    return doc


def parse_summary(text):
    """-> list (one per network, in text order) of {"lines": [three total lines], "totals": [cells, pops, conns, projs, inputs, lists]}"""
    nets, cur = [], None
    for line in text.split("\n"):
        for k, rx in enumerate(TOTAL_RES):
            m = rx.match(line)
            if m:
                if k == 0:
                    cur = {"lines": [], "totals": []}
                    nets.append(cur)
                if cur is None or len(cur["lines"]) != k:
                    return None
                cur["lines"].append(line)
                cur["totals"] += [int(m.group(1)), int(m.group(2))]
    if any(len(n["lines"]) != 3 for n in nets):
        return None
    return nets


def real_doc(case, tmpdir):
    doc = build_doc(case)
    out = {}
    try:
        out["first"] = parse_summary(doc.summary())
    except Exception as e:  # noqa
        out["first"] = {"err": type(e).__name__ + ":" + str(e)[:80]}
    if case.get("roundtrip") and tmpdir:
        import neuroml.loaders as L
        import neuroml.writers as W
        p = os.path.join(tmpdir, "d.nml")
        try:
            W.NeuroMLWriter.write(doc, p)
            d2 = L.read_neuroml2_file(p, include_includes=False)
            out["reread"] = parse_summary(d2.summary())
        except Exception as e:  # noqa
            out["reread"] = {"err": type(e).__name__ + ":" + str(e)[:80]}
    return out


def counted_totals(net):
    """the actual numbers in the document, counted from the generation record"""
    cells = sum(p["instances"] if p["instances"] > 0 else (p["size"] or 0) for p in net["populations"])
    conns = (sum(p["connections"] + p["connection_wds"] for p in net["projections"])
             + sum(p["electrical_connections"] + p["electrical_connection_instances"] + p["electrical_connection_instance_ws"]
                   for p in net["electrical_projections"])
             + sum(p["continuous_connections"] + p["continuous_connection_instances"] + p["continuous_connection_instance_ws"]
                   for p in net["continuous_projections"]))
    projs = len(net["projections"]) + len(net["electrical_projections"]) + len(net["continuous_projections"])
    inputs = sum(l["input"] + l["input_ws"] for l in net["input_lists"])
    return [cells, len(net["populations"]), conns, projs, inputs, len(net["input_lists"])]


TOTAL_NAMES = ["cells", "populations", "connections", "projections", "inputs", "input-lists"]


# ------------------------------------------------------------------------------------------------
# model lines
# ------------------------------------------------------------------------------------------------
def model_lines(case):
    k = case["kind"]
    if k == "acc":
        return [json.dumps({"op": "acc", "cls": case["cls"], "m": m, "given": case["given"], "set": case["set"]})
                for m in METHODS[case["cls"]]]
    if k == "cellid":
        return [json.dumps({"op": "cellid", "cls": case["cls"], "arg": case["arg"]})]
    if k == "parse_delay":
        return [json.dumps({"op": "parse_delay", "arg": case["arg"]})]
    if k == "hsfi":
        return [json.dumps({"op": "hsfi", "cls": "Connection" if case["family"] == "old" else "ElectricalConnection",
                            "conns": case["conns"]})]
    if k == "doc":
        nets = []
        for net in case["nets"]:
            j = {"populations": [{"sub": {}, "instances": p["instances"], "size": p["size"]} for p in net["populations"]]}
            for L in ("projections", "electrical_projections", "continuous_projections", "input_lists"):
                j[L] = [{"sub": {a: v for a, v in it.items() if a != "id"}} for it in net[L]]
            nets.append(j)
        return [json.dumps({"op": "summary", "nets": nets})]
    if k == "spec":
        return [json.dumps(dict(case["args"], op="spec"))]
    if k == "match_time":
        return [json.dumps({"op": "match_time", "s": case["s"]})]
    raise ValueError(k)


# ------------------------------------------------------------------------------------------------
# comparison and oracle
# ------------------------------------------------------------------------------------------------
TOL = Fraction(1, 2 ** 52)


def q_of(res):
    v = res.get("ok") if isinstance(res, dict) else None
    if isinstance(v, dict) and "q" in v:
        return Fraction(int(v["q"][0]), int(v["q"][1]))
    return None


def same(real, model, tolerant):
    if real == model:
        return True
    a, b = q_of(real), q_of(model)
    if a is not None and b is not None:
        if a == b:
            return True
        # float(<decimal>) and float(<decimal>)*1000.0 round; the model computes the exact rational
        return tolerant and abs(a - b) <= TOL * abs(b)
    return False


def judge(e, real):
    """does the real result satisfy the expectation the harness recorded when it generated the input?"""
    if e["kind"] == "int":
        return real == {"ok": {"i": str(e["v"])}}
    if e["kind"] == "bool":
        return real == {"ok": e["v"]}
    if e["kind"] == "frac":
        q = q_of(real)
        return q is not None and q == Fraction(e["v"][0], e["v"][1])
    if e["kind"] == "delay":
        x = exact_time_value(e["num"])
        if x is None:
            return real == {"err": "ValueError"}          # "ms", "-s", "e5s": no number to return
        want = x * (1000 if e["unit"] == "s" else 1)
        q = q_of(real)
        return q is not None and abs(q - want) <= TOL * abs(want)
    return False


def check_case(ctx, case, mout, tmpdir=None):
    k = case["kind"]
    desc = {x: case[x] for x in case if x not in ("tags", "nontrivial", "expect", "path", "spelling")}
    ctx.seen(desc, nontrivial=bool(case.get("nontrivial")))
    for t in case.get("tags", []):
        ctx.count(t.split("|")[0] if t.startswith(("delay:", "parse_delay:")) else t)
    if k == "acc":
        real = real_acc(case)
        ctx.count("class:" + case["cls"])
        for m, ml in zip(METHODS[case["cls"]], mout):
            ctx.corr_evals += 1
            if not same(real[m], ml, tolerant=(m == "get_delay_in_ms")):
                ctx.disagree("accessors", {"case": desc, "method": m}, real[m], ml)
            e = case["expect"].get(m)
            if e is not None and not judge(e, real[m]):
                ctx.fail("C19:%s.%s:%s" % (case["cls"], m, e["in"]),
                         "%s.%s() does not return the referenced value (%s): got %s" % (case["cls"], m, e["why"], json.dumps(real[m])),
                         {"case": case, "method": m, "expected": e, "real": real[m]})
    elif k in ("cellid", "parse_delay", "hsfi"):
        real = {"cellid": real_cellid, "parse_delay": real_parse_delay, "hsfi": real_hsfi}[k](case)
        ctx.corr_evals += 1
        if not same(real, mout[0], tolerant=(k == "parse_delay")):
            ctx.disagree(k, desc, real, mout[0])
        e = case.get("expect")
        if e is not None and not judge(e, real):
            name = {"cellid": "%s._get_cell_id" % case.get("cls"), "parse_delay": "NeuroMLXMLParser._parse_delay",
                    "hsfi": "has_segment_fraction_info"}[k]
            ctx.fail("C19:%s:%s" % (name, e.get("in", "list")),
                     "%s does not return the referenced value (%s): got %s" % (name, e.get("why", ""), json.dumps(real)),
                     {"case": case, "expected": e, "real": real})
    elif k == "doc":
        real = real_doc(case, tmpdir)
        want = [counted_totals(n) for n in case["nets"]]
        model = mout[0].get("nets", [])
        for which in ("first", "reread"):
            if which not in real:
                continue
            r = real[which]
            ctx.corr_evals += 1
            ctx.count("doc:" + which)
            if not isinstance(r, list):
                ctx.disagree("summary", {"case": desc, "which": which}, r, model)
                ctx.fail("C19:summary:unreadable", "summary() raised or its total lines are not the expected three per network",
                         {"case": case, "which": which, "real": r})
                continue
            if [n["lines"] for n in r] != [n.get("lines") for n in model]:
                ctx.disagree("summary", {"case": desc, "which": which}, [n["lines"] for n in r], [n.get("lines") for n in model])
            got = [n["totals"] for n in r]
            if len(got) != len(want):
                ctx.fail("C19:summary:network-count", "summary() does not report one block of totals per network",
                         {"case": case, "which": which, "reported": got, "counted": want})
                continue
            for g, w in zip(got, want):
                for i in range(6):
                    if g[i] != w[i]:
                        ctx.fail("C19:summary:%s%s" % (TOTAL_NAMES[i], ":reread" if which == "reread" else ""),
                                 "summary() reports %d %s, the document has %d" % (g[i], TOTAL_NAMES[i], w[i]),
                                 {"case": case, "which": which, "reported": g, "counted": w})
    elif k == "match_time":
        ctx.corr_evals += 1
        trx, _ = time_regex()
        mo = trx.search(case["s"])
        real = {"match": mo is not None and len(mo.group(0)) == len(case["s"])}      # as gds_validate_simple_patterns does
        ctx.count("regex:match" if real["match"] else "regex:nomatch")
        if real["match"]:
            body = case["s"][:-2] if case["s"].endswith("ms") else case["s"][:-1]
            real["num"] = body.rstrip()
            model = mout[0]
        else:
            model = {"match": mout[0].get("match")}
        if real != model:
            ctx.disagree("time-pattern", case["s"], real, mout[0])
    elif k == "spec":
        ctx.corr_evals += 1
        if mout[0] != case["want"]:
            ctx.disagree("statement-vocabulary", case["args"], case["want"], mout[0])


def spec_case_of(path=None, spelling=None):
    """the strings the harness generates are exactly the ones the theorems quantify over (`CellPath`, `TimeSpelling`)"""
    args = {"pop": "p", "comp": "c", "digits": "0", "num": "", "ws": ""}
    want = None
    if path is not None:
        args.update({"pop": path["pop"], "comp": path["comp"], "digits": path["digits"]})
    if spelling is not None:
        args.update({"num": spelling["num"], "ws": spelling["ws"]})
    pop, comp, ds = args["pop"], args["comp"], args["digits"]
    want = {"pop_ok": True, "comp_ok": True, "digits_ok": True, "value": str(int(ds)),
            "slash": "../%s/%s/%s" % (pop, ds, comp), "slash_nocomp": "../%s/%s" % (pop, ds),
            "bracket": "%s[%s]" % (pop, ds), "dots_bracket": "../%s[%s]" % (pop, ds), "num_ok": True, "ws_ok": True}
    return {"kind": "spec", "args": args, "want": want, "tags": ["spec"], "nontrivial": False}


CORPUS = [
    # fixed defect 1: a stored fraction 0.0 came back as the default 0.5 (truthiness test)
    {"kind": "acc", "cls": "Input", "given": {"target": "../pop/3/comp", "segment_id": 0, "fraction_along": {"f": "0.0"}}, "set": {},
     "expect": {"get_target_cell_id": {"kind": "int", "v": 3, "why": "slash reference", "in": "path-slash"},
                "get_segment_id": {"kind": "int", "v": 0, "why": "zero segment_id", "in": "zero"},
                "get_fraction_along": {"kind": "frac", "v": [0, 1], "why": "zero fraction_along", "in": "zero"}},
     "tags": ["corpus"], "nontrivial": True},
    {"kind": "acc", "cls": "InputW", "given": {"target": "pop[3]", "fraction_along": {"f": "0.0"}, "weight": {"f": "0.0"}}, "set": {},
     "expect": {"get_fraction_along": {"kind": "frac", "v": [0, 1], "why": "zero fraction_along", "in": "zero"},
                "get_weight": {"kind": "frac", "v": [0, 1], "why": "zero weight", "in": "zero"}},
     "tags": ["corpus"], "nontrivial": True},
    # fixed defect 2: ExplicitInput has the segment accessors but not the attributes
    {"kind": "acc", "cls": "ExplicitInput", "given": {"target": "../pop_a/12/c_1"}, "set": {},
     "expect": {"get_target_cell_id": {"kind": "int", "v": 12, "why": "slash reference", "in": "path-slash"},
                "get_segment_id": {"kind": "int", "v": 0, "why": "an explicit input has no segment id", "in": "unset"},
                "get_fraction_along": {"kind": "frac", "v": [1, 2], "why": "an explicit input has no fraction", "in": "unset"}},
     "tags": ["corpus"], "nontrivial": True},
    # ids made of the unit letters, 10^9, leading zeros, both forms, with and without ../
    {"kind": "acc", "cls": "ConnectionWD", "given": {"pre_cell_id": "../ms/1000000000/s", "post_cell_id": "../e5[007]",
                                                      "weight": {"f": "0.0"}, "delay": "-1e-3s"}, "set": {},
     "expect": {"get_pre_cell_id": {"kind": "int", "v": 1000000000, "why": "slash reference", "in": "path-slash"},
                "get_post_cell_id": {"kind": "int", "v": 7, "why": "bracket reference", "in": "path-dots_bracket"},
                "get_pre_segment_id": {"kind": "int", "v": 0, "why": "unset", "in": "unset"},
                "get_post_fraction_along": {"kind": "frac", "v": [1, 2], "why": "unset", "in": "unset"},
                "get_delay_in_ms": {"kind": "delay", "num": "-1e-3", "unit": "s", "in": "time-s", "why": "neg|int|nofrac|e-|nows|s"}},
     "tags": ["corpus"], "nontrivial": True},
    {"kind": "acc", "cls": "ConnectionWD", "given": {"pre_cell_id": "a[0]", "post_cell_id": "../b/1", "delay": "1.5E2 \t ms"}, "set": {},
     "expect": {"get_delay_in_ms": {"kind": "delay", "num": "1.5E2", "unit": "ms", "in": "time-ms", "why": "pos|int|frac|E+|ws|ms"}},
     "tags": ["corpus"], "nontrivial": True},
    # degenerate spelling allowed by the pattern: no number at all
    {"kind": "parse_delay", "arg": "ms", "expect": {"kind": "delay", "num": "", "unit": "ms", "in": "time-ms", "why": "empty number"},
     "tags": ["corpus"], "nontrivial": False},
    {"kind": "cellid", "cls": "SynapticConnection", "arg": "x/5/c", "expect": None, "tags": ["corpus"], "nontrivial": False},
    {"kind": "hsfi", "family": "old", "conns": [{}, {"post_fraction_along": {"f": "0.0"}}], "expect": {"kind": "bool", "v": True},
     "tags": ["corpus"], "nontrivial": True},
    {"kind": "doc", "seed": 7, "extras": 1, "roundtrip": True, "tags": ["corpus"], "nontrivial": True, "nets": [
        {"id": "net_b", "temperature": None, "populations": [{"id": "zz", "instances": 0, "size": 5}, {"id": "aa", "instances": 3, "size": 9},
                                                             {"id": "m0", "instances": 0, "size": None}],
         "projections": [{"id": "p1", "connections": 2, "connection_wds": 1}],
         "electrical_projections": [{"id": "e1", "electrical_connections": 1, "electrical_connection_instances": 2, "electrical_connection_instance_ws": 3}],
         "continuous_projections": [{"id": "c1", "continuous_connections": 1, "continuous_connection_instances": 1, "continuous_connection_instance_ws": 2}],
         "input_lists": [{"id": "il1", "input": 2, "input_ws": 0}, {"id": "il0", "input": 0, "input_ws": 3}],
         "explicit_inputs": 2, "synaptic_connections": 1},
        {"id": "net_a", "temperature": "32degC", "populations": [], "projections": [], "electrical_projections": [],
         "continuous_projections": [], "input_lists": [], "explicit_inputs": 0, "synaptic_connections": 0}]},
]


def run_cases(ctx, cases):
    import shutil
    import tempfile
    lines, spans = [], []
    for c in cases:
        ls = model_lines(c)
        spans.append((len(lines), len(ls)))
        lines += ls
    rc, out = fw.run_driver("C19", lines)
    if rc != 0 or len(out) != len(lines):
        ctx.disagree("driver", "driver failed rc=%s, %d lines for %d" % (rc, len(out), len(lines)), "\n".join(out[-5:]), None)
        return
    mouts = [json.loads(l) for l in out]
    tmp = None
    try:
        for c, (a, n) in zip(cases, spans):
            if c["kind"] == "doc" and c.get("roundtrip") and tmp is None:
                tmp = tempfile.mkdtemp(prefix="verif_c19_")
            check_case(ctx, c, mouts[a:a + n], tmp)
    finally:
        if tmp:
            shutil.rmtree(tmp, ignore_errors=True)


_RX = []


def time_regex():
    if not _RX:
        _RX.append(_time_regex())
    return _RX[0]


def _time_regex():
    try:
        import neuroml.nml.nml as nml
        return re.compile(nml.ConnectionWD.validate_Nml2Quantity_time_patterns_[0][0]), \
            re.compile(nml.Connection.validate_Nml2PopulationReferencePath_patterns_[0][0])
    except Exception:
        return re.compile(TIME_RE_FALLBACK), None


def run(ctx):
    rng = ctx.rng
    mult = ctx.search_mult
    cases = [json.loads(json.dumps(c)) for c in CORPUS]
    n_acc = ctx.n(2500, 60000) * mult
    for i in range(n_acc):
        cases.append(gen_acc_case(rng, ACC_CLASSES[i % len(ACC_CLASSES)] if i < 4 * len(ACC_CLASSES) else None))
    for _ in range(ctx.n(150, 3000) * mult):
        cases.append(gen_size_case(rng))
    for _ in range(ctx.n(1200, 30000) * mult):
        cases.append(gen_cellid_case(rng))
    for _ in range(ctx.n(1200, 30000) * mult):
        cases.append(gen_delay_case(rng))
    for _ in range(ctx.n(400, 8000) * mult):
        cases.append(gen_hsfi_case(rng))
    for _ in range(ctx.n(1500, 40000) * mult):
        cases.append(gen_regex_case(rng))
    for _ in range(ctx.n(400, 6000) * mult):
        cases.append(gen_doc_case(rng, big=(ctx.tier == "thorough")))
    # the generated references / spellings are inside the schema patterns and inside the theorems' vocabulary
    trx, prx = time_regex()
    spec = []
    for c in cases:
        if c["kind"] == "cellid" and c.get("path"):
            if prx is not None and not prx.match(c["arg"]):
                ctx.disagree("generator", c["arg"], "does not match Nml2PopulationReferencePath", None)
            if len(spec) < ctx.n(150, 1500):
                spec.append(spec_case_of(path=c["path"]))
        if c["kind"] == "parse_delay" and c.get("spelling"):
            if not trx.match(c["arg"]):
                ctx.disagree("generator", c["arg"], "does not match Nml2Quantity_time", None)
            if len(spec) < ctx.n(300, 3000):
                spec.append(spec_case_of(spelling=c["spelling"]))
    cases += spec
    for c in cases[len(CORPUS):len(CORPUS) + 4] + [c for c in cases if c["kind"] == "doc"][1:3]:
        ctx.sample({k: v for k, v in c.items() if k in ("kind", "cls", "given", "set", "arg", "conns", "nets")})
    run_cases(ctx, cases)
    ctx.extra["oracle_evaluations"] = sum(len(c.get("expect") or {}) if c["kind"] == "acc" else (1 if c.get("expect") else 0)
                                          for c in cases if c["kind"] != "doc") + 6 * sum(len(c["nets"]) for c in cases if c["kind"] == "doc")


def replay(ctx, payload):
    case = payload.get("case", payload)
    while isinstance(case, dict) and "kind" not in case and "case" in case:
        case = case["case"]
    run_cases(ctx, [case])
    return {"fails": bool(ctx.failures or ctx.corr_disagreements), "failures": ctx.failures,
            "disagreements": ctx.corr_disagreements}
