"""C19 — connection and input accessors and the document summary agree with the data.

Tie (two independent ones):
  * translator: `regenerate(ctx)` re-derives lean/NmlVerif/Gen/Accessors.lean from the Python AST of
    neuroml/nml/helper_methods.py, neuroml/nml/nml.py and neuroml/hdf5/NeuroMLXMLParser.py on every run; the theorems of
    lean/NmlVerif/Props/C19Gen.lean (`generated = hand model`, by `rfl`) break when the Python changes;
  * hand model (lean/NmlVerif/Model/Accessors.lean) + correspondence: the real classes vs lean/Drivers/C19.lean on
    generated objects / strings / documents, and a harness-side oracle evaluating the property on the real code.
"""
import json
import math
import os
import re
import sys
import time
from fractions import Fraction

import fw
from props import c19_doc as DOC

LEAN_PROPS = ["NmlVerif.Props.C19", "NmlVerif.Props.C19Gen", "NmlVerif.Props.C19Rx", "NmlVerif.Props.C19Summ"]
LEVEL = "proof"

# ------------------------------------------------------------------------------------------------
# translator: Python AST of the tiny accessors -> lean/NmlVerif/Gen/Accessors.lean  (regenerate(ctx))
# ------------------------------------------------------------------------------------------------
import ast
import runpy

CLASSES = ["Connection", "ConnectionWD", "ElectricalConnection", "ElectricalConnectionInstance",
           "ElectricalConnectionInstanceW", "ContinuousConnection", "ContinuousConnectionInstance",
           "ContinuousConnectionInstanceW", "Input", "InputW", "ExplicitInput", "SynapticConnection", "Population"]
WHITELIST = ["_get_cell_id", "get_pre_cell_id", "get_post_cell_id", "get_pre_segment_id", "get_post_segment_id",
             "get_pre_fraction_along", "get_post_fraction_along", "get_weight", "get_delay_in_ms",
             "get_target_cell_id", "get_segment_id", "get_fraction_along", "get_size"]
CTOR_FIELDS = ["pre_cell_id", "pre_segment_id", "pre_fraction_along", "post_cell_id", "post_segment_id",
               "post_fraction_along", "pre_cell", "pre_segment", "post_cell", "post_segment", "weight", "delay",
               "target", "segment_id", "fraction_along", "from_", "to", "size"]
FLOAT_LITS = {0.5: "fs.half", 1.0: "fs.one", 1000.0: "fs.thousand"}
TOTALS = {"tot_cells": ".cells", "tot_pop": ".pops", "tot_conns": ".conns", "tot_proj": ".projs",
          "tot_inputs": ".inputs", "tot_input_lists": ".inputLists"}


class Gap(Exception):
    pass


def _load_translator(name):
    import importlib.util
    path = os.path.join(fw.VERIF, "translators", name + ".py")
    spec = importlib.util.spec_from_file_location("c19_tr_" + name, path)
    mod = importlib.util.module_from_spec(spec)
    spec.loader.exec_module(mod)
    return mod


RXT = _load_translator("c19_rx")          # schema patterns -> Rx terms
SUMT = _load_translator("c19_summary")    # body of the network loop of summary() -> Summ program
NORM = SUMT.NORM                          # translators/c19_norm.py: equivalent surface shapes -> one canonical shape


def lean_chars(s):
    def one(c):
        if c == "'":
            return "'\\''"
        if c == "\\":
            return "'\\\\'"
        if c == "\n":
            return "'\\n'"
        if c == "\t":
            return "'\\t'"
        if 32 <= ord(c) < 127:
            return "'%s'" % c
        return "(Char.ofNat %d)" % ord(c)
    return "[" + ", ".join(one(c) for c in s) + "]"


def lean_str(s):
    return '"' + s.replace("\\", "\\\\").replace('"', '\\"').replace("\n", "\\n") + '"'


def src(node):
    try:
        return ast.unparse(node)
    except Exception:
        return type(node).__name__


class FunTr:
    """one method body -> one Lean term over the prelude combinators of Model/Accessors.lean"""

    def __init__(self, prefix, cls, params, resolvable):
        self.prefix, self.cls, self.params, self.resolvable = prefix, cls, params, resolvable
        self.lets = {}        # local name -> Lean term of the expression it was bound to (see `stmts`, Assign)

    def gap(self, node, why):
        raise Gap("%s: `%s`" % (why, src(node)[:90]))

    def expr(self, e):
        E = self.expr
        if isinstance(e, ast.Name):
            if e.id in self.lets:
                return self.lets[e.id]
            if e.id in self.params:
                return e.id
            self.gap(e, "free variable")
        if isinstance(e, ast.Constant):
            v = e.value
            if v is None:
                return "pnone"
            if isinstance(v, bool):
                self.gap(e, "bool literal")
            if isinstance(v, int):
                return "(pint %s)" % (v if v >= 0 else "(%d)" % v)
            if isinstance(v, float):
                if v in FLOAT_LITS:
                    return "(pnum %s)" % FLOAT_LITS[v]
                self.gap(e, "float literal outside {0.5, 1.0, 1000.0}")
            if isinstance(v, str):
                return "(pstr %s)" % lean_chars(v)
            self.gap(e, "literal")
        if isinstance(e, ast.Attribute):
            if isinstance(e.value, ast.Name) and e.value.id == "self":
                return "(attr self %s)" % lean_str(e.attr)
            self.gap(e, "attribute of a non-self value")
        if isinstance(e, ast.IfExp):
            return "(pIfElse fs %s %s %s)" % (self.test(e.test), E(e.body), E(e.orelse))
        if isinstance(e, ast.Subscript):
            s = e.slice
            if isinstance(s, ast.Constant) and isinstance(s.value, int) and not isinstance(s.value, bool) and s.value >= 0:
                return "(pIndex %d %s)" % (s.value, E(e.value))
            if (isinstance(s, ast.Slice) and s.lower is None and s.step is None and isinstance(s.upper, ast.UnaryOp)
                    and isinstance(s.upper.op, ast.USub) and isinstance(s.upper.operand, ast.Constant)
                    and isinstance(s.upper.operand.value, int) and s.upper.operand.value > 0):
                return "(pDropRight %d %s)" % (s.upper.operand.value, E(e.value))
            self.gap(e, "subscript shape")
        if isinstance(e, ast.BinOp):
            if (isinstance(e.op, ast.Mult) and isinstance(e.right, ast.Constant) and isinstance(e.right.value, float)
                    and e.right.value in FLOAT_LITS):
                return "(pMulF fs %s %s)" % (E(e.left), FLOAT_LITS[e.right.value])
            self.gap(e, "binary operation")
        if isinstance(e, ast.Compare):
            return self.test(e)
        if isinstance(e, ast.Call):
            f = e.func
            if e.keywords:
                self.gap(e, "keyword arguments")
            if isinstance(f, ast.Name):
                if f.id in ("int", "float", "len") and len(e.args) == 1:
                    return {"int": "(pInt fs %s)", "float": "(pFloat fs %s)", "len": "(pLen %s)"}[f.id] % E(e.args[0])
                self.gap(e, "call of `%s`" % f.id)
            if isinstance(f, ast.Attribute):
                if isinstance(f.value, ast.Name) and f.value.id == "self":
                    if f.attr not in self.resolvable:
                        self.gap(e, "call of a method outside the whitelist")
                    fn = "%s.%s.%s" % (self.prefix, self.cls, f.attr)
                    if len(e.args) == 0:
                        return "(%s fs self)" % fn
                    if len(e.args) == 1:
                        return "(pCall1 (%s fs self) %s)" % (fn, E(e.args[0]))
                    self.gap(e, "method call with >1 arguments")
                if f.attr == "split" and len(e.args) == 1 and isinstance(e.args[0], ast.Constant) \
                        and isinstance(e.args[0].value, str) and len(e.args[0].value) == 1:
                    return "(pSplit %s %s)" % (lean_chars(e.args[0].value)[1:-1], E(f.value))
                if f.attr == "strip" and not e.args:
                    return "(pStrip %s)" % E(f.value)
                if f.attr == "endswith" and len(e.args) == 1 and isinstance(e.args[0], ast.Constant) \
                        and isinstance(e.args[0].value, str):
                    return "(pEndsWith %s %s)" % (lean_chars(e.args[0].value), E(f.value))
                self.gap(e, "method `%s`" % f.attr)
            self.gap(e, "call shape")
        self.gap(e, "expression " + type(e).__name__)

    def test(self, t):
        """an expression in test position (also usable as a value: the combinators return Python bools)"""
        if isinstance(t, ast.Compare) and len(t.ops) == 1:
            op, a, b = t.ops[0], t.left, t.comparators[0]
            if isinstance(op, ast.In) and isinstance(a, ast.Constant) and isinstance(a.value, str):
                return "(pIn %s %s)" % (lean_chars(a.value), self.expr(b))
            if isinstance(op, ast.NotEq) and isinstance(b, ast.Constant) and b.value is None:
                return "(pNeNone %s)" % self.expr(a)
            if isinstance(op, ast.IsNot) and isinstance(b, ast.Constant) and b.value is None:
                return "(pIsNotNone %s)" % self.expr(a)
            if (isinstance(op, ast.Gt) and isinstance(b, ast.Constant) and isinstance(b.value, int)
                    and not isinstance(b.value, bool) and isinstance(a, ast.Call) and isinstance(a.func, ast.Name)
                    and a.func.id == "len"):
                return "(pGtInt %d %s)" % (b.value, self.expr(a))
            self.gap(t, "comparison shape")
        if isinstance(t, (ast.BoolOp, ast.UnaryOp)):
            self.gap(t, "boolean operator")
        return self.expr(t)

    def stmts(self, ss):
        if not ss:
            return "pnone"
        s, rest = ss[0], ss[1:]
        if isinstance(s, ast.Return):
            return self.expr(s.value) if s.value is not None else "pnone"
        if isinstance(s, ast.If):
            return "(pIfElse fs %s %s %s)" % (self.test(s.test), self.stmts(s.body + rest), self.stmts(s.orelse + rest))
        if isinstance(s, ast.Pass):
            return self.stmts(rest)
        if isinstance(s, ast.Assign):
            # `x = E` followed by a statement that evaluates `x` before anything else  =  that statement (and what
            # follows) with E in place of x.  Sound because every expression this translator accepts is a
            # deterministic function of `self`'s attributes and the parameters (no mutation, no I/O), so only WHEN an
            # exception of E surfaces could differ: E is evaluated first at the assignment, and again first in the
            # next statement, with nothing that can raise in between; later uses see the same value.  A local that is
            # rebound, shadows a parameter, or is not the first thing the next statement evaluates is refused.
            t = s.targets[0] if len(s.targets) == 1 else None
            if not isinstance(t, ast.Name) or t.id == "self" or t.id in self.params or t.id in self.lets:
                self.gap(s, "assignment target")
            first = NORM.first_evaluated(rest[0]) if rest else None
            if first is None or first.id != t.id:
                self.gap(s, "local that is not evaluated first by the next statement")
            self.lets[t.id] = self.expr(s.value)
            try:
                return self.stmts(rest)
            finally:
                del self.lets[t.id]
        if isinstance(s, ast.Expr):
            v = s.value
            if isinstance(v, ast.Constant) and isinstance(v.value, str):      # docstring
                return self.stmts(rest)
            if isinstance(v, ast.Call) and isinstance(v.func, ast.Name) and v.func.id == "print":
                return self.stmts(rest)                                        # output is not modelled
            if isinstance(v, ast.Call) and isinstance(v.func, ast.Name) and v.func.id == "exit":
                return "pexit"
            self.gap(s, "expression statement")
        self.gap(s, "statement " + type(s).__name__)


def fun_def(prefix, cls, name, fdef, resolvable):
    args = fdef.args
    if args.vararg or args.kwarg or args.kwonlyargs or args.defaults or args.posonlyargs:
        raise Gap("%s.%s: parameter list shape" % (cls, name))
    names = [a.arg for a in args.args]
    if not names or names[0] != "self":
        raise Gap("%s.%s: first parameter is not self" % (cls, name))
    params = names[1:]
    fdef = NORM.normalise(fdef)        # S1-S6 of translators/c19_norm.py (locals are handled by FunTr.stmts, Assign)
    body = FunTr(prefix, cls, params, resolvable).stmts(fdef.body)
    sig = "".join(" (%s : Res F)" % p for p in params)
    return "def %s.%s.%s (fs : FloatSem F) (self : Obj F)%s : Res F :=\n  %s\n" % (prefix, cls, name, sig, body)


def calls_of(fdef):
    out = []
    for n in ast.walk(fdef):
        if (isinstance(n, ast.Call) and isinstance(n.func, ast.Attribute) and isinstance(n.func.value, ast.Name)
                and n.func.value.id == "self"):
            out.append(n.func.attr)
    return out


def class_methods_block(prefix, own, bases, gaps):
    """own: {class: {method: FunctionDef}} (own definitions only); emits, per class of CLASSES, every whitelisted
    method it has after method resolution, `self.m(...)` resolved against the same class."""
    out = []
    index = {}
    for cls in CLASSES:
        chain, c = [], cls
        while c is not None and c not in chain:
            chain.append(c)
            c = bases.get(c)
        resolved = {}
        for m in WHITELIST:
            for c in chain:
                if m in own.get(c, {}):
                    resolved[m] = own[c][m]
                    break
        done = []

        def emit(m, stack=()):
            if m in done or m not in resolved:
                return
            if m in stack:
                raise Gap("%s.%s: recursive accessor" % (cls, m))
            for k in calls_of(resolved[m]):
                if k in resolved:
                    emit(k, stack + (m,))
            try:
                out.append(fun_def(prefix, cls, m, resolved[m], resolved))
                done.append(m)
            except Gap as g:
                gaps.append("%s %s.%s: %s" % (prefix, cls, m, g))
        for m in WHITELIST:
            emit(m)
        index[cls] = done
    return "\n".join(out), index


def nml_tables(tree):
    own, bases, inits = {}, {}, {}
    for node in tree.body:
        if isinstance(node, ast.ClassDef):
            b = node.bases[0].id if node.bases and isinstance(node.bases[0], ast.Name) else None
            bases[node.name] = b
            d = {}
            for it in node.body:
                if isinstance(it, ast.FunctionDef):
                    d[it.name] = it                     # a later def overrides an earlier one, as in Python
            own[node.name] = d
            if "__init__" in d:
                inits[node.name] = d["__init__"]
    return own, bases, inits


def helper_tables(path, bases):
    ns = runpy.run_path(path, run_name="verif_helper_methods")
    own = {}
    for spec in ns["METHOD_SPECS"]:
        text = "class _X:\n" + spec.source.replace("PERCENTAGE", "%") + "\n    pass\n"
        try:
            body = ast.parse(text).body[0].body
        except SyntaxError:
            continue                                     # (none today) a spec that is not plain methods
        for cls in CLASSES + [c for c in bases if c not in CLASSES]:
            if spec.match_name(cls):
                d = own.setdefault(cls, {})
                for it in body:
                    if isinstance(it, ast.FunctionDef):
                        d[it.name] = it
    return own


def ctor_block(inits, bases, gaps):
    out = []
    for cls in CLASSES:
        chain, c = [], cls
        while c is not None and c in inits:
            chain.append(c)
            c = bases.get(c)
        rows = []
        try:
            own = inits[cls]
            names = [a.arg for a in own.args.args]
            dfl = dict(zip(names[len(names) - len(own.args.defaults):], own.args.defaults))
            # every class of the chain: which of its parameters are assigned with which cast; parameters are handed
            # to super().__init__ under the same name
            for c in reversed(chain):
                f = inits[c]
                for st in f.body:
                    if (isinstance(st, ast.Assign) and len(st.targets) == 1 and isinstance(st.targets[0], ast.Attribute)
                            and isinstance(st.targets[0].value, ast.Name) and st.targets[0].value.id == "self"
                            and st.targets[0].attr in CTOR_FIELDS):
                        fld, v = st.targets[0].attr, st.value
                        if not (isinstance(v, ast.Call) and isinstance(v.func, ast.Name) and v.func.id == "_cast"
                                and len(v.args) == 2 and isinstance(v.args[1], ast.Name) and v.args[1].id == fld):
                            raise Gap("%s.__init__: `%s`" % (c, src(st)))
                        k = v.args[0]
                        cast = {"None": ".asIs", "int": ".toInt", "float": ".toFloat"}.get(
                            "None" if isinstance(k, ast.Constant) and k.value is None else getattr(k, "id", "?"))
                        if cast is None:
                            raise Gap("%s.__init__: cast `%s`" % (c, src(k)))
                        if c != cls:
                            check_passthrough(cls, c, fld, inits, bases)
                        d = dfl.get(fld)
                        if d is None or not isinstance(d, ast.Constant):
                            raise Gap("%s.__init__: default of `%s`" % (cls, fld))
                        if d.value is None:
                            lit = ".none"
                        elif isinstance(d.value, str):
                            lit = "(.str %s)" % lean_chars(d.value)
                        else:
                            raise Gap("%s.__init__: default of `%s` = %r" % (cls, fld, d.value))
                        rows.append("⟨%s, %s, %s⟩" % (lean_str(fld), cast, lit))
        except (Gap, KeyError) as g:
            gaps.append("nml.py constructor %s: %s" % (cls, g))
            continue
        out.append("def Nml.%s.fields : List CtorField :=\n  [%s]\n" % (cls, ",\n   ".join(rows)))
    return "\n".join(out)


def check_passthrough(cls, upto, fld, inits, bases):
    """`fld` of cls.__init__ reaches the parameter `fld` of upto.__init__ through the super().__init__ calls"""
    c = cls
    while c != upto:
        f, b = inits[c], bases[c]
        call = None
        for n in ast.walk(f):
            if (isinstance(n, ast.Call) and isinstance(n.func, ast.Attribute) and n.func.attr == "__init__"
                    and isinstance(n.func.value, ast.Call) and getattr(n.func.value.func, "id", "") == "super"):
                call = n
        if call is None:
            raise Gap("%s.__init__: no super().__init__ call" % c)
        bparams = [a.arg for a in inits[b].args.args][1:]
        ok = False
        for i, a in enumerate(call.args):
            if isinstance(a, ast.Name) and a.id == fld:
                ok = i < len(bparams) and bparams[i] == fld
        for kw in call.keywords:
            if kw.arg == fld and isinstance(kw.value, ast.Name) and kw.value.id == fld:
                ok = True
        if not ok:
            raise Gap("%s.__init__ does not pass `%s` to %s.__init__ under the same name" % (c, fld, b))
        c = b


def summary_block(fdef, gaps):
    """the `tot_x += …` statements of NeuroMLDocument.summary and the printed total lines"""
    adds, lines, inits = [], [], set()
    net_loop = None
    for st in fdef.body:
        if (isinstance(st, ast.For) and isinstance(st.iter, ast.Attribute) and st.iter.attr == "networks"
                and isinstance(st.target, ast.Name)):
            net_loop = st
    if net_loop is None:
        gaps.append("summary: no `for network in self.networks` loop")
        return ""
    nv = net_loop.target.id

    def loop_list(it):
        # sorted(network.L, key=...)  |  network.L
        if isinstance(it, ast.Call) and isinstance(it.func, ast.Name) and it.func.id == "sorted" and it.args:
            it = it.args[0]
        if isinstance(it, ast.Attribute) and isinstance(it.value, ast.Name) and it.value.id == nv:
            return it.attr
        return None

    def len_of(e, var):
        if (isinstance(e, ast.Call) and isinstance(e.func, ast.Name) and e.func.id == "len" and len(e.args) == 1
                and isinstance(e.args[0], ast.Attribute) and isinstance(e.args[0].value, ast.Name)
                and e.args[0].value.id == var):
            return e.args[0].attr
        return None

    def walk_loop(body, L, var, guard):
        for s in body:
            if isinstance(s, ast.AugAssign) and isinstance(s.target, ast.Name) and s.target.id.startswith("tot_"):
                t = TOTALS.get(s.target.id)
                if t is None or not isinstance(s.op, ast.Add):
                    gaps.append("summary: total `%s`" % src(s))
                    continue
                if s.target.id not in inits:
                    gaps.append("summary: `%s` is not initialised to 0 before its loop" % s.target.id)
                v = s.value
                if isinstance(v, ast.Constant) and v.value == 1 and guard is None:
                    w = ".one"
                elif len_of(v, var) is not None and guard is None:
                    w = ".len %s" % lean_str(len_of(v, var))
                elif len_of(v, var) is not None and guard == len_of(v, var):
                    w = ".lenIfPos %s" % lean_str(len_of(v, var))
                elif (isinstance(v, ast.Call) and isinstance(v.func, ast.Attribute) and v.func.attr == "get_size"
                      and isinstance(v.func.value, ast.Name) and v.func.value.id == var and guard is None):
                    w = ".size"
                else:
                    gaps.append("summary: addend `%s`%s" % (src(s), " under a guard" if guard else ""))
                    continue
                adds.append("⟨%s, %s, %s⟩" % (lean_str(L), t, w))
            elif isinstance(s, ast.If):
                g = None
                t = s.test
                if (isinstance(t, ast.Compare) and len(t.ops) == 1 and isinstance(t.ops[0], ast.Gt)
                        and isinstance(t.comparators[0], ast.Constant) and t.comparators[0].value == 0):
                    g = len_of(t.left, var)
                has_tot = any(isinstance(x, ast.AugAssign) and isinstance(x.target, ast.Name)
                              and x.target.id.startswith("tot_") for b in (s.body, s.orelse) for y in b for x in ast.walk(y))
                if has_tot and (g is None or guard is not None or s.orelse):
                    gaps.append("summary: total updated under `%s`" % src(t))
                else:
                    walk_loop(s.body, L, var, g if has_tot else guard)
            elif isinstance(s, (ast.For, ast.While)):
                if any(isinstance(x, ast.AugAssign) and isinstance(x.target, ast.Name) and x.target.id.startswith("tot_")
                       for x in ast.walk(s)):
                    gaps.append("summary: total updated in a nested loop")

    def flatten(e):
        if isinstance(e, ast.BinOp) and isinstance(e.op, ast.Add):
            return flatten(e.left) + flatten(e.right)
        return [e]

    for st in net_loop.body:
        if isinstance(st, ast.Assign) and len(st.targets) == 1 and isinstance(st.targets[0], ast.Name) \
                and st.targets[0].id.startswith("tot_"):
            if isinstance(st.value, ast.Constant) and st.value.value == 0 and not isinstance(st.value.value, bool):
                inits.add(st.targets[0].id)
            else:
                gaps.append("summary: `%s`" % src(st))
        elif isinstance(st, ast.For):
            L = loop_list(st.iter)
            touches = any(isinstance(x, ast.AugAssign) and isinstance(x.target, ast.Name) and x.target.id.startswith("tot_")
                          for x in ast.walk(st))
            if L is None or not isinstance(st.target, ast.Name):
                if touches:
                    gaps.append("summary: totals updated in a loop over `%s`" % src(st.iter))
                continue
            walk_loop(st.body, L, st.target.id, None)
        elif isinstance(st, ast.AugAssign) and isinstance(st.target, ast.Name) and st.target.id.startswith("tot_"):
            gaps.append("summary: total updated outside a list loop: `%s`" % src(st))
        elif (isinstance(st, ast.AugAssign) and isinstance(st.target, ast.Name) and st.target.id == "info"):
            parts = flatten(st.value)
            if any(isinstance(p, ast.Call) and isinstance(p.func, ast.Name) and p.func.id == "str" and p.args
                   and isinstance(p.args[0], ast.Name) and p.args[0].id.startswith("tot_") for p in parts):
                segs, text_done = [], False
                for p in parts:
                    if text_done:
                        break
                    if isinstance(p, ast.Constant) and isinstance(p.value, str):
                        if "\n" in p.value:
                            head = p.value.split("\n")[0]
                            if head:
                                segs.append(".lit %s" % lean_str(head))
                            text_done = True
                        else:
                            segs.append(".lit %s" % lean_str(p.value))
                    elif (isinstance(p, ast.Call) and isinstance(p.func, ast.Name) and p.func.id == "str"
                          and isinstance(p.args[0], ast.Name) and p.args[0].id in TOTALS):
                        segs.append(".tot %s" % TOTALS[p.args[0].id])
                    else:
                        gaps.append("summary: total line piece `%s`" % src(p))
                        text_done = True
                lines.append("[" + ", ".join(segs) + "]")
    return ("def Nml.summaryTable : List Add :=\n  [%s]\n\ndef Nml.summaryLines : List (List Seg) :=\n  [%s]\n"
            % (",\n   ".join(adds), ",\n   ".join(lines)))


def generate(repo):
    """-> (lean text, gaps, stats)"""
    gaps = []
    tree = ast.parse(open(os.path.join(repo, "neuroml/nml/nml.py")).read())
    own_n, bases, inits = nml_tables(tree)
    own_h = helper_tables(os.path.join(repo, "neuroml/nml/helper_methods.py"), bases)
    parts = ["import NmlVerif.Model.Accessors", "import NmlVerif.Model.Rx", "import NmlVerif.Model.AccSummary",
             "/-! GENERATED on every check run by harness/props/c19.py (regenerate) from the Python AST of",
             "    neuroml/nml/helper_methods.py, neuroml/nml/nml.py and neuroml/hdf5/NeuroMLXMLParser.py. Do not edit. -/",
             "set_option linter.unusedVariables false", "namespace NmlVerif.Acc.Gen", "variable {F : Type}", ""]
    nfun = 0
    for prefix, own in (("Helper", own_h), ("Nml", own_n)):
        block, index = class_methods_block(prefix, own, bases, gaps)
        nfun += sum(len(v) for v in index.values())
        parts.append("/-! ### accessors, %s -/\n" % prefix)
        parts.append(block)
        parts.append("def %s.index : List (String × List String) :=\n  [%s]\n" % (
            prefix, ",\n   ".join("(%s, [%s])" % (lean_str(c), ", ".join(lean_str(m) for m in index[c])) for c in CLASSES)))
        sm = own.get("NeuroMLDocument", {}).get("summary")
        if sm is None:
            gaps.append("%s: NeuroMLDocument.summary not found" % prefix)
        else:
            parts.append(summary_block(SUMT.normalised_summary(sm), gaps).replace("def Nml.", "def %s." % prefix))
            prog = SUMT.net_program(sm, gaps, prefix)
            if prog is not None:
                parts.append("/-- the body of `for network in self.networks:` of `summary` (%s) -/\ndef %s.netProg : List Summ.L3 :=\n  %s\n"
                             % (prefix, prefix, prog))
    parts.append("/-! ### constructors (nml.py) -/\n")
    parts.append(ctor_block(inits, bases, gaps))
    ptree = ast.parse(open(os.path.join(repo, "neuroml/hdf5/NeuroMLXMLParser.py")).read())
    pd = None
    for node in ptree.body:
        if isinstance(node, ast.ClassDef) and node.name == "NeuroMLXMLParser":
            for it in node.body:
                if isinstance(it, ast.FunctionDef) and it.name == "_parse_delay":
                    pd = it
    if pd is None:
        gaps.append("NeuroMLXMLParser._parse_delay not found")
    else:
        try:
            parts.append(fun_def("XmlParser", "NeuroMLXMLParser", "_parse_delay", pd, {}))
            nfun += 1
        except Gap as g:
            gaps.append("NeuroMLXMLParser._parse_delay: %s" % g)
    SUMT.check_utils(os.path.join(repo, "neuroml", "utils.py"), gaps)
    rxb, rx_texts, xsd_name = RXT.block(repo, tree, gaps)
    parts.append("/-! ### schema patterns (%s and nml.py), parsed by Python's `re._parser` -/\n" % xsd_name)
    parts.append(rxb)
    parts.append("end NmlVerif.Acc.Gen\n")
    return "\n".join(parts), gaps, {"functions_translated": nfun, "patterns": rx_texts, "xsd": xsd_name}


GEN_PATH = os.path.join(fw.LEAN, "NmlVerif", "Gen", "Accessors.lean")


def regenerate(ctx):
    t0 = time.time()
    text, gaps, stats = generate(fw.REPO)
    old = open(GEN_PATH).read() if os.path.exists(GEN_PATH) else None
    if old != text:
        os.makedirs(os.path.dirname(GEN_PATH), exist_ok=True)
        tmp = GEN_PATH + ".tmp%d" % os.getpid()
        with open(tmp, "w") as fh:
            fh.write(text)
        os.replace(tmp, GEN_PATH)
    stats.update({"gaps": list(gaps), "changed_on_disk": old is not None and old != text,
                  "seconds": round(time.time() - t0, 1), "source": fw.REPO})
    ctx.extra["translator"] = stats
    return gaps


# ------------------------------------------------------------------------------------------------
# generators
# ------------------------------------------------------------------------------------------------
RULE = ("accessor stream: every connection/input class x every accessor it has, reference paths of the forms "
        "../pop/n/comp, ../pop/n, pop[n], ../pop[n] with NmlId-pattern ids (digits, underscores, 1-80 chars, ids made of "
        "the letters m/s/e) and indices 0..10^18 (canonical and leading-zero spellings), segment/fraction/weight unset / "
        "zero / non-zero (dyadic decimals), keyword, string-typed and assigned-after-construction values; delay stream: "
        "every spelling class of Nml2Quantity_time (sign x integer part x fraction x exponent x whitespace x unit, "
        "degenerate number parts) checked against the regex shipped in nml.py, plus a malformed stream (units, signs, "
        "digits of other scripts); pattern streams: strings around the three schema patterns (time, reference path, NmlId; "
        "one-character edits of valid strings, random strings) decided by the shipped regex, by the hand recogniser and by "
        "the Rx derived from the XSD; reference readings: every shape the reference pattern admits (with/without ../, 1-4 "
        "indices, component, trailing slash) with what the classification theorem says the code does; documents: 0-3 "
        "networks, populations size-only / instances-only / both disagreeing / neither, the three projection kinds with "
        "all eight connection lists mixed in one projection, input lists with input + inputW mixed, explicit inputs, "
        "synaptic connections, empty lists, includes / ComponentTypes / properties with the show_includes / "
        "show_non_network flags, every element's values recorded; routes: summary() direct, after XML re-read, after HDF5 "
        "re-read, on optimized HDF5 containers, via utils.get_summary / print_summary, and NeuroMLXMLParser.parse with a "
        "recording handler; the whole summary text is compared with the translated model, every total / per-list count / "
        "population size / first-element id parsed from the text with the generation record, the accessors of every "
        "re-read element with the stored values; has_segment_fraction_info on random lists. non-trivial = path with index "
        ">= 10 or id with digit/underscore, or a stored (not unset) field, or a delay with fraction/exponent/whitespace, or "
        "a network with >= 2 populations and >= 1 non-empty projection, or a reference reading outside the two forms; "
        "distinct = distinct canonical case descriptions")
TRUST = [
    "py2lean-style translators in harness/props/c19.py and translators/c19_summary.py, c19_rx.py, with the normaliser of equivalent surface shapes translators/c19_norm.py in front of them (AST shapes -> prelude combinators / statements of the summary language / Rx terms; method resolution; constructor defaults) are validated by the correspondence streams, not verified; they refuse what they do not understand",
    "Python builtins str.split/strip/in/endswith/slices/int() are modelled by the prelude of Model/Accessors.lean (decimal digits of every script as int()/float() read them, Unicode 15 table); float(): abstract parameter (FloatSem) in the theorems of Props/C19, exact rationals (RatSem) in Props/C19Rx and in the driver; binary rounding of float() and of *1000.0 is not modelled",
    "Python's re._parser is the reader of the schema patterns (the same reader the validators use); Rx.Matches is the meaning of a pattern, the matcher the driver runs is proved to decide it",
    "summary(): str() of connections / inputs / projections / input lists / locations is an opaque text supplied by the harness from the real object (Population.__str__ is modelled); the prologue (inspect.getmembers listing, flags) and has_segment_fraction_info, get_summary, print_summary are hand models whose source text is pinned by the translator; sorted() = stable sort by code points",
]
ASSUMPTIONS = [
    "delays: Props/C19Rx proves the exact decimal value (x1000 for s) for every string of the schema pattern with exact rational float(); that Python's binary float() and *1000.0 are within 2^-52 relative of it is sampled by the oracle (exact for dyadic values)",
    "connection classes: 'unset' = constructor argument not passed (the constructor stores the schema default); an explicit None on a connection raises TypeError in the accessor (modelled, outside the statement)",
    "ElectricalConnection / ContinuousConnection (non-instance) hold plain indices, not reference paths: c19_index_accessors(_rat) (int(float(s)) exact below 2^53)",
    "cell total of a population = number of instance elements when it lists any (they are the cells present in the document), else the declared size, else 0 - also when size and the instance list disagree",
    "repr() of the strings in the header listing is modelled for strings without quotes, backslashes and non-printable characters (the generator's alphabet)",
]

LETTERS = "abcdefghijklmnopqrstuvwxyzABCDEFGHIJKLMNOPQRSTUVWXYZ"
IDCH = LETTERS + "0123456789_"


def gen_id(rng):
    r = rng.random()
    if r < 0.08:
        return rng.choice(["s", "ms", "e", "E", "m", "e5", "_", "__", "_9", "s1", "inf", "nan", "None", "x_0_1"])
    if r < 0.16:
        n = rng.randint(30, 80)
    elif r < 0.4:
        n = rng.randint(1, 3)
    else:
        n = rng.randint(3, 14)
    s = rng.choice(LETTERS + "_")
    alphabet = rng.choice([IDCH, "0123456789_", "ems_01", IDCH])
    return s + "".join(rng.choice(alphabet) for _ in range(n - 1))


def gen_index(rng):
    r = rng.random()
    if r < 0.15:
        return rng.choice([0, 1, 9, 10, 99, 100, 10 ** 9, 10 ** 9 - 1, 2 ** 31, 2 ** 53 + 1, 10 ** 18])
    if r < 0.5:
        return rng.randint(0, 50)
    if r < 0.8:
        return rng.randint(0, 10 ** 9)
    return 10 ** rng.randint(1, 9) + rng.randint(0, 9)


def gen_digits(rng, n):
    """a spelling of n matching [0-9]+ : canonical, or with leading zeros"""
    s = str(n)
    if rng.random() < 0.12:
        s = "0" * rng.randint(1, 3) + s
    return s


FORMS = ["slash", "slash", "slash_nocomp", "bracket", "bracket", "dots_bracket"]


def gen_path(rng, form=None):
    form = form or rng.choice(FORMS)
    pop, comp, n = gen_id(rng), gen_id(rng), gen_index(rng)
    ds = gen_digits(rng, n)
    if form == "slash":
        s = "../%s/%s/%s" % (pop, ds, comp)
    elif form == "slash_nocomp":
        s = "../%s/%s" % (pop, ds)
    elif form == "bracket":
        s = "%s[%s]" % (pop, ds)
    else:
        s = "../%s[%s]" % (pop, ds)
    return {"s": s, "form": form, "pop": pop, "comp": comp, "n": n, "digits": ds}


UNI_ZEROS = [0x660, 0x6F0, 0x966, 0xFF10, 0x1D7CE, 0x1D7D8]      # Arabic-Indic, Persian, Devanagari, fullwidth, mathematical bold / double-struck


def uni_digits(rng, n):
    """a spelling of n in decimal digits of another script (or mixed with ASCII digits)"""
    z = rng.choice(UNI_ZEROS)
    mixed = rng.random() < 0.3
    return "".join(d if (mixed and rng.random() < 0.5) else chr(z + int(d)) for d in str(n))


def gen_bad_ref(rng):
    """references outside the two forms (model vs code only)"""
    pop, comp, n = gen_id(rng), gen_id(rng), gen_index(rng)
    return rng.choice([
        "%s/%d/%s" % (pop, n, comp), "%s/%d" % (pop, n), "", pop, "%s[]" % pop, "%s[%d" % (pop, n), "%s[ %d ]" % (pop, n),
        "../%s/ %d /%s" % (pop, n, comp), "%s[1_0]" % pop, "%s[+%d]" % (pop, n), "%s[-%d]" % (pop, n), "../%s/%s/%d" % (pop, comp, n),
        "%s[%d][7]" % (pop, n), "%s[%s]" % (pop, comp), "../../%s/%d/%s" % (pop, n, comp), "%s[%d]/%d/x" % (pop, n, n + 1),
        "../%s/%d.0/%s" % (pop, n, comp), "%s[1e3]" % pop, "%s[\t%d\n]" % (pop, n), "/%s/%d" % (pop, n), "%s[__1]" % pop,
        "%s[%d_]" % (pop, n), None, 5, "../%s//%d" % (pop, n),
        # digits of other scripts (int() reads them; the schema pattern does not admit them), other non-ASCII characters
        "%s[%s]" % (pop, uni_digits(rng, n)), "../%s/%s/%s" % (pop, uni_digits(rng, n), comp), "%s[\u2003%s\u00a0]" % (pop, uni_digits(rng, n)),
        "%s[%d\u00b2]" % (pop, n), "%s[\u2460]" % pop, "../%s/%d\u0663_\u0664/%s" % (pop, n, comp)])


def dyadic(rng, lo_exp=1, hi_exp=10, maxnum=None):
    """(decimal string, Fraction) of k / 2^j, exactly representable"""
    j = rng.randint(lo_exp, hi_exp)
    k = rng.randint(1, (2 ** j) if maxnum is None else maxnum * 2 ** j)
    fr = Fraction(k, 2 ** j)
    return frac_to_decimal(fr), fr


def frac_to_decimal(fr):
    """exact decimal expansion of a dyadic rational"""
    sign = "-" if fr < 0 else ""
    fr = abs(fr)
    ip = fr.numerator // fr.denominator
    rem = fr - ip
    digs = ""
    while rem:
        rem *= 10
        d = rem.numerator // rem.denominator
        digs += str(d)
        rem -= d
    return sign + str(ip) + ("." + digs if digs else ".0")


def gen_fraction(rng):
    """-> (encoded value or ABSENT, expected Fraction, tag)"""
    r = rng.random()
    if r < 0.25:
        return ABSENT, Fraction(1, 2), "unset"
    if r < 0.45:
        return {"f": "0.0"}, Fraction(0), "zero"
    if r < 0.55:
        return {"f": "1.0"}, Fraction(1), "one"
    if r < 0.6:
        return {"f": "0.5"}, Fraction(1, 2), "half"
    ds, fr = dyadic(rng)
    return {"f": ds}, fr, "nonzero"


def gen_segment(rng):
    r = rng.random()
    if r < 0.3:
        return ABSENT, 0, "unset"
    if r < 0.5:
        return 0, 0, "zero"
    n = rng.choice([1, 2, 7, 10, 255, rng.randint(1, 10 ** 6)])
    return n, n, "nonzero"


def gen_weight(rng):
    r = rng.random()
    if r < 0.25:
        return ABSENT, Fraction(1), "unset"
    if r < 0.45:
        return {"f": "0.0"}, Fraction(0), "zero"
    if r < 0.5:
        return {"f": "1.0"}, Fraction(1), "one"
    ds, fr = dyadic(rng, 0, 8, maxnum=1000)
    if rng.random() < 0.3:
        ds, fr = "-" + ds, -fr
    return {"f": ds}, fr, "nonzero"


ABSENT = "__absent__"

TIME_RE_FALLBACK = r"^(-?([0-9]*(\.[0-9]+)?)([eE]-?[0-9]+)?[\s]*(s|ms))$"


def gen_time_spelling(rng):
    """one spelling of the Nml2Quantity_time pattern, by class"""
    sign = rng.choice(["", "", "-"])
    ip = rng.choice(["", "0", "5", "12", "007", str(rng.randint(0, 10 ** 6)), str(rng.randint(0, 999))])
    fp = rng.choice(["", "", ".5", ".25", ".0", ".125", "." + str(rng.randint(0, 99999)), ".001"])
    ex = rng.choice(["", "", "", "e3", "E2", "e-3", "E-1", "e0", "e-06", "E12", "e" + str(rng.randint(0, 20)), "e-" + str(rng.randint(0, 20))])
    ws = rng.choice(["", "", " ", "  ", "\t", " \t ", "\n", "\r\n"])
    unit = rng.choice(["s", "ms"])
    num = sign + ip + fp + ex
    cls = "%s|%s|%s|%s|%s|%s" % ("neg" if sign else "pos", "noint" if not ip else ("lead0" if len(ip) > 1 and ip[0] == "0" else "int"),
                                 "frac" if fp else "nofrac", ("E" if ex[:1] == "E" else "e") + ("-" if "-" in ex else "+") if ex else "noexp",
                                 "ws" if ws else "nows", unit)
    parts = {"neg": bool(sign), "ip": ip, "fd": (fp[1:] if fp else None),
             "ex": ({"mark": ex[0], "neg": ex[1:2] == "-", "digits": ex.lstrip("eE-")} if ex else None)}
    return {"s": num + ws + unit, "num": num, "ws": ws, "unit": unit, "cls": cls, "parts": parts}


def exact_time_value(num):
    """exact value of the number part, or None when it is not a number (degenerate spellings)"""
    m = re.fullmatch(r"(-?)([0-9]*)(?:\.([0-9]+))?(?:[eE](-?[0-9]+))?", num)
    if not m:
        return None
    sign, ip, fp, ex = m.groups()
    if not ip and not fp:
        return None
    v = Fraction(int(ip or "0")) + (Fraction(int(fp), 10 ** len(fp)) if fp else 0)
    if ex:
        v *= Fraction(10) ** int(ex)
    return -v if sign else v


def gen_bad_delay(rng):
    v = rng.choice(["5", "", "s", "ms", "5 m s", "5mss", "5sms", "1 s 2 ms", None, "5 S", "5msec", "5 sec", "ms5", "s5", "5.ms", "5.s",
                    "+5ms", "+5s", " 5ms", " 5 s ", "5ms ", "5s\n", "1_0ms", "1_0 s", "0x10ms", "5e+3ms", "5e+3 s", "--5ms", "5..0s",
                    "1e", "1e ms", "five ms", "5\xa0ms", "5 s", ".ms", ".s", "-ms", "-s", "e5s", "e5ms", "5min", "5us", "5m", 5, {"f": "2.5"},
                    "\u0663ms", "\u0661\u0662.\u0665 s", "\uff11\uff10e\uff12ms", "1\u0663 ms", "\u00b2ms", "\u0663_\u0664s", "-\u0966.\u096b ms"])
    return v


CONN_OLD = ["Connection", "ConnectionWD"]
CONN_NEW_IDX = ["ElectricalConnection", "ContinuousConnection"]
CONN_NEW_PATH = ["ElectricalConnectionInstance", "ElectricalConnectionInstanceW", "ContinuousConnectionInstance",
                 "ContinuousConnectionInstanceW"]
INPUTS = ["Input", "InputW"]
ACC_CLASSES = CONN_OLD + CONN_NEW_IDX + CONN_NEW_PATH + INPUTS + ["ExplicitInput"]
METHODS = {
    "Connection": ["get_pre_cell_id", "get_post_cell_id", "get_pre_segment_id", "get_post_segment_id", "get_pre_fraction_along", "get_post_fraction_along"],
    "Input": ["get_target_cell_id", "get_segment_id", "get_fraction_along"],
    "ExplicitInput": ["get_target_cell_id", "get_segment_id", "get_fraction_along"],
    "Population": ["get_size"],
}
METHODS["ConnectionWD"] = METHODS["Connection"] + ["get_delay_in_ms"]
for _c in CONN_NEW_IDX + CONN_NEW_PATH:
    METHODS[_c] = list(METHODS["Connection"]) + (["get_weight"] if _c.endswith("W") else [])
METHODS["InputW"] = METHODS["Input"] + ["get_weight"]
WITH_WEIGHT = ["ConnectionWD", "ElectricalConnectionInstanceW", "ContinuousConnectionInstanceW", "InputW"]


def gen_acc_case(rng, cls=None):
    cls = cls or rng.choice(ACC_CLASSES)
    given, sets, expect, tags = {}, {}, {}, []
    nontrivial = False

    def put_ref(field, method, index_form=False):
        nonlocal nontrivial
        if index_form:
            n = gen_index(rng) % (10 ** 15)
            given[field] = gen_digits(rng, n)
            tags.append("ref:index")
            return
        if rng.random() < 0.1:
            b = gen_bad_ref(rng)
            if b is None and rng.random() < 0.5:
                return                                   # argument not passed: attribute is None
            given[field] = b
            tags.append("ref:malformed")
            return
        p = gen_path(rng)
        given[field] = p["s"]
        expect[method] = {"kind": "int", "v": p["n"], "why": "cell index of a %s reference" % p["form"], "in": "path-" + p["form"]}
        tags.append("ref:" + p["form"])
        if p["n"] >= 10 or any(ch in "0123456789_" for ch in p["pop"]):
            nontrivial = True

    def put(field, method, gen, kind, dflt_kind):
        """kind: int | frac"""
        nonlocal nontrivial
        enc, exp, tag = gen(rng)
        how = rng.random()
        if enc is ABSENT:
            if cls in INPUTS and how < 0.3:
                given[field] = None                       # explicit None on an input = unset
            elif cls not in INPUTS and field != "weight" and how < 0.08:
                given[field] = None                       # explicit None on a connection: TypeError (modelled, not judged)
                tags.append("explicit-none")
                return
        else:
            nontrivial = True
            if how < 0.12 and kind == "int":
                given[field] = str(enc)                   # string-typed keyword argument (cast by the constructor)
            elif how < 0.12 and kind == "frac":
                given[field] = enc["f"]
            elif how < 0.2:
                sets[field] = enc                         # assigned after construction
            else:
                given[field] = enc
        expect[method] = {"kind": kind, "v": (exp if kind == "int" else [exp.numerator, exp.denominator]),
                          "why": "%s %s" % (tag, field), "in": tag}
        tags.append("%s:%s" % (field, tag))

    if cls in CONN_OLD:
        put_ref("pre_cell_id", "get_pre_cell_id")
        put_ref("post_cell_id", "get_post_cell_id")
        put("pre_segment_id", "get_pre_segment_id", gen_segment, "int", 0)
        put("post_segment_id", "get_post_segment_id", gen_segment, "int", 0)
        put("pre_fraction_along", "get_pre_fraction_along", gen_fraction, "frac", 0)
        put("post_fraction_along", "get_post_fraction_along", gen_fraction, "frac", 0)
    elif cls in CONN_NEW_IDX or cls in CONN_NEW_PATH:
        put_ref("pre_cell", "get_pre_cell_id", cls in CONN_NEW_IDX)
        put_ref("post_cell", "get_post_cell_id", cls in CONN_NEW_IDX)
        put("pre_segment", "get_pre_segment_id", gen_segment, "int", 0)
        put("post_segment", "get_post_segment_id", gen_segment, "int", 0)
        put("pre_fraction_along", "get_pre_fraction_along", gen_fraction, "frac", 0)
        put("post_fraction_along", "get_post_fraction_along", gen_fraction, "frac", 0)
    elif cls in INPUTS:
        put_ref("target", "get_target_cell_id")
        put("segment_id", "get_segment_id", gen_segment, "int", 0)
        put("fraction_along", "get_fraction_along", gen_fraction, "frac", 0)
    else:
        put_ref("target", "get_target_cell_id")
        expect["get_segment_id"] = {"kind": "int", "v": 0, "why": "an explicit input has no segment id", "in": "unset"}
        expect["get_fraction_along"] = {"kind": "frac", "v": [1, 2], "why": "an explicit input has no fraction", "in": "unset"}
    if cls in WITH_WEIGHT and cls != "ConnectionWD":
        put("weight", "get_weight", gen_weight, "frac", 1)
    if cls == "ConnectionWD":
        enc, exp, tag = gen_weight(rng)
        if enc is not ABSENT:
            given["weight"] = enc
        if rng.random() < 0.12:
            given["delay"] = gen_bad_delay(rng)
            tags.append("delay:malformed")
        else:
            t = gen_time_spelling(rng)
            given["delay"] = t["s"]
            expect["get_delay_in_ms"] = {"kind": "delay", "num": t["num"], "unit": t["unit"], "in": "time-" + t["unit"],
                                         "why": "delay spelling class " + t["cls"]}
            tags.append("delay:" + t["cls"])
            if t["ws"] or "." in t["num"] or "e" in t["num"].lower():
                nontrivial = True
    return {"kind": "acc", "cls": cls, "given": given, "set": sets, "expect": expect, "tags": tags, "nontrivial": nontrivial}


def gen_size_case(rng):
    inst = rng.choice([0, 0, 1, 2, 3, 5, 17])
    size = rng.choice([None, None, 0, 1, inst, inst + 2, rng.randint(0, 10 ** 6)])
    exp = inst if inst > 0 else (size or 0)
    return {"kind": "acc", "cls": "Population", "given": ({} if size is None and rng.random() < 0.5 else {"size": size}),
            "set": {"instances": {"objs": inst}},
            "expect": {"get_size": {"kind": "int", "v": exp, "why": "instances=%d size=%r" % (inst, size),
                                    "in": "instances" if inst else ("size" if size else "empty")}},
            "tags": ["size:inst%d" % min(inst, 2)], "nontrivial": inst > 0 or bool(size)}


def gen_cellid_case(rng):
    cls = rng.choice(ACC_CLASSES + ["SynapticConnection"])
    if cls in CONN_NEW_IDX:
        n = gen_index(rng) % (10 ** 15)
        return {"kind": "cellid", "cls": cls, "arg": rng.choice([gen_digits(rng, n), "%d.0" % n, "%d.75" % n, " %d " % n, gen_path(rng)["s"], ""]),
                "expect": None, "tags": ["cellid:index"], "nontrivial": n >= 10}
    if rng.random() < 0.25:
        return {"kind": "cellid", "cls": cls, "arg": gen_bad_ref(rng), "expect": None, "tags": ["cellid:malformed"], "nontrivial": False}
    p = gen_path(rng)
    return {"kind": "cellid", "cls": cls, "arg": p["s"], "path": p,
            "expect": {"kind": "int", "v": p["n"], "why": "cell index of a %s reference" % p["form"], "in": "path-" + p["form"]},
            "tags": ["cellid:" + p["form"]], "nontrivial": p["n"] >= 10 or any(ch in "0123456789_" for ch in p["pop"])}


def gen_delay_case(rng):
    if rng.random() < 0.2:
        return {"kind": "parse_delay", "arg": gen_bad_delay(rng), "expect": None, "tags": ["parse_delay:malformed"], "nontrivial": False}
    t = gen_time_spelling(rng)
    return {"kind": "parse_delay", "arg": t["s"], "spelling": t,
            "expect": {"kind": "delay", "num": t["num"], "unit": t["unit"], "in": "time-" + t["unit"], "why": "delay spelling class " + t["cls"]},
            "tags": ["parse_delay:" + t["cls"]], "nontrivial": bool(t["ws"]) or "." in t["num"] or "e" in t["num"].lower()}


def gen_regex_case(rng):
    """strings around the Nml2Quantity_time pattern: real regex (as generateDS applies it) vs the Lean recogniser"""
    r = rng.random()
    if r < 0.45:
        t = gen_time_spelling(rng)["s"]
        if rng.random() < 0.4:                                 # one edit
            i = rng.randint(0, len(t))
            t = t[:i] + rng.choice(["", "-", ".", "e", "E", "0", " ", "s", "m", "+", "\t"]) + t[i + (rng.random() < 0.5):]
    elif r < 0.9:
        t = "".join(rng.choice("--..eE0123456789  \t\nsmsm") for _ in range(rng.randint(0, 9)))
    else:
        t = str(gen_bad_delay(rng))
    return {"kind": "match_time", "s": t, "tags": ["regex"], "nontrivial": len(t) >= 3}


def gen_ref_parts(rng):
    """a reading of the slash forms of the reference pattern (wider than the two forms of the property)"""
    more = [gen_digits(rng, gen_index(rng) % 10 ** 6) for _ in range(rng.choice([0, 0, 0, 1, 1, 2, 3]))]
    return {"dots": rng.random() < 0.5, "pop": gen_id(rng), "d1": gen_digits(rng, gen_index(rng) % 10 ** 9), "more": more,
            "comp": (gen_id(rng) if rng.random() < 0.5 else None), "slash": rng.random() < 0.3}


def ref_parts_text(p):
    return (("../" if p["dots"] else "") + p["pop"] + "/" + p["d1"] + "".join("/" + d for d in p["more"])
            + ("/" + p["comp"] if p["comp"] is not None else "") + ("/" if p["slash"] else ""))


def ref_parts_outcome(p):
    """what the statement-level description (RefParts.outcome) says `_get_cell_id` does"""
    if p["dots"]:
        return {"ok": {"i": str(int(p["d1"]))}}
    if p["more"]:
        return {"ok": {"i": str(int(p["more"][0]))}}
    if p["comp"] is None and not p["slash"]:
        return {"err": "IndexError"}
    return {"err": "ValueError"}


def gen_refparts_case(rng):
    p = gen_ref_parts(rng)
    return {"kind": "ref_parts", "parts": p, "cls": rng.choice(["Connection", "Input", "ExplicitInput", "SynapticConnection",
                                                                 "ElectricalConnectionInstanceW", "ContinuousConnectionInstance"]),
            "tags": ["ref-parts:%s:%s" % ("dots" if p["dots"] else "nodots", "multi" if p["more"] else ("comp" if p["comp"] else "bare"))],
            "nontrivial": bool(p["more"]) or not p["dots"]}


def gen_refrx_case(rng):
    """strings around the Nml2PopulationReferencePath pattern: the shipped regex vs the derived `Rx`"""
    r = rng.random()
    if r < 0.35:
        t = ref_parts_text(gen_ref_parts(rng))
    elif r < 0.55:
        t = gen_path(rng)["s"]
    elif r < 0.7:
        t = str(gen_bad_ref(rng))
    else:
        t = "".join(rng.choice("..//[]ab_09  \n") for _ in range(rng.randint(0, 10)))
    if rng.random() < 0.35 and t:
        i = rng.randint(0, len(t))
        t = t[:i] + rng.choice(["", "/", "[", "]", ".", "0", "a", "_", " ", "-", "\n", "\u0663", "\u00e9"]) + t[i + (rng.random() < 0.5):]
    return {"kind": "match_ref", "s": t, "tags": ["regex-ref"], "nontrivial": len(t) >= 4}


def gen_idrx_case(rng):
    t = gen_id(rng) if rng.random() < 0.6 else "".join(rng.choice("ab_09Z -.\u00e9\u0663") for _ in range(rng.randint(0, 6)))
    if rng.random() < 0.3 and t:
        i = rng.randint(0, len(t))
        t = t[:i] + rng.choice(["", "-", " ", "9", "_", ".", "\u00e9", "\n"]) + t[i + (rng.random() < 0.5):]
    return {"kind": "match_id", "s": t, "tags": ["regex-id"], "nontrivial": len(t) >= 2}


def gen_hsfi_case(rng):
    k = rng.choice([0, 1, 1, 2, 3, 5])
    conns, any_info = [], False
    kind = "old" if rng.random() < 0.85 else "new"
    for _ in range(k):
        c = {}
        info = False
        for f in ("pre_segment_id", "post_segment_id"):
            if rng.random() < 0.15:
                c[f] = rng.choice([1, 2, 30])
                info = True
        for f in ("pre_fraction_along", "post_fraction_along"):
            r = rng.random()
            if r < 0.12:
                c[f] = {"f": rng.choice(["0.0", "1.0", "0.25", "0.75"])}
                info = True
            elif r < 0.2:
                c[f] = {"f": "0.5"}
        conns.append(c)
        any_info = any_info or info
    return {"kind": "hsfi", "family": kind, "conns": conns,
            "expect": ({"kind": "bool", "v": any_info} if kind == "old" else None),
            "tags": ["hsfi:%s:%d" % (kind, min(k, 2))], "nontrivial": k >= 2 and any_info}


# ------------------------------------------------------------------------------------------------
# real library
# ------------------------------------------------------------------------------------------------
def decode(v):
    """driver-format value -> Python value for the real code"""
    if isinstance(v, dict) and "f" in v:
        return float(v["f"])
    if isinstance(v, dict) and "objs" in v:
        import neuroml as n
        return [n.Instance(id=i, location=n.Location(x=float(i), y=0.0, z=2.5)) for i in range(v["objs"])]
    return v


def canon_value(v):
    if v is None or isinstance(v, (bool, str)):
        return v
    if isinstance(v, int):
        return {"i": str(v)}
    if isinstance(v, float):
        if math.isfinite(v):
            fr = Fraction(v)
            return {"q": [str(fr.numerator), str(fr.denominator)]}
        return {"float": repr(v)}
    return {"other": type(v).__name__}


def call_real(fn):
    try:
        v = fn()
    except SystemExit:
        return {"err": "SystemExit"}
    except (ValueError, TypeError, IndexError, AttributeError) as e:
        return {"err": type(e).__name__}
    except Exception as e:  # noqa
        return {"err": "Other:" + type(e).__name__}
    return {"ok": canon_value(v)}


EXTRA_KW = {
    "Connection": {"id": 0}, "ConnectionWD": {"id": 0},
    "ElectricalConnection": {"id": 0, "synapse": "gj"}, "ElectricalConnectionInstance": {"id": 0, "synapse": "gj"},
    "ElectricalConnectionInstanceW": {"id": 0, "synapse": "gj"},
    "ContinuousConnection": {"id": 0, "pre_component": "sa", "post_component": "sb"},
    "ContinuousConnectionInstance": {"id": 0, "pre_component": "sa", "post_component": "sb"},
    "ContinuousConnectionInstanceW": {"id": 0, "pre_component": "sa", "post_component": "sb"},
    "Input": {"id": 0, "destination": "synapses"}, "InputW": {"id": 0, "destination": "synapses"},
    "ExplicitInput": {"input": "pg"}, "SynapticConnection": {"synapse": "syn"},
    "Population": {"id": "pop", "component": "cell"},
}


def build_real(cls, given, sets):
    import neuroml
    kw = dict(EXTRA_KW[cls])
    kw.update({k: decode(v) for k, v in given.items()})
    obj = getattr(neuroml, cls)(**kw)
    for k, v in sets.items():
        setattr(obj, k, decode(v))
    return obj


def real_acc(case):
    out = {}
    try:
        obj = build_real(case["cls"], case["given"], case["set"])
    except (ValueError, TypeError) as e:
        return {m: {"err": "ctor:" + type(e).__name__} for m in METHODS[case["cls"]]}
    for m in METHODS[case["cls"]]:
        out[m] = call_real(getattr(obj, m))
    return out


def real_cellid(case):
    obj = build_real(case["cls"], {}, {})
    return call_real(lambda: obj._get_cell_id(case["arg"]))


def real_parse_delay(case):
    from neuroml.hdf5.NeuroMLXMLParser import NeuroMLXMLParser
    return call_real(lambda: NeuroMLXMLParser._parse_delay(None, case["arg"]))


def real_hsfi(case):
    import neuroml.utils as u
    cls = "Connection" if case["family"] == "old" else "ElectricalConnection"
    try:
        conns = [build_real(cls, g, {}) for g in case["conns"]]
    except (ValueError, TypeError) as e:
        return {"err": "ctor:" + type(e).__name__}
    return call_real(lambda: u.has_segment_fraction_info(conns))


# ------------------------------------------------------------------------------------------------
# model lines
# ------------------------------------------------------------------------------------------------
def model_lines(case):
    k = case["kind"]
    if k == "acc":
        return [json.dumps({"op": "acc", "cls": case["cls"], "m": m, "given": case["given"], "set": case["set"]})
                for m in METHODS[case["cls"]]]
    if k == "cellid":
        return [json.dumps({"op": "cellid", "cls": case["cls"], "arg": case["arg"]})]
    if k == "parse_delay":
        return [json.dumps({"op": "parse_delay", "arg": case["arg"]})]
    if k == "hsfi":
        return [json.dumps({"op": "hsfi", "cls": "Connection" if case["family"] == "old" else "ElectricalConnection",
                            "conns": case["conns"]})]
    if k == "doc":
        nets = []
        for net in case["nets"]:
            j = {"populations": [{"sub": {}, "instances": p["instances"], "size": p["size"]} for p in net["populations"]]}
            for L in ("projections", "electrical_projections", "continuous_projections", "input_lists"):
                j[L] = [{"sub": {a: len(v) for a, v in it.items() if isinstance(v, list)}} for it in net[L]]
            nets.append(j)
        out = [json.dumps({"op": "summary", "nets": nets})]
        r = REAL_DOCS.get(id(case))
        if r is not None and r.get("tree") is not None:
            out.append(json.dumps({"op": "summary_text", "doc": r["tree"]}))
        return out
    if k == "spec":
        return [json.dumps(dict(case["args"], op="spec"))]
    if k in ("match_time", "match_ref", "match_id"):
        return [json.dumps({"op": k, "s": case["s"]})]
    if k == "ref_parts":
        return [json.dumps(dict(case["parts"], op="ref_parts")), json.dumps({"op": "cellid", "cls": case["cls"], "arg": ref_parts_text(case["parts"])})]
    if k == "time_parts":
        return [json.dumps(dict(case["parts"], op="time_parts"))]
    raise ValueError(k)


# ------------------------------------------------------------------------------------------------
# comparison and oracle
# ------------------------------------------------------------------------------------------------
TOL = Fraction(1, 2 ** 52)


def q_of(res):
    v = res.get("ok") if isinstance(res, dict) else None
    if isinstance(v, dict) and "q" in v:
        return Fraction(int(v["q"][0]), int(v["q"][1]))
    return None


def same(real, model, tolerant):
    if real == model:
        return True
    a, b = q_of(real), q_of(model)
    if a is not None and b is not None:
        if a == b:
            return True
        # float(<decimal>) and float(<decimal>)*1000.0 round; the model computes the exact rational
        return tolerant and abs(a - b) <= TOL * abs(b)
    return False


def judge(e, real):
    """does the real result satisfy the expectation the harness recorded when it generated the input?"""
    if e["kind"] == "int":
        return real == {"ok": {"i": str(e["v"])}}
    if e["kind"] == "bool":
        return real == {"ok": e["v"]}
    if e["kind"] == "frac":
        q = q_of(real)
        return q is not None and q == Fraction(e["v"][0], e["v"][1])
    if e["kind"] == "delay":
        x = exact_time_value(e["num"])
        if x is None:
            return real == {"err": "ValueError"}          # "ms", "-s", "e5s": no number to return
        want = x * (1000 if e["unit"] == "s" else 1)
        q = q_of(real)
        return q is not None and abs(q - want) <= TOL * abs(want)
    return False


REAL_DOCS = {}      # id(case) -> result of c19_doc.run_real (filled before the driver runs: the model gets the object tree)


def check_doc(ctx, case, desc, mout, tmpdir):
    r = REAL_DOCS.pop(id(case), None)
    if r is None:
        r = DOC.run_real(case, tmpdir)
    which = r["which"]
    ctx.count("doc:" + which)
    text = r["text"]
    if r.get("unsupported"):
        ctx.count("doc:route-unsupported")
        return
    if isinstance(text, dict):
        ctx.disagree("summary", {"case": desc, "which": which}, text, "a summary text")
        ctx.fail("C19:summary:unreadable", "summary() (or the route to it) raised: %s" % text.get("err"),
                 {"case": case, "which": which, "real": text})
        return
    parsed = DOC.parse_summary(text)
    if "err" in parsed:
        ctx.fail("C19:summary:unreadable", "the summary text has no readable totals: %s" % parsed["err"],
                 {"case": case, "which": which, "text": text[:2000]})
        return
    flags = r.get("flags", case.get("flags") or {})
    # (a) the totals model (Props/C19: c19_total_*) against the real text
    ctx.corr_evals += 1
    model = mout[0].get("nets", [])
    got = [[n["totals"]["cells"][0], n["totals"]["cells"][1], n["totals"]["conns"][0], n["totals"]["conns"][1],
            n["totals"]["inputs"][0], n["totals"]["inputs"][1]] for n in parsed["nets"]]
    if got != [n.get("totals") for n in model]:
        ctx.disagree("summary", {"case": desc, "which": which}, got, [n.get("totals") for n in model])
    # (b) the full text against the model of the whole of summary()
    if len(mout) > 1 and r.get("tree") is not None:
        ctx.corr_evals += 1
        if mout[1] != {"ok": text}:
            ctx.disagree("summary-text", {"case": desc, "which": which}, first_diff(text, mout[1]), None)
    # (c) the reference: every determinate number / identifier against the generation record
    DOC.compare_summary(ctx, case, parsed, which, flags, r["lossy"])
    if r.get("handler") is not None:
        DOC.compare_handler(ctx, case, r["handler"])
        ctx.count("doc:handler-connections", len(r["handler"].conns))
    if which in ("reread", "h5", "h5opt"):
        ctx.count("doc:reread-accessor-evaluations", DOC.reread_accessor_checks(ctx, case, r["doc"], which))
    if "printed_same" in r and not r["printed_same"]:
        ctx.fail("C19:print_summary:text", "print_summary() does not print the text get_summary() returns", {"case": case})


def first_diff(text, m):
    """a short description of where the real text and the model's text part"""
    if not (isinstance(m, dict) and isinstance(m.get("ok"), str)):
        return {"real": text[:200], "model": m}
    a, b = text.split("\n"), m["ok"].split("\n")
    for i in range(max(len(a), len(b))):
        x, y = (a[i] if i < len(a) else None), (b[i] if i < len(b) else None)
        if x != y:
            return {"line": i, "real": x, "model": y}
    return {"same": True}


def check_case(ctx, case, mout, tmpdir=None):
    k = case["kind"]
    desc = {x: case[x] for x in case if x not in ("tags", "nontrivial", "expect", "path", "spelling")}
    ctx.seen(desc, nontrivial=bool(case.get("nontrivial")))
    for t in case.get("tags", []):
        ctx.count(t.split("|")[0] if t.startswith(("delay:", "parse_delay:")) else t)
    if k == "acc":
        real = real_acc(case)
        ctx.count("class:" + case["cls"])
        for m, ml in zip(METHODS[case["cls"]], mout):
            ctx.corr_evals += 1
            if not same(real[m], ml, tolerant=(m == "get_delay_in_ms")):
                ctx.disagree("accessors", {"case": desc, "method": m}, real[m], ml)
            e = case["expect"].get(m)
            if e is not None and not judge(e, real[m]):
                ctx.fail("C19:%s.%s:%s" % (case["cls"], m, e["in"]),
                         "%s.%s() does not return the referenced value (%s): got %s" % (case["cls"], m, e["why"], json.dumps(real[m])),
                         {"case": case, "method": m, "expected": e, "real": real[m]})
    elif k in ("cellid", "parse_delay", "hsfi"):
        real = {"cellid": real_cellid, "parse_delay": real_parse_delay, "hsfi": real_hsfi}[k](case)
        ctx.corr_evals += 1
        if not same(real, mout[0], tolerant=(k == "parse_delay")):
            ctx.disagree(k, desc, real, mout[0])
        e = case.get("expect")
        if e is not None and not judge(e, real):
            name = {"cellid": "%s._get_cell_id" % case.get("cls"), "parse_delay": "NeuroMLXMLParser._parse_delay",
                    "hsfi": "has_segment_fraction_info"}[k]
            ctx.fail("C19:%s:%s" % (name, e.get("in", "list")),
                     "%s does not return the referenced value (%s): got %s" % (name, e.get("why", ""), json.dumps(real)),
                     {"case": case, "expected": e, "real": real})
    elif k == "doc":
        check_doc(ctx, case, desc, mout, tmpdir)
    elif k == "match_time":
        ctx.corr_evals += 1
        trx = time_regex()[0]
        mo = trx.search(case["s"])
        real = {"match": mo is not None and len(mo.group(0)) == len(case["s"])}      # as gds_validate_simple_patterns does
        ctx.count("regex:match" if real["match"] else "regex:nomatch")
        real["rx"] = real["match"]                  # the `Rx` derived from the XSD decides the same language
        if real["match"]:
            body = case["s"][:-2] if case["s"].endswith("ms") else case["s"][:-1]
            real["num"] = body.rstrip()
            model = mout[0]
        else:
            model = {"match": mout[0].get("match"), "rx": mout[0].get("rx")}
        if real != model:
            ctx.disagree("time-pattern", case["s"], real, mout[0])
    elif k in ("match_ref", "match_id"):
        ctx.corr_evals += 1
        _, prx, irx = time_regex()
        rx_ = prx if k == "match_ref" else irx
        mo = rx_.search(case["s"]) if rx_ is not None else None
        real = {"rx": mo is not None and len(mo.group(0)) == len(case["s"])}     # as gds_validate_simple_patterns does
        ctx.count("%s:%s" % (case["tags"][0], "match" if real["rx"] else "nomatch"))
        if k == "match_id":
            real["isNmlId"] = real["rx"]           # the vocabulary of Props/C19 (`isNmlId`) is the schema's NmlId pattern
        if real != mout[0]:
            ctx.disagree("pattern-" + k[6:], case["s"], real, mout[0])
    elif k == "ref_parts":
        # (a) the reading is a string of the pattern, spelled as the theorems spell it; (b) what the statement-level
        # description says the code does on it, vs the real code and vs the translated model
        ctx.corr_evals += 2
        p = case["parts"]
        text = ref_parts_text(p)
        _, prx, _ = time_regex()
        if prx is not None and not prx.match(text):
            ctx.disagree("generator", text, "does not match Nml2PopulationReferencePath", None)
        want = {"text": text, "outcome": ref_parts_outcome(p)}
        if mout[0] != want:
            ctx.disagree("statement-vocabulary", p, want, mout[0])
        obj = build_real(case["cls"], {}, {})
        real = call_real(lambda: obj._get_cell_id(text))
        if real != mout[0].get("outcome"):
            ctx.disagree("ref-classification", {"parts": p, "text": text, "cls": case["cls"]}, real, mout[0].get("outcome"))
        if real != mout[1]:
            ctx.disagree("cellid", {"cls": case["cls"], "arg": text}, real, mout[1])
    elif k == "time_parts":
        ctx.corr_evals += 1
        x = exact_time_value(case["num"])
        want = {"text": case["num"], "value": None if x is None else [str(x.numerator), str(x.denominator)]}
        if mout[0] != want:
            ctx.disagree("statement-vocabulary", case["parts"], want, mout[0])
    elif k == "spec":
        ctx.corr_evals += 1
        if mout[0] != case["want"]:
            ctx.disagree("statement-vocabulary", case["args"], case["want"], mout[0])


def spec_case_of(path=None, spelling=None):
    """the strings the harness generates are exactly the ones the theorems quantify over (`CellPath`, `TimeSpelling`)"""
    args = {"pop": "p", "comp": "c", "digits": "0", "num": "", "ws": ""}
    want = None
    if path is not None:
        args.update({"pop": path["pop"], "comp": path["comp"], "digits": path["digits"]})
    if spelling is not None:
        args.update({"num": spelling["num"], "ws": spelling["ws"]})
    pop, comp, ds = args["pop"], args["comp"], args["digits"]
    want = {"pop_ok": True, "comp_ok": True, "digits_ok": True, "value": str(int(ds)),
            "slash": "../%s/%s/%s" % (pop, ds, comp), "slash_nocomp": "../%s/%s" % (pop, ds),
            "bracket": "%s[%s]" % (pop, ds), "dots_bracket": "../%s[%s]" % (pop, ds), "num_ok": True, "ws_ok": True}
    return {"kind": "spec", "args": args, "want": want, "tags": ["spec"], "nontrivial": False}


CORPUS = [
    # fixed defect 1: a stored fraction 0.0 came back as the default 0.5 (truthiness test)
    {"kind": "acc", "cls": "Input", "given": {"target": "../pop/3/comp", "segment_id": 0, "fraction_along": {"f": "0.0"}}, "set": {},
     "expect": {"get_target_cell_id": {"kind": "int", "v": 3, "why": "slash reference", "in": "path-slash"},
                "get_segment_id": {"kind": "int", "v": 0, "why": "zero segment_id", "in": "zero"},
                "get_fraction_along": {"kind": "frac", "v": [0, 1], "why": "zero fraction_along", "in": "zero"}},
     "tags": ["corpus"], "nontrivial": True},
    {"kind": "acc", "cls": "InputW", "given": {"target": "pop[3]", "fraction_along": {"f": "0.0"}, "weight": {"f": "0.0"}}, "set": {},
     "expect": {"get_fraction_along": {"kind": "frac", "v": [0, 1], "why": "zero fraction_along", "in": "zero"},
                "get_weight": {"kind": "frac", "v": [0, 1], "why": "zero weight", "in": "zero"}},
     "tags": ["corpus"], "nontrivial": True},
    # fixed defect 2: ExplicitInput has the segment accessors but not the attributes
    {"kind": "acc", "cls": "ExplicitInput", "given": {"target": "../pop_a/12/c_1"}, "set": {},
     "expect": {"get_target_cell_id": {"kind": "int", "v": 12, "why": "slash reference", "in": "path-slash"},
                "get_segment_id": {"kind": "int", "v": 0, "why": "an explicit input has no segment id", "in": "unset"},
                "get_fraction_along": {"kind": "frac", "v": [1, 2], "why": "an explicit input has no fraction", "in": "unset"}},
     "tags": ["corpus"], "nontrivial": True},
    # ids made of the unit letters, 10^9, leading zeros, both forms, with and without ../
    {"kind": "acc", "cls": "ConnectionWD", "given": {"pre_cell_id": "../ms/1000000000/s", "post_cell_id": "../e5[007]",
                                                      "weight": {"f": "0.0"}, "delay": "-1e-3s"}, "set": {},
     "expect": {"get_pre_cell_id": {"kind": "int", "v": 1000000000, "why": "slash reference", "in": "path-slash"},
                "get_post_cell_id": {"kind": "int", "v": 7, "why": "bracket reference", "in": "path-dots_bracket"},
                "get_pre_segment_id": {"kind": "int", "v": 0, "why": "unset", "in": "unset"},
                "get_post_fraction_along": {"kind": "frac", "v": [1, 2], "why": "unset", "in": "unset"},
                "get_delay_in_ms": {"kind": "delay", "num": "-1e-3", "unit": "s", "in": "time-s", "why": "neg|int|nofrac|e-|nows|s"}},
     "tags": ["corpus"], "nontrivial": True},
    {"kind": "acc", "cls": "ConnectionWD", "given": {"pre_cell_id": "a[0]", "post_cell_id": "../b/1", "delay": "1.5E2 \t ms"}, "set": {},
     "expect": {"get_delay_in_ms": {"kind": "delay", "num": "1.5E2", "unit": "ms", "in": "time-ms", "why": "pos|int|frac|E+|ws|ms"}},
     "tags": ["corpus"], "nontrivial": True},
    # degenerate spelling allowed by the pattern: no number at all
    {"kind": "parse_delay", "arg": "ms", "expect": {"kind": "delay", "num": "", "unit": "ms", "in": "time-ms", "why": "empty number"},
     "tags": ["corpus"], "nontrivial": False},
    {"kind": "cellid", "cls": "SynapticConnection", "arg": "x/5/c", "expect": None, "tags": ["corpus"], "nontrivial": False},
    {"kind": "hsfi", "family": "old", "conns": [{}, {"post_fraction_along": {"f": "0.0"}}], "expect": {"kind": "bool", "v": True},
     "tags": ["corpus"], "nontrivial": True},
]


def corpus_docs():
    """hand-made documents: every connection variant mixed in one projection of each kind, input and inputW mixed in
    one list, populations size-only / instances-only / both disagreeing / neither, unsorted ids, two networks,
    the flags, and the routes through XML, HDF5 and the handler-driving parser"""
    def ref(s, n):
        return {"s": s, "n": n}

    def conn(i, pre, post, extra=None, **kw):
        e = {"id": i, "pre": pre, "post": post, "pre_seg": None, "pre_segv": 0, "post_seg": None, "post_segv": 0,
             "pre_frac": None, "pre_fracv": [1, 2], "post_frac": None, "post_fracv": [1, 2]}
        e.update(kw)
        e.update(extra or {})
        return e

    def inp(i, target, seg=None, segv=0, frac=None, fracv=(1, 2), **kw):
        e = {"id": i, "target": target, "seg": seg, "segv": segv, "frac": frac, "fracv": list(fracv)}
        e.update(kw)
        return e
    P = lambda n: ref("../pa/%d/iz0" % n, n)      # noqa
    B = lambda n: ref("pb[%d]" % n, n)            # noqa
    I = lambda n: ref(str(n), n)                  # noqa
    net_b = {"id": "net_b", "temperature": None,
             "populations": [{"id": "zz", "component": "iz0", "size": 5, "instances": 0, "loc0": [0.0, 0.0, 2.5], "props": []},
                             {"id": "aa", "component": "iz0", "size": 9, "instances": 3, "loc0": [1.0, 1.5, 2.5], "props": [["color", "1 0 0"]]},
                             {"id": "m0", "component": "iz0", "size": None, "instances": 0, "loc0": [0.0, 0.0, 2.5], "props": []},
                             {"id": "_k", "component": "iz0", "size": None, "instances": 2, "loc0": [0.125, 0.0, 2.5], "props": []}],
             "projections": [{"id": "p1", "pre": "aa", "post": "zz", "syn": "syn0",
                              "connections": [conn(0, P(2), B(3), pre_seg=3, pre_segv=3, post_frac="0.25", post_fracv=[1, 4]), conn(1, P(1), P(0))],
                              "connection_wds": [conn(0, B(7), P(10), weight="0.0", weightv=[0, 1], delay="0.5 s", delayv=[500, 1])]},
                             {"id": "p0", "pre": "zz", "post": "aa", "syn": "syn0", "connections": [], "connection_wds": []}],
             "electrical_projections": [{"id": "e1", "pre": "aa", "post": "zz",
                                         "electrical_connections": [conn(0, I(1), I(2))],
                                         "electrical_connection_instances": [conn(0, P(4), P(5)), conn(1, P(6), B(7))],
                                         "electrical_connection_instance_ws": [conn(0, P(8), P(9), weight="0.25", weightv=[1, 4]),
                                                                               conn(1, P(8), P(9), weight=None, weightv=[1, 1]),
                                                                               conn(2, B(1), B(1), weight="0.0", weightv=[0, 1])]}],
             "continuous_projections": [{"id": "c1", "pre": "zz", "post": "aa",
                                         "continuous_connections": [conn(0, I(3), I(4))],
                                         "continuous_connection_instances": [conn(0, P(1), P(2))],
                                         "continuous_connection_instance_ws": [conn(0, P(3), P(4), weight="4.0", weightv=[4, 1]),
                                                                               conn(1, P(5), P(6), weight="0.5", weightv=[1, 2])]}],
             "input_lists": [{"id": "il1", "pop": "aa", "comp": "pg0", "input": [inp(0, P(1), 2, 2, "0.0", (0, 1)), inp(1, B(2))],
                              "input_ws": [inp(2, P(0), weight="0.5", weightv=[1, 2])]},
                             {"id": "il0", "pop": "zz", "comp": "pg0", "input": [],
                              "input_ws": [inp(0, P(3), weight="0.0", weightv=[0, 1]), inp(1, P(4), weight=None, weightv=[1, 1]),
                                           inp(2, B(4), 0, 0, "1.0", (1, 1), weight="2.0", weightv=[2, 1])]},
                             {"id": "il2", "pop": "zz", "comp": "pg0", "input": [], "input_ws": []}],
             "explicit_inputs": [{"target": B(1), "input": "pg0"}, {"target": P(2), "input": "pg0"}],
             "synaptic_connections": [{"from": P(3), "to": B(4), "syn": "syn0", "dest": None}]}
    net_a = {"id": "net_a", "temperature": "32degC", "populations": [], "projections": [], "electrical_projections": [],
             "continuous_projections": [], "input_lists": [], "explicit_inputs": [], "synaptic_connections": []}
    base = {"kind": "doc", "id": "corpus_doc", "flags": {}, "cells": 2, "pgs": 1, "includes": [], "ctypes": [], "props": [],
            "tags": ["corpus"], "nontrivial": True}
    out = [dict(base, via="direct", nets=[net_b, net_a], includes=["b.nml", "a.nml"], ctypes=["ct_1"], props=[["author", "x y"]]),
           dict(base, via="direct", nets=[net_b, net_a], includes=["b.nml"], ctypes=["ct_1"], flags={"show_includes": False}),
           dict(base, via="direct", nets=[net_a, net_b], includes=["b.nml"], flags={"show_non_network": False}),
           dict(base, via="xml", nets=[net_b, net_a]),
           dict(base, via="get_summary", nets=[net_b]),
           dict(base, via="xmlparser", nets=[dict(net_b, populations=[dict(p, size=p["size"] or 0) for p in net_b["populations"]])])]
    h5net = dict(net_b, explicit_inputs=[], synaptic_connections=[], input_lists=net_b["input_lists"][:2],
                 projections=net_b["projections"][:1],
                 populations=[dict(p, size=p["size"] or 0, props=[]) for p in net_b["populations"]])
    out.append(dict(base, via="h5", nets=[h5net]))
    out.append(dict(base, via="h5opt", nets=[dict(h5net, electrical_projections=[], continuous_projections=[],
                                                  input_lists=[dict(l, input_ws=[]) for l in h5net["input_lists"][:1]])]))
    return json.loads(json.dumps(out))


def run_cases(ctx, cases):
    import shutil
    import tempfile
    lines, spans = [], []
    tmp = None
    REAL_DOCS.clear()
    for c in cases:
        if c["kind"] == "doc":
            if tmp is None:
                tmp = tempfile.mkdtemp(prefix="verif_c19_")
            REAL_DOCS[id(c)] = DOC.run_real(c, tmp)
        ls = model_lines(c)
        spans.append((len(lines), len(ls)))
        lines += ls
    rc, out = fw.run_driver("C19", lines)
    if rc != 0 or len(out) != len(lines):
        ctx.disagree("driver", "driver failed rc=%s, %d lines for %d" % (rc, len(out), len(lines)), "\n".join(out[-5:]), None)
        REAL_DOCS.clear()
        if tmp:
            shutil.rmtree(tmp, ignore_errors=True)
        return
    mouts = [json.loads(l) for l in out]
    try:
        for c, (a, n) in zip(cases, spans):
            check_case(ctx, c, mouts[a:a + n], tmp)
    finally:
        REAL_DOCS.clear()
        if tmp:
            shutil.rmtree(tmp, ignore_errors=True)


_RX = []


def time_regex():
    if not _RX:
        _RX.append(_time_regex())
    return _RX[0]


def _time_regex():
    """the three patterns as shipped in nml.py (the first class that carries each table)"""
    out = []
    try:
        import inspect
        import neuroml.nml.nml as nml
        classes = [c for _, c in inspect.getmembers(nml, inspect.isclass)]
        for name in ("Nml2Quantity_time", "Nml2PopulationReferencePath", "NmlId"):
            pat = None
            for c in classes:
                t = c.__dict__.get("validate_%s_patterns_" % name)
                if t:
                    pat = t[0][0]
                    break
            out.append(re.compile(pat) if pat else None)
    except Exception:
        out = [None, None, None]
    if out[0] is None:
        out[0] = re.compile(TIME_RE_FALLBACK)
    return tuple(out)


def run(ctx):
    rng = ctx.rng
    mult = ctx.search_mult
    cases = [json.loads(json.dumps(c)) for c in CORPUS] + corpus_docs()
    ncorpus = len(cases)
    n_acc = ctx.n(2500, 60000) * mult
    for i in range(n_acc):
        cases.append(gen_acc_case(rng, ACC_CLASSES[i % len(ACC_CLASSES)] if i < 4 * len(ACC_CLASSES) else None))
    for _ in range(ctx.n(150, 3000) * mult):
        cases.append(gen_size_case(rng))
    # (a broken obligation multiplies the search; the streams that only compare recognisers get a smaller factor, so
    #  that the quick tier stays under two minutes)
    m5, m2 = min(mult, 5), min(mult, 2)
    for _ in range(ctx.n(1200, 30000) * m5):
        cases.append(gen_cellid_case(rng))
    for _ in range(ctx.n(1200, 30000) * m5):
        cases.append(gen_delay_case(rng))
    for _ in range(ctx.n(400, 8000) * m5):
        cases.append(gen_hsfi_case(rng))
    for _ in range(ctx.n(1500, 40000) * m2):
        cases.append(gen_regex_case(rng))
    for _ in range(ctx.n(700, 15000) * m2):
        cases.append(gen_refrx_case(rng))
    for _ in range(ctx.n(300, 5000) * m2):
        cases.append(gen_idrx_case(rng))
    for _ in range(ctx.n(500, 10000) * m5):
        cases.append(gen_refparts_case(rng))
    for _ in range(ctx.n(400, 6000) * min(mult, 3)):
        cases.append(DOC.gen_doc_case(rng, big=(ctx.tier == "thorough")))
    # the generated references / spellings are inside the schema patterns and inside the theorems' vocabulary
    trx, prx, _irx = time_regex()
    spec = []
    for c in cases:
        if c["kind"] == "cellid" and c.get("path"):
            if prx is not None and not prx.match(c["arg"]):
                ctx.disagree("generator", c["arg"], "does not match Nml2PopulationReferencePath", None)
            if len(spec) < ctx.n(150, 1500):
                spec.append(spec_case_of(path=c["path"]))
        if c["kind"] == "parse_delay" and c.get("spelling"):
            if not trx.match(c["arg"]):
                ctx.disagree("generator", c["arg"], "does not match Nml2Quantity_time", None)
            if len(spec) < ctx.n(300, 3000):
                spec.append(spec_case_of(spelling=c["spelling"]))
                spec.append({"kind": "time_parts", "parts": c["spelling"]["parts"], "num": c["spelling"]["num"], "tags": ["spec"],
                             "nontrivial": False})
    cases += spec
    for c in cases[ncorpus:ncorpus + 4]:
        ctx.sample({k: v for k, v in c.items() if k in ("kind", "cls", "given", "set", "arg", "conns")})
    for c in [c for c in cases[ncorpus:] if c["kind"] == "doc" and c["nets"]][:2]:
        ctx.sample({"kind": "doc", "via": c["via"], "flags": c["flags"],
                    "nets": [{"populations": [[p["instances"], p["size"]] for p in n["populations"]],
                              "lists": {L: [{a: len(v) for a, v in it.items() if isinstance(v, list)} for it in n[L]]
                                        for L in ("projections", "electrical_projections", "continuous_projections", "input_lists")},
                              "explicit_inputs": len(n["explicit_inputs"]), "synaptic_connections": len(n["synaptic_connections"])}
                             for n in c["nets"]]})
    run_cases(ctx, cases)
    ctx.extra["oracle_evaluations"] = sum(len(c.get("expect") or {}) if c["kind"] == "acc" else (1 if c.get("expect") else 0)
                                          for c in cases if c["kind"] != "doc") + 6 * sum(len(c["nets"]) for c in cases if c["kind"] == "doc")


def replay(ctx, payload):
    case = payload.get("case", payload)
    while isinstance(case, dict) and "kind" not in case and "case" in case:
        case = case["case"]
    run_cases(ctx, [case])
    return {"fails": bool(ctx.failures or ctx.corr_disagreements), "failures": ctx.failures,
            "disagreements": ctx.corr_disagreements}
