"""C19, documents: generator of whole NeuroML documents, a tolerant parser of the text of `NeuroMLDocument.summary()`,
the harness-side reference ("the actual numbers in the document", counted from the generation record), the object tree
handed to the Lean model of `summary()`, and the loaders/parsers through which a document reaches `summary()` and the
accessors (direct, XML re-read, HDF5 re-read, optimized HDF5 containers, `neuroml.utils.get_summary/print_summary`,
`NeuroMLXMLParser.parse` with a recording handler).

Imported by harness/props/c19.py (which owns the small generators: ids, reference paths, dyadic decimals, delays).
"""
import os
import re
from fractions import Fraction


def G():
    from props import c19
    return c19


# ------------------------------------------------------------------------------------------------
# generator
# ------------------------------------------------------------------------------------------------
VIAS = ["direct", "direct", "direct", "direct", "direct", "direct", "xml", "xml", "h5", "h5opt", "get_summary", "xmlparser"]

OLD_LISTS = ["connections", "connection_wds"]
EL_LISTS = ["electrical_connections", "electrical_connection_instances", "electrical_connection_instance_ws"]
CO_LISTS = ["continuous_connections", "continuous_connection_instances", "continuous_connection_instance_ws"]
LIST_CLASS = {
    "connections": "Connection", "connection_wds": "ConnectionWD",
    "electrical_connections": "ElectricalConnection", "electrical_connection_instances": "ElectricalConnectionInstance",
    "electrical_connection_instance_ws": "ElectricalConnectionInstanceW",
    "continuous_connections": "ContinuousConnection", "continuous_connection_instances": "ContinuousConnectionInstance",
    "continuous_connection_instance_ws": "ContinuousConnectionInstanceW",
    "input": "Input", "input_ws": "InputW",
}
# the label summary() prints after the count of each list
LIST_LABEL = {
    "connections": "connections", "connection_wds": "connections (wd)",
    "electrical_connections": "connections", "electrical_connection_instances": "connections",
    "electrical_connection_instance_ws": "connections",
    "continuous_connections": "connections", "continuous_connection_instances": "connections",
    "continuous_connection_instance_ws": "connections (w)",
    "input": "inputs", "input_ws": "inputs",
}


def _ref(rng, pops, plain=False, small=False):
    """a reference spec {"s": text, "n": index}; plain: an index, not a path (ElectricalConnection/ContinuousConnection)"""
    g = G()
    if plain:
        n = g.gen_index(rng) % (10 ** 6 if small else 10 ** 15)
        return {"s": str(n), "n": n}
    p = g.gen_path(rng, form="slash" if small else None)
    if small:
        n = p["n"] % 10 ** 6
        pop = rng.choice(pops) if pops else p["pop"]
        return {"s": "../%s/%d/%s" % (pop, n, p["comp"]), "n": n}
    return {"s": p["s"], "n": p["n"]}


def _enc(v):
    """ABSENT stays out of the keyword arguments"""
    return v


def gen_elem(rng, lst, i, pops, small=False):
    """one connection / input of the list `lst`; every value is recorded so that the oracle knows what was put in"""
    g = G()
    cls = LIST_CLASS[lst]
    e = {"id": i}
    if cls in ("Input", "InputW"):
        e["target"] = _ref(rng, pops, small=small)
        seg, segv, _ = g.gen_segment(rng)
        fr, frv, _ = g.gen_fraction(rng)
        e["seg"], e["segv"] = (None if seg is g.ABSENT else seg), segv
        e["frac"], e["fracv"] = (None if fr is g.ABSENT else fr["f"]), [frv.numerator, frv.denominator]
        if cls == "InputW":
            w, wv, _ = g.gen_weight(rng)
            e["weight"], e["weightv"] = (None if w is g.ABSENT else w["f"]), [wv.numerator, wv.denominator]
        return e
    plain = cls in ("ElectricalConnection", "ContinuousConnection")
    e["pre"], e["post"] = _ref(rng, pops, plain, small), _ref(rng, pops, plain, small)
    for side in ("pre", "post"):
        seg, segv, _ = g.gen_segment(rng)
        fr, frv, _ = g.gen_fraction(rng)
        if rng.random() < 0.5:                       # most connections of real files carry no segment information
            seg, segv, fr, frv = g.ABSENT, 0, g.ABSENT, Fraction(1, 2)
        e[side + "_seg"], e[side + "_segv"] = (None if seg is g.ABSENT else seg), segv
        e[side + "_frac"], e[side + "_fracv"] = (None if fr is g.ABSENT else fr["f"]), [frv.numerator, frv.denominator]
    if cls.endswith("W") or cls == "ConnectionWD":
        w, wv, _ = g.gen_weight(rng)
        if cls == "ConnectionWD" and w is g.ABSENT:   # str(ConnectionWD) needs a weight
            w, wv = {"f": "1.0"}, Fraction(1)
        e["weight"], e["weightv"] = (None if w is g.ABSENT else w["f"]), [wv.numerator, wv.denominator]
    if cls == "ConnectionWD":
        while True:
            t = g.gen_time_spelling(rng)
            x = g.exact_time_value(t["num"])
            if x is not None and abs(x) < 10 ** 12 and (x == 0 or abs(x) > Fraction(1, 10 ** 9)):
                break
        e["delay"] = t["s"]
        ms = x * (1000 if t["unit"] == "s" else 1)
        e["delayv"] = [ms.numerator, ms.denominator]
    return e


def gen_doc_case(rng, big=False, via=None):
    g = G()
    via = via or rng.choice(VIAS)
    h5 = via in ("h5", "h5opt", "get_summary_h5")
    small = h5
    used = set()

    def fresh():
        for _ in range(50):
            i = g.gen_id(rng)
            if i not in used and len(i) < 30 and i not in ("None",):
                used.add(i)
                return i
        i = "id_%d" % len(used)
        used.add(i)
        return i
    hi = 6 if big else 3

    def cnt():
        return rng.choice([0, 0, 1, 1, 2, rng.randint(0, hi)])
    nets = []
    nnets = 1 if h5 or via == "xmlparser" else rng.choice([0, 1, 1, 1, 1, 2, 3])
    for _ in range(nnets):
        pops = []
        for _ in range(rng.choice([0, 1, 2, 3, 4] + ([8] if big else []))):
            inst = rng.choice([0, 0, 1, 2, 4])
            if via == "h5" and inst == 0 and rng.random() < 0.8:
                inst = rng.choice([1, 2, 3])         # the HDF5 loader rebuilds weighted gap junctions only between instance lists
            size = rng.choice([None, 0, 1, 5, inst, inst + 3, rng.randint(0, 5000)])
            if (h5 or via == "xmlparser") and inst == 0 and size is None:
                size = rng.randint(0, 9)
            if via == "xmlparser" and inst == 0:
                size = min(size, 12)                  # the parser calls the handler once per cell
            p = {"id": fresh(), "component": "iz0", "size": size, "instances": inst,
                 "loc0": [rng.choice([0.0, 1.0, -3.0, 2.5, 0.125, 100.0]), rng.choice([0.0, 1.5]), 2.5],
                 "props": ([[rng.choice(["color", "radius", "t_1"]), rng.choice(["1 0 0", "5", "a b"])]
                            for _ in range(rng.choice([1, 2]))] if rng.random() < 0.25 else [])}
            if via == "get_summary" and p["props"]:
                p["props"] = [p["props"][0]]
            pops.append(p)
        if h5 and not pops:
            pops.append({"id": fresh(), "component": "iz0", "size": 3, "instances": 0, "loc0": [0.0, 0.0, 2.5], "props": []})
        popids = [p["id"] for p in pops] or ["pa"]

        def proj(lists, kind):
            d = {"id": fresh(), "pre": rng.choice(popids), "post": rng.choice(popids)}
            if kind == "chem":
                d["syn"] = "syn0"
            mix = rng.random()
            for L in lists:
                k = cnt()
                if mix < 0.35 and k == 0:
                    k = rng.choice([1, 2])            # every variant present in one projection
                d[L] = [gen_elem(rng, L, i, popids, small) for i in range(k)]
            return d
        net = {"id": fresh(), "temperature": rng.choice([None, None, "32degC", "6.3 degC"]), "populations": pops,
               "projections": [proj(OLD_LISTS, "chem") for _ in range(rng.choice([0, 1, 2, 3]))],
               "electrical_projections": [proj(EL_LISTS, "el") for _ in range(rng.choice([0, 0, 1, 2]))],
               "continuous_projections": [proj(CO_LISTS, "co") for _ in range(rng.choice([0, 0, 1, 2]))],
               "input_lists": [], "explicit_inputs": [], "synaptic_connections": []}
        for _ in range(rng.choice([0, 1, 2, 3])):
            il = {"id": fresh(), "pop": rng.choice(popids), "comp": "pg0"}
            mix = rng.random()
            for L in ("input", "input_ws"):
                k = cnt()
                if mix < 0.4 and k == 0:
                    k = rng.choice([1, 2])            # input and inputW mixed in one list
                il[L] = [gen_elem(rng, L, i, popids, small) for i in range(k)]
            net["input_lists"].append(il)
        if not h5:
            for _ in range(rng.choice([0, 0, 1, 3])):
                net["explicit_inputs"].append({"target": _ref(rng, popids), "input": "pg0"})
            for _ in range(rng.choice([0, 0, 1, 2])):
                net["synaptic_connections"].append({"from": _ref(rng, popids), "to": _ref(rng, popids), "syn": "syn0",
                                                    "dest": rng.choice([None, "synapses"])})
        if via == "h5opt":
            net["electrical_projections"], net["continuous_projections"] = [], []
            for il in net["input_lists"]:
                il["input_ws"] = []
        if h5 or via == "xmlparser":
            # the HDF5 writer and the handler-driving parser need non-empty electrical / continuous projections (they
            # read the synapse / components off the connections) and the writer non-empty input lists
            net["electrical_projections"] = [p for p in net["electrical_projections"] if any(p[L] for L in EL_LISTS)]
            net["continuous_projections"] = [p for p in net["continuous_projections"] if any(p[L] for L in CO_LISTS)]
        if h5:
            net["input_lists"] = [l for l in net["input_lists"] if l["input"] or l["input_ws"]]
        nets.append(net)
    flags = {}
    if via in ("direct", "xml") and rng.random() < 0.45:
        flags = rng.choice([{"show_includes": False}, {"show_non_network": False}, {"show_includes": True, "show_non_network": True},
                            {"show_includes": False, "show_non_network": False}])
    case = {"kind": "doc", "id": rng.choice(["doc_%d" % rng.randint(0, 999), fresh()]), "via": via, "flags": flags,
            "cells": rng.choice([1, 1, 2, 3]), "pgs": rng.choice([1, 1, 2]),
            "includes": ([rng.choice(["a.nml", "cells/b.cell.nml", "z_9.nml"]) for _ in range(rng.choice([1, 2]))]
                         if via == "direct" and rng.random() < 0.3 else []),
            "ctypes": ([fresh() for _ in range(rng.choice([1, 2]))] if via == "direct" and rng.random() < 0.25 else []),
            "props": ([[rng.choice(["author", "k_2"]), rng.choice(["x", "1 2", "v_0"])] for _ in range(rng.choice([1, 2]))]
                      if via == "direct" and rng.random() < 0.25 else []),
            "nets": nets, "tags": ["doc:nets%d" % len(nets), "doc:via:" + via]}
    case["nontrivial"] = any(len(n["populations"]) >= 2 and any(sum(len(p[L]) for L in OLD_LISTS) > 0 for p in n["projections"])
                             for n in nets)
    return case


# ------------------------------------------------------------------------------------------------
# the real document
# ------------------------------------------------------------------------------------------------
def _f(dec):
    return None if dec is None else float(dec)


def build_elem(lst, e):
    import neuroml as n
    cls = LIST_CLASS[lst]
    kw = {"id": e["id"]}
    if cls in ("Input", "InputW"):
        kw.update(target=e["target"]["s"], destination="synapses")
        if e["seg"] is not None:
            kw["segment_id"] = e["seg"]
        if e["frac"] is not None:
            kw["fraction_along"] = _f(e["frac"])
        if cls == "InputW" and e["weight"] is not None:
            kw["weight"] = _f(e["weight"])
        return getattr(n, cls)(**kw)
    old = cls in ("Connection", "ConnectionWD")
    kw["pre_cell_id" if old else "pre_cell"] = e["pre"]["s"]
    kw["post_cell_id" if old else "post_cell"] = e["post"]["s"]
    for side in ("pre", "post"):
        if e[side + "_seg"] is not None:
            kw[side + ("_segment_id" if old else "_segment")] = e[side + "_seg"]
        if e[side + "_frac"] is not None:
            kw[side + "_fraction_along"] = _f(e[side + "_frac"])
    if "weight" in e and e["weight"] is not None:
        kw["weight"] = _f(e["weight"])
    if cls == "ConnectionWD":
        kw["delay"] = e["delay"]
    if cls.startswith("Electrical"):
        kw["synapse"] = "gj0"
    if cls.startswith("Continuous"):
        kw.update(pre_component="ss0", post_component="gs0")
    return getattr(n, cls)(**kw)


def build_doc(case):
    import neuroml as n
    doc = n.NeuroMLDocument(id=case["id"])
    for k in range(case["cells"]):
        doc.izhikevich_cells.append(n.IzhikevichCell(id="iz%d" % k, v0="-70mV", thresh="30mV", a="0.02", b="0.2", c="-65", d="6"))
    for k in range(case["pgs"]):
        doc.pulse_generators.append(n.PulseGenerator(id="pg%d" % k, delay="0ms", duration="1ms", amplitude="1nA"))
    if case["via"] != "direct":
        # referenced components, so that the re-read / handler paths can resolve them
        doc.exp_one_synapses.append(n.ExpOneSynapse(id="syn0", gbase="1nS", erev="0mV", tau_decay="2ms"))
        doc.gap_junctions.append(n.GapJunction(id="gj0", conductance="1nS"))
        doc.silent_synapses.append(n.SilentSynapse(id="ss0"))
        doc.graded_synapses.append(n.GradedSynapse(id="gs0", conductance="1nS", delta="5mV", Vth="-55mV", k="0.025per_ms", erev="0mV"))
    for h in case["includes"]:
        doc.includes.append(n.IncludeType(href=h))
    for c in case["ctypes"]:
        doc.ComponentType.append(n.ComponentType(name=c))
    for t, v in case["props"]:
        doc.properties.append(n.Property(tag=t, value=v))
    for spec in case["nets"]:
        net = n.Network(id=spec["id"], temperature=spec["temperature"])
        doc.networks.append(net)
        for p in spec["populations"]:
            pop = n.Population(id=p["id"], component=p["component"], size=p["size"],
                               type="populationList" if p["instances"] else None)
            for i in range(p["instances"]):
                x, y, z = p["loc0"]
                pop.instances.append(n.Instance(id=i, location=n.Location(x=x + i, y=y, z=z)))
            for t, v in p["props"]:
                pop.properties.append(n.Property(tag=t, value=v))
            net.populations.append(pop)
        for p in spec["projections"]:
            pr = n.Projection(id=p["id"], presynaptic_population=p["pre"], postsynaptic_population=p["post"], synapse=p["syn"])
            for L in OLD_LISTS:
                for e in p[L]:
                    getattr(pr, L).append(build_elem(L, e))
            net.projections.append(pr)
        for p in spec["electrical_projections"]:
            ep = n.ElectricalProjection(id=p["id"], presynaptic_population=p["pre"], postsynaptic_population=p["post"])
            for L in EL_LISTS:
                for e in p[L]:
                    getattr(ep, L).append(build_elem(L, e))
            net.electrical_projections.append(ep)
        for p in spec["continuous_projections"]:
            cp = n.ContinuousProjection(id=p["id"], presynaptic_population=p["pre"], postsynaptic_population=p["post"])
            for L in CO_LISTS:
                for e in p[L]:
                    getattr(cp, L).append(build_elem(L, e))
            net.continuous_projections.append(cp)
        for l in spec["input_lists"]:
            il = n.InputList(id=l["id"], populations=l["pop"], component=l["comp"])
            for L in ("input", "input_ws"):
                for e in l[L]:
                    getattr(il, L).append(build_elem(L, e))
            net.input_lists.append(il)
        for e in spec["explicit_inputs"]:
            net.explicit_inputs.append(n.ExplicitInput(target=e["target"]["s"], input=e["input"]))
        for e in spec["synaptic_connections"]:
            net.synaptic_connections.append(n.SynapticConnection(from_=e["from"]["s"], to=e["to"]["s"], synapse=e["syn"],
                                                                 destination=e["dest"]))
    return doc


# ------------------------------------------------------------------------------------------------
# tolerant parser of the summary text
# ------------------------------------------------------------------------------------------------
RX_NET = re.compile(r"^\*\s+Network: (\S*?)(?: \(temperature: (.*)\))?$")
RX_TOT = [("cells", re.compile(r"^\*\s+(\d+) cells in (\d+) populations\s*$")),
          ("conns", re.compile(r"^\*\s+(\d+) connections in (\d+) projections\s*$")),
          ("inputs", re.compile(r"^\*\s+(\d+) inputs in (\d+) input lists\s*$"))]
RX_POP = re.compile(r"^\*\s+Population(?: \(optimized\))?: (\S+) with (\d+) components of type (\S+)$")
RX_PROJ = re.compile(r"^\*\s+Projection(?: \(optimized\))?: (\S+) from (\S+) to (\S+), synapse: (\S+)$")
RX_EPROJ = re.compile(r"^\*\s+Electrical projection: (\S+) from (\S+) to (\S+)$")
RX_CPROJ = re.compile(r"^\*\s+Continuous projection: (\S+) from (\S+) to (\S+)$")
RX_IL = re.compile(r"^\*\s+Input list(?: \(optimized\))?: (\S+) to (\S+), component (\S+)$")
RX_SUB = re.compile(r"^\*\s+(\d+) (connections|inputs)(?: \((wd|w)\))?: \[\((.*)\), \.\.\.\]$")
RX_LOC = re.compile(r"^\*\s+Locations: \[(.*), \.\.\.\]$")
RX_PROPS = re.compile(r"^\*\s+Properties: (.*)$")
RX_XSYN = re.compile(r"^\*\s+(\d+) explicit synaptic connections \(outside of projections\)$")
RX_XINP = re.compile(r"^\*\s+(\d+) explicit inputs \(outside of input lists\)$")
RX_MEMB = re.compile(r"^\*\s+([A-Za-z_][A-Za-z0-9_]*): (\[.*\])$")
RX_DOC = re.compile(r"^\* NeuroMLDocument: (.*)$")
RX_BANNER = re.compile(r"^\*{20,}$")


def parse_summary(text):
    """-> {"doc": id, "members": [[class, [entries]]], "nets": [...], "other": [unclassified lines]} or {"err": why}.
    Line oriented; every line is classified by its content (not by its position), unknown lines are kept aside."""
    import ast as _ast
    out = {"doc": None, "members": [], "nets": [], "other": [], "banners": 0}
    net, item, section = None, None, None
    for raw in text.split("\n"):
        line = raw.rstrip("\r")
        if RX_BANNER.match(line):
            out["banners"] += 1
            continue
        if line.strip() in ("*", ""):
            continue
        m = RX_DOC.match(line)
        if m and net is None and out["doc"] is None:
            out["doc"] = m.group(1)
            continue
        m = RX_NET.match(line)
        if m:
            net = {"id": m.group(1), "temperature": m.group(2), "totals": {}, "order": [], "populations": [], "projections": [],
                   "input_lists": [], "xsyn": None, "xsyn_lines": [], "xinp": None, "xinp_lines": []}
            out["nets"].append(net)
            item, section = None, None
            continue
        if net is None:
            m = RX_MEMB.match(line)
            if m:
                try:
                    entries = _ast.literal_eval(m.group(2))
                except Exception:
                    entries = None
                if isinstance(entries, list):
                    out["members"].append([m.group(1), entries])
                    continue
            out["other"].append(line)
            continue
        hit = False
        for name, rx in RX_TOT:
            m = rx.match(line)
            if m:
                if name in net["totals"]:
                    return {"err": "two `%s` total lines in one network block" % name}
                net["totals"][name] = [int(m.group(1)), int(m.group(2))]
                net["order"].append(name)
                section, item, hit = name, None, True
        if hit:
            continue
        m = RX_XSYN.match(line)
        if m:
            net["xsyn"], section, item = int(m.group(1)), "xsyn", None
            continue
        m = RX_XINP.match(line)
        if m:
            net["xinp"], section, item = int(m.group(1)), "xinp", None
            continue
        m = RX_POP.match(line)
        if m and section == "cells":
            item = {"kind": "population", "id": m.group(1), "size": int(m.group(2)), "component": m.group(3), "loc": None, "props": None}
            net["populations"].append(item)
            continue
        m = RX_PROJ.match(line) if section == "conns" else None
        if m:
            item = {"kind": "projection", "id": m.group(1), "pre": m.group(2), "post": m.group(3), "syn": m.group(4), "subs": []}
            net["projections"].append(item)
            continue
        m = (RX_EPROJ.match(line) or RX_CPROJ.match(line)) if section == "conns" else None
        if m:
            item = {"kind": "electrical_projection" if "Electrical" in line.split(":")[0] else "continuous_projection",
                    "id": m.group(1), "pre": m.group(2), "post": m.group(3), "subs": []}
            net["projections"].append(item)
            continue
        m = RX_IL.match(line) if section == "inputs" else None
        if m:
            item = {"kind": "input_list", "id": m.group(1), "pop": m.group(2), "comp": m.group(3), "subs": []}
            net["input_lists"].append(item)
            continue
        m = RX_SUB.match(line)
        if m and item is not None and "subs" in item:
            item["subs"].append({"n": int(m.group(1)), "what": m.group(2), "mark": m.group(3), "first": m.group(4)})
            continue
        m = RX_LOC.match(line)
        if m and item is not None and item["kind"] == "population":
            item["loc"] = m.group(1)
            continue
        m = RX_PROPS.match(line)
        if m and item is not None and item["kind"] == "population":
            item["props"] = m.group(1)
            continue
        if section == "xsyn":
            net["xsyn_lines"].append(line)
            continue
        if section == "xinp":
            net["xinp_lines"].append(line)
            continue
        out["other"].append(line)
    for n_ in out["nets"]:
        if sorted(n_["totals"]) != ["cells", "conns", "inputs"]:
            return {"err": "network block `%s` has total lines %s" % (n_["id"], sorted(n_["totals"]))}
    if out["doc"] is None:
        return {"err": "no document line"}
    return out


# ------------------------------------------------------------------------------------------------
# the reference: what the document holds, from the generation record
# ------------------------------------------------------------------------------------------------
def pop_cells(p):
    """the actual number of cells of a population: the instances it lists when it lists any (they are the cells in the
    document; `size` is then a redundant declaration), otherwise the declared size, otherwise none"""
    return p["instances"] if p["instances"] > 0 else (p["size"] or 0)


def counted_totals(net):
    cells = sum(pop_cells(p) for p in net["populations"])
    conns = (sum(len(p[L]) for p in net["projections"] for L in OLD_LISTS)
             + sum(len(p[L]) for p in net["electrical_projections"] for L in EL_LISTS)
             + sum(len(p[L]) for p in net["continuous_projections"] for L in CO_LISTS))
    projs = len(net["projections"]) + len(net["electrical_projections"]) + len(net["continuous_projections"])
    inputs = sum(len(l["input"]) + len(l["input_ws"]) for l in net["input_lists"])
    return {"cells": [cells, len(net["populations"])], "conns": [conns, projs], "inputs": [inputs, len(net["input_lists"])]}


TOTAL_KEYS = {"cells": ("cells", "populations"), "conns": ("connections", "projections"), "inputs": ("inputs", "input-lists")}

RX_FIRST_CONN = re.compile(r"^[A-Za-z &()]*?(\d+): (\d+)(?::(\d+)\(([0-9.]+)\))? -> (\d+)(?::(\d+)\(([0-9.]+)\))?(?:,|$)")
RX_FIRST_INPUT = re.compile(r"^Input(?: \(weight\))? (\d+): (\d+):(\d+)\(([0-9.]+)\)")
RX_CELL = re.compile(r"\(cell (\d+)\)")


def expected_members(case, flags):
    """the member lines of the header: class name and sorted entries, in the order of the attribute names"""
    si, sn = flags.get("show_includes", True), flags.get("show_non_network", True)
    rows = []
    if case["ctypes"]:
        rows.append(("ComponentType", "ComponentType", list(case["ctypes"])))
    if case["via"] != "direct":
        rows.append(("exp_one_synapses", "ExpOneSynapse", ["syn0"]))
        rows.append(("gap_junctions", "GapJunction", ["gj0"]))
        rows.append(("graded_synapses", "GradedSynapse", ["gs0"]))
    if case["includes"]:
        rows.append(("includes", "IncludeType", list(case["includes"])))
    rows.append(("izhikevich_cells", "IzhikevichCell", ["iz%d" % k for k in range(case["cells"])]))
    if case["props"]:
        rows.append(("properties", "Property", ["%s = %s" % (t, v) for t, v in case["props"]]))
    rows.append(("pulse_generators", "PulseGenerator", ["pg%d" % k for k in range(case["pgs"])]))
    if case["via"] != "direct":
        rows.append(("silent_synapses", "SilentSynapse", ["ss0"]))
    rows.sort(key=lambda r: r[0])
    out = []
    for attr, cls, entries in rows:
        if (attr == "includes" and si) or (attr != "includes" and sn):
            out.append([cls, sorted(entries)])
    return out


def compare_summary(ctx, case, parsed, which, flags, lossy=()):
    """every determinate number / identifier of the parsed summary against the generation record.
    `lossy`: aspects the loader is known not to preserve (HDF5), which are then not judged."""
    def fail(what, msg, extra=None):
        ctx.fail("C19:summary:%s%s" % (what, "" if which == "first" else ":" + which), msg,
                 {"case": case, "which": which, "detail": extra})
    nets = case["nets"]
    if len(parsed["nets"]) != len(nets):
        fail("network-count", "summary() reports %d network blocks, the document has %d networks" % (len(parsed["nets"]), len(nets)))
        return
    if parsed["doc"] != case["id"] and "doc-id" not in lossy:
        fail("document-id", "summary() names the document %r, its id is %r" % (parsed["doc"], case["id"]))
    if "members" not in lossy:
        want = expected_members(case, flags)
        if parsed["members"] != want:
            fail("members", "header lists %s, the document holds %s" % (parsed["members"], want))
    for pn, net in zip(parsed["nets"], nets):
        if pn["id"] != net["id"]:
            fail("network-id", "block for network %r is labelled %r (document order)" % (net["id"], pn["id"]))
            continue
        if "temperature" not in lossy and (pn["temperature"] or None) != (net["temperature"] or None):
            fail("temperature", "network %s: temperature shown %r, stored %r" % (net["id"], pn["temperature"], net["temperature"]))
        want = counted_totals(net)
        for k in ("cells", "conns", "inputs"):
            for j in (0, 1):
                if pn["totals"][k][j] != want[k][j]:
                    fail(TOTAL_KEYS[k][j], "summary() reports %d %s, the document has %d" % (pn["totals"][k][j], TOTAL_KEYS[k][j], want[k][j]),
                         {"reported": pn["totals"], "counted": want})
        # populations: sorted by id, each with its own size
        wp = sorted(net["populations"], key=lambda p: p["id"])
        # (lines are matched to the objects by id: the order of the lines is layout, not a number the summary reports)
        pn["populations"].sort(key=lambda p: p["id"])
        pn["projections"].sort(key=lambda p: (p["kind"], p["id"]))
        pn["input_lists"].sort(key=lambda l: l["id"])
        if [p["id"] for p in pn["populations"]] != [p["id"] for p in wp]:
            fail("population-lines", "population lines %s, populations (sorted) %s" % ([p["id"] for p in pn["populations"]], [p["id"] for p in wp]))
        else:
            for a, b in zip(pn["populations"], wp):
                if a["size"] != pop_cells(b):
                    fail("population-size", "population %s shown with %d components, it has %d cells" % (b["id"], a["size"], pop_cells(b)))
                if (a["loc"] is not None) != (b["instances"] > 0) and "locations" not in lossy:
                    fail("population-locations", "population %s: location line %s, %d instances" % (b["id"], a["loc"], b["instances"]))
                if "props" not in lossy:
                    wprops = "".join("%s=%s; " % (t, v) for t, v in b["props"]).rstrip() or None
                    if (a["props"] or "").rstrip() != (wprops or ""):
                        fail("population-properties", "population %s: properties shown %r, stored %r" % (b["id"], a["props"], wprops))
        # projections: the three kinds in turn, each sorted by id; per list the count, the label and the first element
        wj = ([("projection", p, OLD_LISTS) for p in sorted(net["projections"], key=lambda p: p["id"])]
              + [("electrical_projection", p, EL_LISTS) for p in sorted(net["electrical_projections"], key=lambda p: p["id"])]
              + [("continuous_projection", p, CO_LISTS) for p in sorted(net["continuous_projections"], key=lambda p: p["id"])])
        wj.sort(key=lambda t: (t[0], t[1]["id"]))
        if [(p["kind"], p["id"]) for p in pn["projections"]] != [(k, p["id"]) for k, p, _ in wj]:
            fail("projection-lines", "projection lines %s, projections %s" % ([(p["kind"], p["id"]) for p in pn["projections"]],
                                                                              [(k, p["id"]) for k, p, _ in wj]))
        else:
            for a, (k, b, lists) in zip(pn["projections"], wj):
                if (a["pre"], a["post"]) != (b["pre"], b["post"]):
                    fail("projection-populations", "projection %s shown from %s to %s, stored %s -> %s" % (b["id"], a["pre"], a["post"], b["pre"], b["post"]))
                if "merged-lists" in lossy:
                    if sum(s["n"] for s in a["subs"]) != sum(len(b[L]) for L in lists):
                        fail("list-count", "projection %s: list lines add up to %d, it has %d connections" % (
                            b["id"], sum(s["n"] for s in a["subs"]), sum(len(b[L]) for L in lists)))
                    continue
                wsubs = [(L, b[L]) for L in lists if b[L]]
                if [(s["n"], s["what"] + (" (%s)" % s["mark"] if s["mark"] else "")) for s in a["subs"]] != [(len(v), LIST_LABEL[L]) for L, v in wsubs]:
                    fail("list-count:" + k, "projection %s: list lines %s, lists %s" % (
                        b["id"], [(s["n"], s["what"], s["mark"]) for s in a["subs"]], [(L, len(v)) for L, v in wsubs]))
                    continue
                for s, (L, v) in zip(a["subs"], wsubs):
                    m = RX_FIRST_CONN.match(s["first"])
                    if not m:
                        ctx.count("doc:first-unparsed")
                        continue
                    e = v[0]
                    got = (int(m.group(1)), int(m.group(2)), int(m.group(5)))
                    if got != (e["id"], e["pre"]["n"], e["post"]["n"]) and "first" not in lossy:
                        fail("first-connection:" + L, "projection %s: first %s shown as id %d, cells %d -> %d; stored id %d, %s -> %s" % (
                            b["id"], L, got[0], got[1], got[2], e["id"], e["pre"]["s"], e["post"]["s"]))
                    for side, gs, gf in (("pre", m.group(3), m.group(4)), ("post", m.group(6), m.group(7))):
                        if gs is None or "first" in lossy:
                            continue
                        fr = Fraction(*e[side + "_fracv"])
                        if int(gs) != e[side + "_segv"] or abs(Fraction(gf) - fr) > Fraction(1, 10 ** 5):
                            fail("first-connection-segment:" + L, "projection %s: first %s shows %s segment %s(%s), stored %d(%s)" % (
                                b["id"], L, side, gs, gf, e[side + "_segv"], float(fr)))
        wl = sorted(net["input_lists"], key=lambda l: l["id"])
        if [l["id"] for l in pn["input_lists"]] != [l["id"] for l in wl]:
            fail("input-list-lines", "input list lines %s, input lists %s" % ([l["id"] for l in pn["input_lists"]], [l["id"] for l in wl]))
        else:
            for a, b in zip(pn["input_lists"], wl):
                if (a["pop"], a["comp"]) != (b["pop"], b["comp"]):
                    fail("input-list-target", "input list %s shown to %s/%s, stored %s/%s" % (b["id"], a["pop"], a["comp"], b["pop"], b["comp"]))
                if "merged-lists" in lossy:
                    if sum(s["n"] for s in a["subs"]) != len(b["input"]) + len(b["input_ws"]):
                        fail("list-count", "input list %s: lines add up to %d, it has %d inputs" % (
                            b["id"], sum(s["n"] for s in a["subs"]), len(b["input"]) + len(b["input_ws"])))
                    continue
                wsubs = [(L, b[L]) for L in ("input", "input_ws") if b[L]]
                if [s["n"] for s in a["subs"]] != [len(v) for _, v in wsubs]:
                    fail("list-count:input_list", "input list %s: list lines %s, lists %s" % (b["id"], [s["n"] for s in a["subs"]], [(L, len(v)) for L, v in wsubs]))
                    continue
                for s, (L, v) in zip(a["subs"], wsubs):
                    m = RX_FIRST_INPUT.match(s["first"])
                    if not m:
                        ctx.count("doc:first-unparsed")
                        continue
                    e = v[0]
                    fr = Fraction(*e["fracv"])
                    if (int(m.group(1)), int(m.group(2)), int(m.group(3))) != (e["id"], e["target"]["n"], e["segv"]) \
                            or abs(Fraction(m.group(4)) - fr) > Fraction(1, 10 ** 6):
                        fail("first-input:" + L, "input list %s: first %s shown as %s, stored id %d target %s segment %d fraction %s" % (
                            b["id"], L, s["first"], e["id"], e["target"]["s"], e["segv"], float(fr)))
        for key, stored, shown, lines, label in (("explicit-synaptic-connections", net["synaptic_connections"], pn["xsyn"], pn["xsyn_lines"], "from"),
                                                 ("explicit-inputs", net["explicit_inputs"], pn["xinp"], pn["xinp_lines"], "target")):
            if (shown or 0) != len(stored) or len(lines) != len(stored):
                fail(key, "summary() reports %s %s in %d lines, the network has %d" % (shown, key, len(lines), len(stored)))
            else:
                for ln, e in zip(lines, stored):
                    cells = [int(x) for x in RX_CELL.findall(ln)]
                    wantc = [e["from"]["n"], e["to"]["n"]] if label == "from" else [e["target"]["n"]]
                    if cells and cells != wantc:
                        fail(key + ":cell", "line %r shows cells %s, stored %s" % (ln, cells, wantc))
    if parsed["other"]:
        ctx.count("doc:unclassified-lines", len(parsed["other"]))


# ------------------------------------------------------------------------------------------------
# the object tree handed to the Lean model of summary()
# ------------------------------------------------------------------------------------------------
NET_LISTS = ["populations", "projections", "electrical_projections", "continuous_projections", "synaptic_connections",
             "input_lists", "explicit_inputs"]
ITEM_STRS = ["id", "component", "presynaptic_population", "postsynaptic_population", "synapse", "populations"]
ITEM_LISTS = {"Population": ["instances", "properties"], "Projection": OLD_LISTS, "ElectricalProjection": EL_LISTS,
              "ContinuousProjection": CO_LISTS, "InputList": ["input", "input_ws"]}
MODELLED_STR = ("Population",)


def _s(v):
    return v if (v is None or isinstance(v, str)) else {"other": type(v).__name__}


def _safe_str(o):
    try:
        return str(o)
    except Exception as e:  # noqa
        return {"raises": type(e).__name__}


def leaf_json(o):
    d = {"text": _safe_str(o), "s": {}, "o": {}}
    for a in ("tag", "value"):
        if hasattr(o, a):
            d["s"][a] = _s(getattr(o, a))
    if hasattr(o, "location") and getattr(o, "location") is not None:
        d["o"]["location"] = _safe_str(o.location)
    return d


def item_json(o):
    cls = type(o).__name__
    base = cls.replace("Container", "")
    d = {"cls": cls, "s": {a: _s(getattr(o, a)) for a in ITEM_STRS if hasattr(o, a)}, "lists": {}}
    if base in MODELLED_STR:
        sz = getattr(o, "size", None)
        d["size"] = sz if (sz is None or isinstance(sz, int)) else {"other": type(sz).__name__}
    else:
        d["text"] = _safe_str(o)
    for L in ITEM_LISTS.get(base, []):
        v = getattr(o, L, None)
        if v is None:
            continue
        n_ = len(v)
        # only the length and the first element are observed by summary(); properties are all read
        if L == "properties":
            d["lists"][L] = {"n": n_, "elems": [leaf_json(x) for x in v]}
        else:
            d["lists"][L] = {"n": n_, "elems": [leaf_json(v[0])] if n_ > 0 else []}
    return d


def doc_tree(doc, flags):
    import inspect
    members = []
    for name, val in inspect.getmembers(doc):
        if isinstance(val, list) and len(val) > 0:
            entries = []
            for e in val:
                for k in ("id", "name", "href", "tag"):
                    if hasattr(e, k):
                        entries.append({"k": k, "v": str(getattr(e, k)), "v2": str(getattr(e, "value", None)) if k == "tag" else None})
                        break
                else:
                    entries.append({"k": "none"})
            members.append({"name": name, "cls": type(val[0]).__name__, "entries": entries})
    nets = []
    for net in doc.networks:
        nets.append({"s": {"id": _s(net.id), "temperature": _s(net.temperature)},
                     "lists": {L: [item_json(x) if L not in ("synaptic_connections", "explicit_inputs") else
                                   {"cls": type(x).__name__, "text": _safe_str(x), "s": {}, "lists": {}} for x in getattr(net, L)]
                               for L in NET_LISTS}})
    return {"id": _s(doc.id), "show_includes": flags.get("show_includes", True), "show_non_network": flags.get("show_non_network", True),
            "members": members, "nets": nets}


# ------------------------------------------------------------------------------------------------
# the ways a document reaches summary() and the accessors
# ------------------------------------------------------------------------------------------------
class Recorder(object):
    """a network handler that records what NeuroMLXMLParser hands over"""

    def __init__(self):
        self.conns, self.inputs, self.pops, self.locs, self.lists = [], [], [], 0, []

    def handle_document_start(self, id, notes):
        self.doc = id

    def handle_network(self, network_id, notes, temperature=None):
        self.net = (network_id, temperature)

    def handle_population(self, population_id, component, size=-1, component_obj=None, properties={}):
        self.pops.append((population_id, size))

    def handle_location(self, id, population_id, component, x, y, z):
        self.locs += 1

    def handle_projection(self, *a, **kw):
        pass

    def finalise_projection(self, *a, **kw):
        pass

    def handle_connection(self, projName, id, prePop, postPop, synapseType, preCellId, postCellId, preSegId=0, preFract=0.5,
                          postSegId=0, postFract=0.5, delay=0, weight=1):
        self.conns.append({"proj": projName, "id": id, "pre": preCellId, "post": postCellId, "pre_seg": preSegId, "post_seg": postSegId,
                           "pre_frac": preFract, "post_frac": postFract, "delay": delay, "weight": weight})

    def handle_input_list(self, inputListId, population_id, component, size, input_comp_obj=None):
        self.lists.append((inputListId, size))

    def handle_single_input(self, inputListId, id, cellId, segId=0, fract=0.5, weight=1):
        self.inputs.append({"list": inputListId, "id": id, "cell": cellId, "seg": segId, "frac": fract, "weight": weight})

    def finalise_input_source(self, inputName):
        pass

    def finalise_document(self):
        pass


def expected_handler_calls(net):
    """what a consumer of the network must be told, from the generation record (document order)"""
    conns, inputs = [], []
    for p in net["projections"]:
        for L in OLD_LISTS:
            for e in p[L]:
                conns.append({"proj": p["id"], "id": e["id"], "pre": e["pre"]["n"], "post": e["post"]["n"],
                              "pre_seg": e["pre_segv"], "post_seg": e["post_segv"],
                              "pre_frac": Fraction(*e["pre_fracv"]), "post_frac": Fraction(*e["post_fracv"]),
                              "delay": Fraction(*e["delayv"]) if L == "connection_wds" else Fraction(0),
                              "weight": Fraction(*e["weightv"]) if L == "connection_wds" else Fraction(1), "L": L})
    for p, lists in [(p, EL_LISTS) for p in net["electrical_projections"]] + [(p, CO_LISTS) for p in net["continuous_projections"]]:
        for L in lists:
            for e in p[L]:
                conns.append({"proj": p["id"], "id": e["id"], "pre": e["pre"]["n"], "post": e["post"]["n"],
                              "pre_seg": e["pre_segv"], "post_seg": e["post_segv"],
                              "pre_frac": Fraction(*e["pre_fracv"]), "post_frac": Fraction(*e["post_fracv"]),
                              "delay": Fraction(0), "weight": Fraction(*e["weightv"]) if L.endswith("_ws") else Fraction(1), "L": L})
    for l in net["input_lists"]:
        for L in ("input", "input_ws"):
            for e in l[L]:
                inputs.append({"list": l["id"], "id": e["id"], "cell": e["target"]["n"], "seg": e["segv"], "frac": Fraction(*e["fracv"]),
                               "weight": Fraction(*e["weightv"]) if L == "input_ws" else Fraction(1), "L": L})
    for e in net["explicit_inputs"]:
        inputs.append({"list": None, "id": 0, "cell": e["target"]["n"], "seg": 0, "frac": Fraction(1, 2), "weight": Fraction(1), "L": "explicit"})
    return conns, inputs


def compare_handler(ctx, case, rec):
    net = case["nets"][0]
    wc, wi = expected_handler_calls(net)
    tol = Fraction(1, 2 ** 52)

    def fail(what, msg):
        ctx.fail("C19:NeuroMLXMLParser:" + what, msg, {"case": case})
    if len(rec.conns) != len(wc):
        fail("connection-count", "the parser hands over %d connections, the network has %d" % (len(rec.conns), len(wc)))
        return
    if len(rec.inputs) != len(wi):
        fail("input-count", "the parser hands over %d inputs, the network has %d" % (len(rec.inputs), len(wi)))
        return
    for g_, w in zip(rec.conns, wc):
        for k in ("pre", "post", "pre_seg", "post_seg"):
            if g_[k] != w[k]:
                fail("%s:%s" % (w["L"], k), "connection %s/%d: %s handed over as %r, stored %r" % (w["proj"], w["id"], k, g_[k], w[k]))
        for k in ("pre_frac", "post_frac", "weight", "delay"):
            try:
                q = Fraction(g_[k])
            except Exception:
                q = None
            if q is None or abs(q - w[k]) > tol * abs(w[k]):
                fail("%s:%s" % (w["L"], k), "connection %s/%d: %s handed over as %r, stored %s" % (w["proj"], w["id"], k, g_[k], float(w[k])))
    for g_, w in zip(rec.inputs, wi):
        if g_["cell"] != w["cell"] or g_["seg"] != w["seg"]:
            fail("%s:cell" % w["L"], "input %s/%d handed over as cell %r segment %r, stored %d / %d" % (w["list"], w["id"], g_["cell"], g_["seg"], w["cell"], w["seg"]))
        for k in ("frac", "weight"):
            try:
                q = Fraction(g_[k])
            except Exception:
                q = None
            if q is None or q != w[k]:
                fail("%s:%s" % (w["L"], k), "input %s/%d: %s handed over as %r, stored %s" % (w["list"], w["id"], k, g_[k], float(w[k])))
    wp = [(p["id"], p["instances"] if p["instances"] > 0 else p["size"]) for p in net["populations"]]
    if rec.pops != wp:
        fail("population-size", "populations handed over as %s, stored %s" % (rec.pops, wp))


def run_real(case, tmpdir):
    """-> {"text": summary text | {"err":..}, "tree": ..., "which": label, "lossy": (...), "handler": Recorder | None,
           "elems": [(list name, expected elem, real object)] (objects of a re-read document, to put the accessors on)}"""
    import neuroml.loaders as L
    import neuroml.writers as W
    doc = build_doc(case)
    via, flags = case["via"], case.get("flags") or {}
    out = {"which": "first", "lossy": (), "handler": None, "elems": [], "doc": doc}

    def summ(d, fl=flags):
        try:
            return d.summary(**fl)
        except Exception as e:  # noqa
            return {"err": type(e).__name__ + ":" + str(e)[:80]}
    try:
        if via == "direct":
            out["text"] = summ(doc)
            out["tree"] = doc_tree(doc, flags)
        elif via == "xml":
            p = os.path.join(tmpdir, "d.nml")
            W.NeuroMLWriter.write(doc, p)
            d2 = L.read_neuroml2_file(p, include_includes=False)
            out.update(text=summ(d2), tree=doc_tree(d2, flags), which="reread", doc=d2)
        elif via == "h5":
            p = os.path.join(tmpdir, "d.h5")
            W.NeuroMLHdf5Writer.write(doc, p)
            d2 = L.read_neuroml2_file(p)
            # the HDF5 route stores plain indices (element class and reference form change), merges nothing else
            out.update(text=summ(d2), tree=doc_tree(d2, flags), which="h5", doc=d2,
                       lossy=("members", "props", "first", "doc-id", "merged-lists"))
        elif via == "h5opt":
            p = os.path.join(tmpdir, "d.h5")
            W.NeuroMLHdf5Writer.write(doc, p)
            d2 = L.read_neuroml2_file(p, optimized=True)
            out.update(text=summ(d2), tree=doc_tree(d2, flags), which="h5opt", doc=d2,
                       lossy=("members", "props", "merged-lists", "doc-id"))
        elif via == "get_summary":
            import neuroml.utils as U
            import contextlib
            import io
            p = os.path.join(tmpdir, "d.nml")
            W.NeuroMLWriter.write(doc, p)
            buf = io.StringIO()
            with contextlib.redirect_stdout(buf):
                U.print_summary(p)
            printed = buf.getvalue()
            text = U.get_summary(p)
            out.update(text=text, which="get_summary", flags={"show_includes": False})
            out["printed_same"] = printed.rstrip("\n") == text.rstrip("\n") or printed.rstrip("\n").endswith(text.rstrip("\n"))
        elif via == "xmlparser":
            from neuroml.hdf5.NeuroMLXMLParser import NeuroMLXMLParser
            p = os.path.join(tmpdir, "d.nml")
            W.NeuroMLWriter.write(doc, p)
            rec = Recorder()
            NeuroMLXMLParser(rec).parse(p)
            out.update(text=summ(doc), handler=rec, tree=doc_tree(doc, flags))
    except Exception as e:  # noqa
        import traceback
        out["text"] = {"err": "%s:%s" % (type(e).__name__, str(e)[:120]), "tb": traceback.format_exc()[-600:]}
        if via in ("h5", "h5opt") and type(e) is Exception and ("not (yet) supported" in str(e) or "Cannot yet" in str(e)):
            out["unsupported"] = True                 # a documented limit of the HDF5 route, not a statement about summary()
    return out


# ------------------------------------------------------------------------------------------------
# accessors on the objects of a re-read document (XML, HDF5, optimized HDF5 containers)
# ------------------------------------------------------------------------------------------------
def _call(o, name):
    try:
        return getattr(o, name)()
    except Exception as e:  # noqa
        return "raises " + type(e).__name__


def reread_accessor_checks(ctx, case, doc2, which):
    """the accessors of every connection / input of the re-read document return the values that were stored in the
    document that was written (element order is the document order; the HDF5 routes merge the lists of a projection
    in list order and keep 24 significant bits)"""
    exact = which == "reread"
    tol = Fraction(0) if exact else Fraction(1, 2 ** 22)
    n_eval = 0

    def fail(what, msg):
        ctx.fail("C19:%s:%s" % (which, what), msg, {"case": case, "which": which})

    def close(got, want):
        try:
            q = Fraction(got)
        except Exception:
            return False
        return abs(q - want) <= tol * max(abs(want), 1)
    if len(doc2.networks) != len(case["nets"]):
        fail("network-count", "%d networks re-read, %d written" % (len(doc2.networks), len(case["nets"])))
        return 0
    for net2, net in zip(doc2.networks, case["nets"]):
        groups = ([(net2.projections, net["projections"], OLD_LISTS), (net2.electrical_projections, net["electrical_projections"], EL_LISTS),
                   (net2.continuous_projections, net["continuous_projections"], CO_LISTS)])
        for real_list, specs, lists in groups:
            by_id = {p.id: p for p in real_list}
            for spec in specs:
                pr = by_id.get(spec["id"])
                if pr is None:
                    fail("projection-missing", "projection %s is not in the re-read network" % spec["id"])
                    continue
                want = [(L, e) for L in lists for e in spec[L]]
                got = [o for L in lists for o in (getattr(pr, L, None) or [])]
                if len(got) != len(want):
                    fail("connection-count", "projection %s: %d connections re-read, %d written" % (spec["id"], len(got), len(want)))
                    continue
                if which == "h5":
                    # the non-optimized HDF5 loader re-partitions the merged rows (by weight) : compare as a multiset
                    gs = sorted((_call(o, "get_pre_cell_id"), _call(o, "get_post_cell_id"), _call(o, "get_pre_segment_id"),
                                 _call(o, "get_post_segment_id"), str(_call(o, "get_pre_fraction_along")),
                                 str(_call(o, "get_post_fraction_along"))) for o in got)
                    ws = sorted((e["pre"]["n"], e["post"]["n"], e["pre_segv"], e["post_segv"], str(float(Fraction(*e["pre_fracv"]))),
                                 str(float(Fraction(*e["post_fracv"])))) for _, e in want)
                    n_eval += len(got)
                    if gs != ws:
                        fail("connections", "projection %s: accessors of the re-read connections give %s, stored %s" % (spec["id"], gs[:4], ws[:4]))
                    continue
                for o, (L, e) in zip(got, want):
                    n_eval += 1
                    vals = (_call(o, "get_pre_cell_id"), _call(o, "get_post_cell_id"), _call(o, "get_pre_segment_id"), _call(o, "get_post_segment_id"))
                    if vals != (e["pre"]["n"], e["post"]["n"], e["pre_segv"], e["post_segv"]):
                        fail("%s:cell-or-segment" % L, "%s %s/%d: accessors give cells/segments %s, stored %s" % (
                            type(o).__name__, spec["id"], e["id"], vals, (e["pre"]["s"], e["post"]["s"], e["pre_segv"], e["post_segv"])))
                    for side in ("pre", "post"):
                        v = _call(o, "get_%s_fraction_along" % side)
                        if not close(v, Fraction(*e[side + "_fracv"])):
                            fail("%s:fraction" % L, "%s %s/%d: %s fraction %r, stored %s" % (type(o).__name__, spec["id"], e["id"], side, v,
                                                                                           float(Fraction(*e[side + "_fracv"]))))
                    if which != "h5opt" and "weightv" in e and hasattr(o, "get_weight"):
                        v = _call(o, "get_weight")
                        if not close(v, Fraction(*e["weightv"])):
                            fail("%s:weight" % L, "%s %s/%d: weight %r, stored %s" % (type(o).__name__, spec["id"], e["id"], v, float(Fraction(*e["weightv"]))))
                    if which != "h5opt" and "delayv" in e and hasattr(o, "get_delay_in_ms"):
                        v = _call(o, "get_delay_in_ms")
                        w = Fraction(*e["delayv"])
                        try:
                            ok = abs(Fraction(v) - w) <= (Fraction(1, 2 ** 52) if exact else Fraction(1, 2 ** 22)) * abs(w)
                        except Exception:
                            ok = False
                        if not ok:
                            fail("%s:delay" % L, "%s %s/%d: delay %r ms, stored %s (%s ms)" % (type(o).__name__, spec["id"], e["id"], v, e["delay"], float(w)))
        by_id = {l.id: l for l in net2.input_lists}
        for spec in net["input_lists"]:
            il = by_id.get(spec["id"])
            if il is None:
                fail("input-list-missing", "input list %s is not in the re-read network" % spec["id"])
                continue
            want = [(L, e) for L in ("input", "input_ws") for e in spec[L]]
            got = [o for L in ("input", "input_ws") for o in (getattr(il, L, None) or [])]
            if len(got) != len(want):
                fail("input-count", "input list %s: %d inputs re-read, %d written" % (spec["id"], len(got), len(want)))
                continue
            if which == "h5":
                gs = sorted((_call(o, "get_target_cell_id"), _call(o, "get_segment_id"), str(_call(o, "get_fraction_along"))) for o in got)
                ws = sorted((e["target"]["n"], e["segv"], str(float(Fraction(*e["fracv"])))) for _, e in want)
                n_eval += len(got)
                if gs != ws:
                    fail("inputs", "input list %s: accessors of the re-read inputs give %s, stored %s" % (spec["id"], gs[:4], ws[:4]))
                continue
            for o, (L, e) in zip(got, want):
                n_eval += 1
                vals = (_call(o, "get_target_cell_id"), _call(o, "get_segment_id"))
                if vals != (e["target"]["n"], e["segv"]):
                    fail("%s:cell-or-segment" % L, "%s %s/%d: accessors give %s, stored %s" % (type(o).__name__, spec["id"], e["id"], vals,
                                                                                              (e["target"]["s"], e["segv"])))
                v = _call(o, "get_fraction_along")
                if not close(v, Fraction(*e["fracv"])):
                    fail("%s:fraction" % L, "%s %s/%d: fraction %r, stored %s" % (type(o).__name__, spec["id"], e["id"], v, float(Fraction(*e["fracv"]))))
                if which != "h5opt" and L == "input_ws" and hasattr(o, "get_weight"):
                    v = _call(o, "get_weight")
                    if not close(v, Fraction(*e["weightv"])):
                        fail("%s:weight" % L, "%s %s/%d: weight %r, stored %s" % (type(o).__name__, spec["id"], e["id"], v, float(Fraction(*e["weightv"]))))
        pops2 = {p.id: p for p in net2.populations}
        for p in net["populations"]:
            o = pops2.get(p["id"])
            if o is None:
                fail("population-missing", "population %s is not in the re-read network" % p["id"])
            else:
                n_eval += 1
                v = _call(o, "get_size")
                if v != pop_cells(p):
                    fail("Population.get_size", "population %s: get_size() %r, it has %d cells" % (p["id"], v, pop_cells(p)))
    return n_eval
