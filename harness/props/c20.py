"""C20 — the shipped bindings are what regeneration from the sources would produce.

Tie: TRANSLATOR (`translators/helpers_extract.py`, run by `regenerate` on every check from fw.REPO's working tree ->
`lean/NmlVerif/Gen/Regen.lean`); the theorems of `NmlVerif.Props.C20` are kernel-checked over that table.

`run` then
  1. evaluates the same table predicates in Python to NAME what differs (directed search: (class, method) pair, first
     differing normalised statement of the two ASTs) — these are the VIOLATION cases with replays;
  2. evaluates the property on the IMPORTED library by an independent route (byte-code of the run-time methods of
     `neuroml.nml.nml` versus the exec'd spec sources; run-time classes versus lxml's view of the schema; the real
     `NeuroMLWriter` output; the shell pipeline of regenerate-nml.sh run by bash);
  3. correspondence: real `MethodSpec.match_name` vs the Lean `insertionRule` (all (spec, class) pairs + generated
     class_names values), generateDS's own `generateUserMethods` vs the Lean `regenerated` over the compiled table;
  4. validates the translator end-to-end on one-sided text mutants of a scratch copy of the sources (must be
     reported, at the right pair) and on formatting/comment/docstring edits (must not be reported).
"""
import ast
import dis
import importlib.util
import json
import os
import re
import shutil
import subprocess
import sys
import tempfile
import time

import fw

BASE_PROPS = ["NmlVerif.Props.C20", "NmlVerif.Props.C20Specs", "NmlVerif.Props.C20Methods", "NmlVerif.Props.C20RegenModule", "NmlVerif.Props.C20Types", "NmlVerif.Props.C20Version",
              "NmlVerif.Props.C20Finding", "NmlVerif.Props.C20Regen", "NmlVerif.Props.C20RegenUser"]
# + one generated module per class with helper methods (Gen/C20Pairs/<Class>.lean) — filled in by regenerate()
LEAN_PROPS = list(BASE_PROPS)
LEAN_EXTRA = ["NmlVerif.Gen.Regen", "NmlVerif.Gen.RegenFresh", "NmlVerif.Gen.RegenShipped", "NmlVerif.Gen.RegenNames",
              "NmlVerif.DrvCommon"]
LEVEL = "proof"
RULE = ("exhaustive over the domain: every (binding class, user statement) pair of nml.py / helper_methods.py, every "
        "(class, class-body statement) pair of the shipped nml.py versus the file regenerate-nml.sh produces now (re-run "
        "on every check), and every (binding class, complexType) pair; a method pair is non-trivial always (a real "
        "method body), a class without helpers is counted as trivial; plus generated class_names values "
        "(str/list/tuple/None, near-miss names) for the match_name correspondence and seeded one-sided text mutants of a "
        "scratch copy (helper methods, generated methods, %(class_name)s sources) for translator validation; "
        "distinct = distinct (kind, class, position, name)")
TRUST = [
    "translators/helpers_extract.py + regen_run.py: AST normalisation (docstrings of defs removed, ast.dump without "
    "positions), the rule 'user statements = everything after _buildChildren', SHA-256/128 digests (collision-freedom is "
    "a hypothesis of the lifting theorems), name interning — validated every run (mutants, byte-code oracle, behavioural "
    "witness search), not verified: the weak link",
    "the regeneration is RE-RUN on every check (regenerate-nml.sh -a, unmodified, in a scratch copy): generateDS, "
    "GNU sed, bash, ruff and the annotate_nml step are executed, not modelled; the installed generateDS (2.44.3) is "
    "newer than the one that wrote the shipped file (2.44.1): normalisation N1 removes exactly the statement "
    "`<Class>.superclass.validate_(self, gds_collector, recursive)` from the regenerated `validate_` methods (count "
    "kernel-checked = number of classes with a schema base); N2: module-level imports compared as sorted lists "
    "(the repository's pre-commit `ruff --select I --fix` re-orders them)",
    "MethodSpec.__init__/match_name/get_interpolated_source are pinned as text in the translator; insertionRule is a "
    "hand model of match_name tied by correspondence and, second pass, by the kernel-checked comparison of the raw "
    "generateDS output with the model on all 212 classes",
    "the role of a schema-file occurrence (`nameTable` for neuroml/nml/config.py, `schema` otherwise) is assigned by "
    "the translator from the file path",
]
ASSUMPTIONS = [
    "digests are collision-free on the statements involved (hypothesis `hinj` of c20_regeneration_identity / "
    "c20_whole_file_identity)",
    "generateDS, sed and ruff are deterministic (the regeneration is run once per check)",
    "comments, formatting, doc strings of functions and the order of module-level imports are not behaviour",
]

GEN = os.path.join(fw.LEAN, "NmlVerif", "Gen", "Regen.lean")
GEN_FRESH = os.path.join(fw.LEAN, "NmlVerif", "Gen", "RegenFresh.lean")
GEN_SHIPPED = os.path.join(fw.LEAN, "NmlVerif", "Gen", "RegenShipped.lean")
GEN_NAMES = os.path.join(fw.LEAN, "NmlVerif", "Gen", "RegenNames.lean")
PAIRS_DIR = os.path.join(fw.LEAN, "NmlVerif", "Gen", "C20Pairs")
_STATE = {}


def _load(path, name):
    spec = importlib.util.spec_from_file_location(name, path)
    mod = importlib.util.module_from_spec(spec)
    sys.modules[name] = mod
    spec.loader.exec_module(mod)
    return mod


RR = _load(os.path.join(fw.VERIF, "translators", "regen_run.py"), "c20_regen_run")
BH = _load(os.path.join(fw.VERIF, "harness", "c20_behaviour.py"), "c20_behaviour")
TR = RR.HX          # translators/helpers_extract.py (one module object for both)


def lean_ident(name):
    return re.sub(r"[^A-Za-z0-9_]", "_", name)


def pair_modules(data, I):
    """one generated Lean module per class that has (or should have) user statements + one for all the others"""
    out, listed = {}, []
    for c in data["binding"]:
        if c["items"] or expected_items(data, c["name"]):
            listed.append(c["name"])
    seen = set()
    for cls in listed:
        ident = lean_ident(cls)
        if ident in seen:
            continue
        seen.add(ident)
        out["NmlVerif.Gen.C20Pairs." + ident] = (
            "import NmlVerif.Props.C20\nimport NmlVerif.Gen.Regen\n"
            "/-! GENERATED by harness/props/c20.py (regenerate) — do not edit. One obligation: the user statements of class\n"
            "    `%s` in nml.py are, in order, those of the specs of helper_methods.py that name it. -/\n"
            "namespace NmlVerif.C20.Pairs\n"
            "theorem helpers_%s : NmlVerif.C20.ClassHelpersAgree NmlVerif.Gen.Regen.tables %d := by decide +kernel\n"
            "end NmlVerif.C20.Pairs\n" % (cls, ident, I(cls)))
    out["NmlVerif.Gen.C20Pairs.OtherClasses_"] = (
        "import NmlVerif.Props.C20\nimport NmlVerif.Gen.Regen\n"
        "/-! GENERATED by harness/props/c20.py (regenerate) — do not edit. The classes without a module of their own:\n"
        "    no helper methods expected, none shipped. -/\n"
        "namespace NmlVerif.C20.Pairs\n"
        "theorem helpers_of_all_other_classes : NmlVerif.C20.OtherClassesHelpersAgree NmlVerif.Gen.Regen.tables [%s] := by\n"
        "  decide +kernel\n"
        "end NmlVerif.C20.Pairs\n" % ", ".join(str(I(c)) for c in listed))
    return out


def regenerate(ctx):
    cache = _STATE.setdefault("cache", {})
    memo = _STATE.setdefault("memo", {})
    t0 = time.time()
    data = TR.extract(fw.REPO, cache)
    t1 = time.time()
    full = RR.build_full(fw.REPO, memo)
    t2 = time.time()
    I = TR.Interner()
    text, _ = TR.emit_lean(data, I, with_names=False)
    fresh = RR.emit_fresh(full, I)
    shipped = RR.emit_shipped(full, I)
    pairs = pair_modules(data, I)
    TR.write_if_changed(GEN, text)
    TR.write_if_changed(GEN_FRESH, fresh)
    TR.write_if_changed(GEN_SHIPPED, shipped)
    os.makedirs(PAIRS_DIR, exist_ok=True)
    keep = set()
    for mod, txt in pairs.items():
        f = os.path.join(PAIRS_DIR, mod.rsplit(".", 1)[1] + ".lean")
        keep.add(os.path.basename(f))
        TR.write_if_changed(f, txt)
    for f in os.listdir(PAIRS_DIR):
        if f.endswith(".lean") and f not in keep:
            os.remove(os.path.join(PAIRS_DIR, f))
    TR.write_if_changed(GEN_NAMES, RR.emit_names(I))
    LEAN_PROPS[:] = list(BASE_PROPS) + sorted(pairs)
    _STATE["data"], _STATE["full"] = data, full
    _STATE["timing"] = {"extract_s": round(t1 - t0, 2), "regeneration_s": full["seconds"], "regeneration_reused": full["reused"],
                        "tables_s": round(t2 - t1 - (0 if full["reused"] else full["seconds"]), 2),
                        "emit_s": round(time.time() - t2, 2)}
    return list(data["gaps"]) + list(full["gaps"])


# ================================================================================================ 1. table predicates
def expected_items(data, cls):
    """(specs.filter (insertionRule · cls)).flatMap items — with the Python reading of class_names"""
    out = []
    for sp in data["specs"]:
        cn = sp["class_names"]
        if (cn["kind"] == "str" and cn["v"] == cls) or (cn["kind"] == "list" and cls in cn["v"]):
            its = dict(sp.get("per_class", [])).get(cls, sp["items"])      # %(class_name)s: the source as interpolated for cls
            out += [(a, b, c, sp) for a, b, c in its]
    return out


def table_failures(data, only=None):
    """every way the extracted table violates the C20 predicates, as (key, what, case). `only` = restrict to one class."""
    out = []
    classes = [c["name"] for c in data["binding"]]
    for c in data["binding"]:
        if only and c["name"] != only:
            continue
        exp = expected_items(data, c["name"])
        diffs = TR.compare_items([(a, b, s) for a, b, s, _ in exp], c["items"])
        for d in diffs:
            m = d["method"]
            case = {"kind": "method", "class": c["name"], "method": m, "index": d["index"], "difference": d["kind"]}
            if d["kind"] == "differs":
                fd = d.get("first_difference") or {}
                spec = [e[3]["name"] for e in exp if e[0] == m]
                what = ("%s.%s: the copy in nml.py differs from its source in %s (spec %s); first differing statement at %s: "
                        "helper_methods: `%s`  |  nml.py: `%s`  (a repair must be applied to BOTH files)"
                        % (c["name"], m, data["helper_file"], "/".join(sorted(set(spec))) or "?", fd.get("where"),
                           fd.get("helper"), fd.get("shipped")))
                case["first_difference"] = fd
                out.append(("C20:method-differs:%s.%s" % (c["name"], m), what, case))
            elif d["kind"] == "order":
                case["expected_order"], case["shipped_order"] = d["expected_order"], d["shipped_order"]
                out.append(("C20:method-order:%s" % c["name"],
                            "%s: the user statements of nml.py are those of the matching specs but in another order (a later "
                            "def of the same name wins); first out of place at %d: %s. METHOD_SPECS order gives %s, nml.py has %s"
                            % (c["name"], d["index"], m, d["expected_order"], d["shipped_order"]), case))
            elif d["kind"] == "missing-in-bindings":
                out.append(("C20:method-missing-in-bindings:%s.%s" % (c["name"], m),
                            "%s.%s is defined by a spec of %s naming %s but is not shipped in nml.py (position %d): `%s`"
                            % (c["name"], m, data["helper_file"], c["name"], d["index"], d.get("helper")), case))
            else:
                out.append(("C20:method-only-in-bindings:%s.%s" % (c["name"], m),
                            "%s.%s is shipped in nml.py (user statement %d: `%s`) but no spec of %s puts it there; "
                            "the next regeneration drops it" % (c["name"], m, d["index"], d.get("shipped"),
                                                                data["helper_file"]), case))
    if only:
        return out
    for sp in data["specs"]:
        if sp["class_names"]["kind"] == "other":
            out.append(("C20:spec-never-matches:%s" % sp["name"],
                        "spec %s has class_names %s — neither a str nor a list, so MethodSpec.match_name never matches and its "
                        "methods are inserted nowhere" % (sp["name"], sp["class_names"]["v"]),
                        {"kind": "spec-target", "spec": sp["name"]}))
        for t in TR.named_classes(sp["class_names"]):
            if t not in classes:
                out.append(("C20:spec-target-missing:%s->%s" % (sp["name"], t),
                            "spec %s names class %s which is not a binding class: its methods are shipped nowhere"
                            % (sp["name"], t), {"kind": "spec-target", "spec": sp["name"], "class": t}))
    cts = data["schema"]["complex"]
    for x in sorted(set(classes) - set(cts)):
        out.append(("C20:class-without-complextype:%s" % x,
                    "binding class %s has no complexType in %s" % (x, data["versions"]["xsd_read"]),
                    {"kind": "type", "class": x}))
    for x in sorted(set(cts) - set(classes)):
        out.append(("C20:complextype-without-class:%s" % x,
                    "complexType %s of %s has no binding class in nml.py" % (x, data["versions"]["xsd_read"]),
                    {"kind": "type", "complexType": x}))
    for nm, l in (("class", classes), ("complextype", cts)):
        for x in sorted({y for y in l if l.count(y) > 1}):
            out.append(("C20:duplicate-%s:%s" % (nm, x), "%s %s occurs twice" % (nm, x), {"kind": "type", nm: x}))
    oth = data["other_classes"]
    for x in oth:
        if x not in TR.SUPPORT_CLASSES and x not in data["schema"]["enums"]:
            out.append(("C20:unaccounted-class:%s" % x,
                        "top-level class %s of nml.py is neither a binding class, a generateDS support class nor the Enum "
                        "of an enumerated simpleType" % x, {"kind": "other-class", "class": x}))
    for x in data["schema"]["enums"]:
        if x not in oth:
            out.append(("C20:enum-without-class:%s" % x, "enumerated simpleType %s has no Enum class" % x,
                        {"kind": "other-class", "simpleType": x}))
    imp = data["imports"]
    for x in imp["shipped"]:
        if x not in imp["template"]:
            out.append(("C20:import-only-in-bindings:%s" % x,
                        "nml.py has the module-level `%s`, which neither generateDS nor %s provides: the next regeneration "
                        "drops it (a helper using it then fails)" % (x, imp["template_file"]), {"kind": "import", "stmt": x}))
    for x in imp["template"]:
        if x not in imp["shipped"]:
            out.append(("C20:import-only-in-template:%s" % x,
                        "%s has `%s`, the shipped nml.py does not: a helper relying on it fails until the bindings are "
                        "regenerated" % (imp["template_file"], x), {"kind": "import", "stmt": x}))
    # second pass: derivation (extension base = Python base class) and every occurrence of a schema file name
    xb = dict(data["schema"].get("bases", []))
    for c in data["binding"]:
        if c["name"] in xb:
            want = [xb[c["name"]]] if xb[c["name"]] else ["GeneratedsSuper"]
            if c.get("bases") != want:
                out.append(("C20:base-differs:%s" % c["name"],
                            "binding class %s derives from %s but its complexType extends %s (regeneration writes `class %s(%s)`)"
                            % (c["name"], c.get("bases"), xb[c["name"]] or "nothing", c["name"], ", ".join(want)),
                            {"kind": "type", "class": c["name"], "bases": c.get("bases"), "xsd_base": xb[c["name"]]}))
    for o in data.get("occurrences", []):
        if o["schema_file"] != data["versions"]["header_xsd"]:
            out.append(("C20:version:occurrence-differs:%s" % o["file"],
                        "%s:%s names schema %r (`%s`) but the bindings' header names %r%s"
                        % (o["file"], o["line"], o["schema_file"], o["what"], data["versions"]["header_xsd"],
                           " — generateds_config.py derives the member NameTable from this file" if o["role"] == "nameTable" else ""),
                        {"kind": "version", "check": "occurrence", "file": o["file"], "line": o["line"],
                         "schema_file": o["schema_file"], "role": o["role"]}))
    v = data["versions"]
    hx = v["header_xsd"]
    checks = [
        ("script-version", v["script_version"] == v["current"],
         "regenerate-nml.sh's grep|cut|tr yields %r but current_neuroml_version is %r" % (v["script_version"], v["current"])),
        ("script-vs-header", v["script_pre"] + v["script_version"] + v["script_post"] == hx,
         "regenerate-nml.sh would regenerate from %r, the shipped bindings were generated from %r"
         % (v["script_pre"] + v["script_version"] + v["script_post"], hx)),
        ("writer-vs-header", v["writer_pre"] + v["current"] + v["writer_post"] == hx,
         ("the writer's schemaLocation template %r filled with current_neuroml_version names %r, the bindings' header %r"
          % (v["writer_pre"] + "%s" + v["writer_post"], v["writer_pre"] + v["current"] + v["writer_post"], hx))
         if (v["writer_pre"] or v["writer_post"]) else
         "the writer's schemaLocation is not a `NeuroML_%%s.xsd %% neuroml.current_neuroml_version` template any more "
         "(see gaps); the bindings' header names %r" % hx),
        ("header-cmd", v["header_cmd_xsd"] == hx, "nml.py header: argument %r vs command line %r" % (hx, v["header_cmd_xsd"])),
        ("current-vs-header", v["xsd_read"] == hx,
         "current_neuroml_version %r selects %r, the bindings' header names %r" % (v["current"], v["xsd_read"], hx)),
        ("schema-not-bundled", hx in v["bundled"], "schema %r named in the header is not bundled" % hx),
        ("cmdline-header", v["header_cmd_options"] == v["header_options"], "nml.py header lists options twice, differently"),
        ("cmdline-script", v["script_options"] == v["header_options"],
         "regenerate-nml.sh runs generateDS with %r, the header records %r" % (v["script_options"], v["header_options"])),
        ("helper-file", ["--user-methods", data["helper_file"]] in v["header_options"], "user-methods file mismatch"),
    ]
    for k, ok, what in checks:
        if not ok:
            out.append(("C20:version:" + k, what, {"kind": "version", "check": k}))
    return out



# ================================================================================================ 1b. the re-run regeneration
def member_facets(stmt):
    """`member_data_items_ = [MemberSpec_(name, type, container, optional, child_attrs, choice), …]` -> {name: facets}"""
    out = {}
    try:
        for call in stmt.value.elts:
            a = [ast.literal_eval(x) for x in call.args]
            a += [None] * (6 - len(a))
            d = {"type": a[1], "container(list)": a[2], "optional": a[3], "choice": a[5]}
            for k, v in (a[4] or {}).items():
                d["xsd:" + k] = v
            out[a[0]] = d
    except Exception:  # noqa
        return None
    return out


def facet_differences(full, cls):
    rs = {c["name"]: c for c in full["regen"]["classes"]}.get(cls)
    ss = {c["name"]: c for c in full["shipped"]["classes"]}.get(cls)
    if not rs or not ss:
        return []
    fr = next((member_facets(m[2]) for m in rs["members"] if m[0] == "<assign member_data_items_>"), None)
    fs = next((member_facets(m[2]) for m in ss["members"] if m[0] == "<assign member_data_items_>"), None)
    if fr is None or fs is None:
        return []
    out = []
    for nm in sorted(set(fr) | set(fs)):
        a, b = fr.get(nm), fs.get(nm)
        if a is None or b is None:
            out.append({"member": nm, "facet": "exists", "regenerated_from_schema": a is not None, "shipped": b is not None})
            continue
        for k in sorted(set(a) | set(b)):
            if a.get(k) != b.get(k):
                out.append({"member": nm, "facet": k, "regenerated_from_schema": a.get(k), "shipped": b.get(k)})
    return out


def regen_failures(full, already):
    """differences between the file regenerate-nml.sh produces now and the shipped nml.py, as (key, what, case);
    `already` = (class, member) pairs the helper table comparison has named (not reported twice)"""
    out = []
    if not full.get("ok"):
        return out
    for d in RR.compare_tables(full["regen"], full["shipped"]):
        k, cls, m = d["kind"], d.get("class"), d.get("member")
        case = {"kind": "regen", "class": cls, "member": m, "difference": k, "index": d.get("index")}
        if cls is not None and (cls, m) in already and k in ("differs", "only-in-bindings", "missing-in-bindings"):
            continue
        if k == "differs" and m == "<assign member_data_items_>":
            # second pass (C20-4): the (class, complexType) pair compared MEMBER by MEMBER — name the facet
            for fc in facet_differences(full, cls):
                out.append(("C20:member-facet-differs:%s.%s:%s" % (cls, fc["member"], fc["facet"]),
                            "(class %s, complexType %s): member `%s`, facet `%s`: the bundled schema (regenerated MemberSpec table) "
                            "says %r, the shipped class says %r — schema and bindings no longer correspond member for member"
                            % (cls, cls, fc["member"], fc["facet"], fc["regenerated_from_schema"], fc["shipped"]),
                            {"kind": "regen", "class": cls, "member": "validate_", "difference": "facet", "facet": fc}))
        if k == "differs":
            fd = d.get("first_difference") or {}
            case["first_difference"] = fd
            out.append(("C20:regen-differs:%s.%s" % (cls, m),
                        "%s.%s: the shipped nml.py differs from what regenerate-nml.sh produces now (generateDS %s re-run); first "
                        "differing statement at %s: regenerated: `%s`  |  nml.py: `%s`  (a hand edit of generated code is "
                        "reverted by the next regeneration)" % (cls, m, full["installed_version"], fd.get("where"),
                                                               fd.get("regenerated"), fd.get("shipped")), case))
        elif k == "only-in-bindings":
            case["shipped"] = d.get("shipped")
            out.append(("C20:regen-only-in-bindings:%s.%s" % (cls, m),
                        "%s.%s (class-body statement %s: `%s`) is in the shipped nml.py but the regeneration does not write it: "
                        "neither generateDS nor a MethodSpec accounts for it" % (cls, m, d.get("index"), d.get("shipped")), case))
        elif k == "missing-in-bindings":
            case["regenerated"] = d.get("regenerated")
            out.append(("C20:regen-missing-in-bindings:%s.%s" % (cls, m),
                        "%s.%s (`%s`) is written by the regeneration but is not in the shipped nml.py"
                        % (cls, m, d.get("regenerated")), case))
        elif k == "order":
            if (cls, None) in already:
                continue
            case["expected_order"], case["shipped_order"] = d["expected_order"], d["shipped_order"]
            out.append(("C20:regen-order:%s" % cls, "%s: same class-body statements as the regenerated class but in another order; "
                        "first out of place at %s: %s" % (cls, d.get("index"), m), case))
        elif k == "class-header":
            out.append(("C20:regen-class-header:%s" % cls, "class header differs: regenerated `%s`, nml.py `%s`"
                        % (d.get("regenerated"), d.get("shipped")), case))
        elif k in ("class-only-in-bindings", "class-missing-in-bindings"):
            out.append(("C20:regen-%s:%s" % (k, cls), "class %s is %s" % (cls, "in nml.py but not written by the regeneration"
                        if k == "class-only-in-bindings" else "written by the regeneration but not in nml.py"), case))
        elif k.startswith("module-"):
            if "first_difference" in d:
                case["first_difference"] = d["first_difference"]
            out.append(("C20:regen-%s:%s" % (k, m), "module-level statement %s: %s (%s)" % (m, k, d.get("first_difference")), case))
        else:
            out.append(("C20:regen-%s:%s" % (k, m), "module-level import `%s`: %s" % (m, k), case))
    # the stages of the script
    raw, sed = dict(full["raw_user"]), dict(full["sed_user"])
    fin = dict(RR.user_rows(full["regen"]))

    def nd(its):
        return [(a, b) for a, b, _ in its]
    for cls in fin:
        if nd(raw.get(cls, [])) != nd(sed.get(cls, [])) or nd(sed.get(cls, [])) != nd(fin[cls]):
            out.append(("C20:postprocessing-touches-user:%s" % cls,
                        "the sed / annotate_nml / ruff steps of regenerate-nml.sh change a user statement of class %s (raw generateDS "
                        "output %s, after sed %s, final %s)" % (cls, [a for a, _ in nd(raw.get(cls, []))],
                                                               [a for a, _ in nd(sed.get(cls, []))], [a for a, _ in nd(fin[cls])]),
                        {"kind": "regen", "class": cls, "member": None, "difference": "postprocessing"}))
    if full["drift"] and full["regen"]["drift_removed"] != full["regen"]["with_base"]:
        out.append(("C20:version-drift-unexplained",
                    "generateDS %s (installed) vs %s (header): %d `superclass.validate_` statements were removed from the regenerated "
                    "side but %d classes have a schema base class" % (full["installed_version"], full["header_version"],
                                                                      full["regen"]["drift_removed"], full["regen"]["with_base"]),
                    {"kind": "regen", "class": None, "member": None, "difference": "drift"}))
    return out


def model_insertion_failures(data, full):
    """the RAW output of the real generateDS run versus the modelled insertion (Python reading of the Lean model)"""
    out = []
    if not full.get("ok"):
        return out
    for cls, its in full["raw_user"]:
        exp = [(a, b) for a, b, _, _ in expected_items(data, cls)]
        got = [(a, b) for a, b, _ in its]
        if exp != got:
            out.append(("C20:generateds-insertion-differs:%s" % cls,
                        "generateDS (real run, helper_methods.py of the tree) writes the user statements %s into class %s but the "
                        "modelled insertion (match_name = equality / list membership, METHOD_SPECS order, interpolated source) "
                        "yields %s" % ([a for a, _ in got], cls, [a for a, _ in exp]),
                        {"kind": "regen", "class": cls, "member": None, "difference": "insertion"}))
    return out


DRIFT_LINE = re.compile(r"^[ \t]+(\w+)\.superclass\.validate_\(\s*self,\s*gds_collector,\s*recursive,?\s*\)[ \t]*\n", re.M)


def regen_exec_text(full):
    """the regenerated file as executable text with normalisation N1 applied (textually; the count must agree)"""
    text = full["texts"].get("final")
    if not text:
        return None
    if not full.get("drift"):
        return text
    t2, n = DRIFT_LINE.subn("", text)
    if n != full["regen"]["drift_removed"]:
        import ast as _ast
        tree = _ast.parse(text)
        for node in tree.body:
            if isinstance(node, _ast.ClassDef):
                RR.strip_drift(node)
        return _ast.unparse(tree)
    return t2


def regen_module(nml_mod):
    """the regenerated bindings as an importable sibling of neuroml.nml.nml (loaded once per process)"""
    if "regen_mod" in _STATE:
        return _STATE["regen_mod"]
    full = _STATE.get("full")
    mod = None
    if full and full.get("ok"):
        text = regen_exec_text(full)
        try:
            mod, cleanup = BH.load_module_from_text(text, nml_mod)
            _STATE["regen_cleanup"] = cleanup
        except Exception as e:  # noqa
            _STATE["regen_mod_error"] = repr(e)
            mod = None
    _STATE["regen_mod"] = mod
    return mod


def attach_witnesses(ctx, fails, nml_mod, budget=8):
    """for failures that name a (class, member) pair: search an input on which the two versions BEHAVE differently"""
    regen = regen_module(nml_mod)
    done = 0
    for i, (k, what, case) in enumerate(fails):
        if case.get("kind") not in ("method", "regen") or done >= budget:
            continue
        m = case.get("method") or case.get("member")
        cls = case.get("class")
        if case.get("difference") == "class-header":
            m = "__init__"              # the class itself: base classes / MRO are part of the `construct` comparison
        if not m or case.get("difference") in ("order", "postprocessing", "insertion", "drift"):
            continue
        mm = re.match(r"<assign (\w+)>$", m)
        if m.startswith("<") and not mm:
            continue                    # a bare statement (`try:` import block, expression): nothing to call
        if regen is None:
            case["behavioural_witness"] = "not searched: the regenerated module could not be loaded (%s)" % (
                _STATE.get("regen_mod_error") or (_STATE.get("full") or {}).get("why"))
            continue
        done += 1
        try:
            if cls is None:
                w, n = BH.find_witness(ctx.rng, nml_mod, regen, None, mm.group(1) if mm else m)
            else:
                w, n = BH.find_witness(ctx.rng, nml_mod, regen, cls, m if not mm or m.startswith("<assign member") else m)
        except Exception as e:  # noqa
            w, n = None, 0
            case["behavioural_witness_error"] = repr(e)
        if case.get("difference") == "facet" and cls:
            try:
                xsd = os.path.join(fw.REPO, "neuroml", "nml", _STATE["data"]["versions"]["xsd_read"])
                dw = BH.document_witness(ctx.rng, nml_mod, regen, cls, xsd)
            except Exception as e:  # noqa
                dw = None
                case["document_witness_error"] = repr(e)
            if dw:
                case["document_witness"] = dw
                what += ("  DOCUMENT WITNESS (%s): bundled schema: %s; shipped bindings validate(recursive=True): %s; regenerated "
                         "bindings: %s; document: %s" % (dw["path"], dw["bundled_schema"], dw["shipped_bindings_validate"],
                                                         dw["regenerated_bindings_validate"], dw["document"][:600]))
        ctx.count("witness-search:%s" % ("found" if w else "none"))
        case["behavioural_witness"] = w if w else ("none found in %d differential calls: the two versions differ textually; "
                                                   "no input was found on which they behave differently" % n)
        if w:
            what += ("  BEHAVIOURAL WITNESS: on %s, %s — shipped nml.py %s, regenerated %s"
                     % (w.get("object", ""), w.get("call", ""), w.get("shipped_result"), w.get("regenerated_result")))
        fails[i] = (k, what, case)
    return fails


def behaviour_null_stream(ctx, data, full, nml_mod, n_generated):
    """the differential executor on pairs that do NOT differ textually: shipped vs regenerated module must behave alike.
    This is the part of the tie that executes library code (all helper methods + a sample of generated methods)."""
    regen = regen_module(nml_mod)
    if regen is None:
        return
    differing = {(d.get("class"), d.get("member")) for d in RR.compare_tables(full["regen"], full["shipped"])}
    differing |= {(f[2].get("class"), f[2].get("method")) for f in table_failures(data) if f[2].get("kind") == "method"}
    pairs = []
    for c in data["binding"]:
        for a, _, _ in c["items"]:
            if not a.startswith("<") and (c["name"], a) not in pairs:
                pairs.append((c["name"], a))
    helper_pairs = len(pairs)
    gen = [(c["name"], m[0]) for c in full["shipped"]["classes"] for m in c["members"]
           if m[0] not in ("<Expr>", "<assign __hash__>", "<assign subclass>", "__hash__")
           and (c["name"], m[0]) not in pairs and hasattr(nml_mod, c["name"]) and "member_data_items_" in
           getattr(nml_mod, c["name"]).__dict__]
    pairs += ctx.rng.sample(gen, min(n_generated, len(gen)))
    for j, (cls, m) in enumerate(pairs):
        if (cls, m) in differing or m in ("__hash__",):
            continue
        try:
            w, n = BH.find_witness(ctx.rng, nml_mod, regen, cls, m, n_objects=4 if j >= helper_pairs else 8,
                                   n_args=3 if j >= helper_pairs else 5, max_calls=24 if j >= helper_pairs else 60)
        except Exception as e:  # noqa
            ctx.disagree("behaviour-null", {"class": cls, "member": m}, "search runs", "crash %r" % (e,))
            continue
        ctx.corr_evals += n
        ctx.count("behaviour-null:%s" % ("helper" if j < helper_pairs else "generated"), n)
        if w and differing:
            # a textual difference exists (and is reported): methods that CALL the differing one legitimately differ too
            ctx.count("behaviour-propagated-difference")
            ctx.extra.setdefault("behaviour_propagated", [])
            if len(ctx.extra["behaviour_propagated"]) < 8:
                ctx.extra["behaviour_propagated"].append({"class": cls, "member": m, "call": w.get("call"), "object": w.get("object"),
                                                          "shipped": w.get("shipped_result"), "regenerated": w.get("regenerated_result")})
        elif w:
            ctx.disagree("behaviour-null", {"class": cls, "member": m, "object": w.get("object"), "call": w.get("call")},
                         w.get("shipped_result"), w.get("regenerated_result"))


def run_regen_stream(ctx, data, full):
    """the whole-file comparison as evaluated by LEAN on the compiled tables versus the Python reading of the same tables"""
    rc, out = fw.run_driver("C20", [json.dumps({"q": "regendiff"})])
    if rc != 0 or len(out) != 1:
        ctx.disagree("driver", "regendiff: rc=%s, %d lines" % (rc, len(out)), "\n".join(out[-3:]), None)
        return
    r = json.loads(out[0])

    def pos(exp, got):
        o = []
        for i in range(max(len(exp), len(got))):
            a = exp[i] if i < len(exp) else None
            b = got[i] if i < len(got) else None
            if a is None or b is None or (a[0], a[1]) != (b[0], b[1]):
                o.append([i, a[0] if a else "-", b[0] if b else "-"])
        return o
    rmap = {c["name"]: c for c in full["regen"]["classes"]}
    mine = {}
    for c in full["shipped"]["classes"]:
        rr = rmap.get(c["name"])
        if rr is None:
            mine[c["name"]] = "class-only-in-bindings"
        elif rr["bases"] != c["bases"] or [(a, b) for a, b, _ in rr["members"]] != [(a, b) for a, b, _ in c["members"]]:
            mine[c["name"]] = pos(rr["members"], c["members"])
        ctx.corr_evals += 1
    for c in full["regen"]["classes"]:
        if c["name"] not in {x["name"] for x in full["shipped"]["classes"]}:
            mine[c["name"]] = "class-missing-in-bindings"
    lean = {}
    for e in r.get("classes", []):
        lean[e["class"]] = e["members"] if e.get("kind") == "differs" else e.get("kind")
    if lean != mine:
        ctx.disagree("regendiff", {"what": "classes that differ"}, {k: mine[k] for k in sorted(mine)[:4]},
                     {k: lean[k] for k in sorted(lean)[:4]})
    hm = {}
    for c in data["binding"]:
        e = [(a, b) for a, b, _, _ in expected_items(data, c["name"])]
        if e != [(a, b) for a, b, _ in c["items"]]:
            hm[c["name"]] = pos(e, c["items"])
        ctx.corr_evals += 1
    hl = {e["class"]: e["members"] for e in r.get("helpers", [])}
    if hl != hm:
        ctx.disagree("regendiff", {"what": "helper tables that differ"}, {k: hm[k] for k in sorted(hm)[:4]},
                     {k: hl[k] for k in sorted(hl)[:4]})
    facts = {"nclasses": [len(full["regen"]["classes"]), len(full["shipped"]["classes"])],
             "nmembers": [sum(len(c["members"]) for c in full["regen"]["classes"]),
                          sum(len(c["members"]) for c in full["shipped"]["classes"])],
             "drift": [full["regen"]["drift_removed"], full["regen"]["with_base"]],
             "module": pos(full["regen"]["module"], full["shipped"]["module"]),
             "imports": full["regen"]["imports"] == full["shipped"]["imports"],
             "rawUserIsModel": not model_insertion_failures(data, full),
             "postprocessing": not any(f[0].startswith("C20:postprocessing") for f in regen_failures(full, set()))}
    for k, v in facts.items():
        ctx.corr_evals += 1
        if r.get(k) != v:
            ctx.disagree("regendiff", {"field": k}, v, r.get(k))
    ctx.extra["regeneration"] = {"classes": facts["nclasses"], "class_body_statements": facts["nmembers"],
                                 "generateds_header": full["header_version"], "generateds_installed": full["installed_version"],
                                 "n1_statements_removed": full["regen"]["drift_removed"], "classes_with_base": full["regen"]["with_base"],
                                 "ruff": full["ruff"], "timing": _STATE.get("timing")}


# ================================================================================================ 2. run-time oracle
SKIP_NS = {"__module__", "__qualname__", "__dict__", "__weakref__", "__doc__", "__firstlineno__", "__static_attributes__"}


def code_sig(co):
    ins = []
    for i in dis.get_instructions(co):
        av = i.argval
        if hasattr(av, "co_code"):
            av = ("<code>", code_sig(av))
        elif isinstance(av, frozenset):
            av = ("<frozenset>", sorted(map(repr, av)))
        else:
            av = repr(av)
        ins.append((i.opname, av))
    return (co.co_name, co.co_argcount, co.co_posonlyargcount, co.co_kwonlyargcount, co.co_flags,
            co.co_varnames, co.co_freevars, co.co_cellvars, tuple(ins))


def obj_sig(o):
    """byte-code level signature of a class attribute (docstrings and positions do not enter)"""
    if isinstance(o, property):
        return ("property", obj_sig(o.fget), obj_sig(o.fset), obj_sig(o.fdel))
    if isinstance(o, (staticmethod, classmethod)):
        return (type(o).__name__, obj_sig(o.__func__))
    if hasattr(o, "__code__"):
        return ("function", code_sig(o.__code__), repr(o.__defaults__), repr(o.__kwdefaults__),
                sorted((k, repr(v)) for k, v in getattr(o, "__annotations__", {}).items()))
    if o is None:
        return None
    return ("value", type(o).__name__, repr(o))


def runtime_oracle(ctx, data, nml_mod, hm_mod):
    """imported library vs exec'd spec sources; returns set of (class, name) that differ"""
    bad = set()
    for c in data["binding"]:
        cls = getattr(nml_mod, c["name"], None)
        if cls is None:
            bad.add((c["name"], "<class not importable>"))
            continue
        src = ""
        for sp in hm_mod.METHOD_SPECS:
            if sp.match_name(c["name"]):
                src += sp.get_interpolated_source({"class_name": c["name"]})
        boundary = cls.__dict__.get("_buildChildren")
        bline = boundary.__code__.co_firstlineno if hasattr(boundary, "__code__") else None
        own_after = set()
        for k, v in cls.__dict__.items():
            f = v.fget if isinstance(v, property) else getattr(v, "__func__", v)
            if hasattr(f, "__code__") and bline is not None and f.__code__.co_firstlineno > bline \
                    and f.__code__.co_filename == nml_mod.__file__:
                own_after.add(k)
        if not src.strip():
            for k in own_after:
                bad.add((c["name"], k))
            continue
        ns = dict(vars(nml_mod))
        code = compile("class %s:\n    pass\n%s" % (c["name"], src), "<spec sources for %s>" % c["name"], "exec",
                       dont_inherit=True)
        exec(code, ns)
        want = {k: v for k, v in vars(ns[c["name"]]).items() if k not in SKIP_NS}
        for k, v in want.items():
            ctx.count("oracle:runtime-method")
            if k not in cls.__dict__ or obj_sig(cls.__dict__[k]) != obj_sig(v):
                bad.add((c["name"], k))
        for k in own_after - set(want):
            bad.add((c["name"], k))
    return bad


def unmangle(cls, name):
    p = "_%s__" % cls.lstrip("_")
    return "__" + name[len(p):] if name.startswith(p) else name


def lxml_types(xsd_path):
    from lxml import etree
    t = etree.parse(xsd_path)
    ns = {"xs": "http://www.w3.org/2001/XMLSchema"}
    return [str(x) for x in t.xpath("//xs:complexType/@name", namespaces=ns)]


def writer_schema_file(neuroml):
    """file name the REAL writer puts into xsi:schemaLocation"""
    import neuroml.writers as W
    d = tempfile.mkdtemp(prefix="verif_c20_")
    try:
        p = os.path.join(d, "doc.nml")
        W.NeuroMLWriter.write(neuroml.NeuroMLDocument(id="c20doc"), p)
        from lxml import etree
        root = etree.parse(p).getroot()
        loc = root.get("{http://www.w3.org/2001/XMLSchema-instance}schemaLocation") or ""
        toks = loc.split()
        return toks[-1].rsplit("/", 1)[-1] if toks else "<no schemaLocation>"
    finally:
        shutil.rmtree(d, ignore_errors=True)


def script_schema_file():
    """SCHEMA_FILE as the REAL regenerate-nml.sh computes it (its two assignment lines, run by bash, read-only)"""
    nml_dir = os.path.join(fw.REPO, "neuroml", "nml")
    lines = [ln for ln in open(os.path.join(nml_dir, "regenerate-nml.sh")).read().split("\n")
             if re.match(r"^(NEUROML_VERSION|SCHEMA_FILE)=", ln)]
    if len(lines) != 2 or not shutil.which("bash"):
        return None
    p = subprocess.run(["bash", "-c", "\n".join(lines) + '\nprintf "%s" "$SCHEMA_FILE"'], cwd=nml_dir,
                       stdout=subprocess.PIPE, stderr=subprocess.DEVNULL, text=True, timeout=60)
    return p.stdout


def header_xsd_independent():
    txt = open(os.path.join(fw.REPO, "neuroml", "nml", "nml.py")).read(4000)
    m = re.search(r"^# Command line arguments:\n#\s+(\S+)\s*$", txt, re.M)
    return m.group(1) if m else None


# ================================================================================================ 3. correspondence
def gds_module():
    if "gds" in _STATE:
        return _STATE["gds"]
    g = None
    exe = shutil.which("generateDS.py") or os.path.join(os.path.dirname(sys.executable), "generateDS.py")
    try:
        if os.path.exists(exe):
            g = _load(exe, "c20_generateDS")
    except BaseException:  # noqa
        g = None
    _STATE["gds"] = g
    return g


NEAR = ["Connection", "ConnectionWD", "Input", "InputW", "ExplicitInput", "Cell", "Cell2CaPools", "Segment",
        "SegmentGroup", "Network", "NeuroMLDocument", "Instance", "Location", ".*", "", "connection", "Cell ",
        "Conn.*", "Input|InputW", "IF_curr_exp", "basePyNNCell"]


def gen_match_case(rng, classes):
    pool = NEAR + rng.sample(classes, 6)
    cls = rng.choice(pool)
    r = rng.random()
    if r < 0.3:
        cn = rng.choice(pool)
    elif r < 0.65:
        cn = [rng.choice(pool) for _ in range(rng.randint(0, 4))]
        if rng.random() < 0.4 and cn:
            cn[rng.randrange(len(cn))] = cls
    elif r < 0.8:
        cn = tuple(rng.choice(pool) for _ in range(rng.randint(0, 3))) + ((cls,) if rng.random() < 0.6 else ())
    elif r < 0.9:
        cn = None
    else:
        cn = rng.choice([cls, cls + "X", cls[:-1], cls.lower(), cls.upper()])
    return cn, cls


def run_match_stream(ctx, hm_mod, data, cases):
    lines, exp = [], []
    for cn, cls in cases:
        try:
            real = bool(hm_mod.MethodSpec(name="x", source="", class_names=cn).match_name(cls))
        except Exception as e:  # noqa  (the modelled rule never raises: a raising match_name is a disagreement, not a crash)
            real = "raises %s" % type(e).__name__
        cnr = TR.class_names_repr(cn)
        lines.append(json.dumps({"q": "match", "cn": cnr, "cls": cls}))
        exp.append(real)
    rc, out = fw.run_driver("C20", lines)
    if rc != 0 or len(out) != len(lines):
        ctx.disagree("driver", "match stream: rc=%s, %d/%d lines" % (rc, len(out), len(lines)), "\n".join(out[-3:]), None)
        return
    for (cn, cls), real, o in zip(cases, exp, out):
        ctx.corr_evals += 1
        m = json.loads(o).get("r")
        ctx.count("match:%s:%s" % (TR.class_names_repr(cn)["kind"], real))
        if m != real:
            ctx.disagree("match_name", {"class_names": repr(cn), "cls": cls}, real, m)


def run_table_stream(ctx, hm_mod, data):
    """generateDS's generateUserMethods (or its 6-line loop when generateDS is not importable) on the REAL
    helper module vs the Lean `regenerated` evaluated on the compiled table; also shipped/summary read back"""
    g = gds_module()
    classes = [c["name"] for c in data["binding"]]
    probe = classes + ["C20NoSuchClass"]
    lines = [json.dumps({"q": "table", "cls": c}) for c in probe] + [json.dumps({"q": "summary"})]
    rc, out = fw.run_driver("C20", lines)
    if rc != 0 or len(out) != len(lines):
        ctx.disagree("driver", "table stream: rc=%s, %d/%d lines" % (rc, len(out), len(lines)), "\n".join(out[-3:]), None)
        return
    shipped = {c["name"]: [[a, str(b)] for a, b, _ in c["items"]] for c in data["binding"]}

    class El:
        def __init__(self, n):
            self.n = n

        def getCleanName(self):
            return self.n
    for c, o in zip(probe, out):
        r = json.loads(o)
        chunks = []
        if g is not None:
            old = g.UserMethodsModule
            g.UserMethodsModule = hm_mod
            try:
                g.generateUserMethods(chunks.append, El(c))
            finally:
                g.UserMethodsModule = old
            ctx.count("generator:generateDS.generateUserMethods")
        else:
            for sp in hm_mod.METHOD_SPECS:
                if sp.match_name(c):
                    chunks.append(sp.get_interpolated_source({"class_name": c}))
            ctx.count("generator:replicated-loop")
        real = [[a, str(b)] for a, b, _ in TR.items_of(TR.body_of_source("".join(chunks)))]
        ctx.corr_evals += 1
        if r.get("regenerated") != real:
            ctx.disagree("generateUserMethods", {"cls": c}, real[:6], (r.get("regenerated") or [])[:6])
        if c in shipped and r.get("shipped") != shipped[c]:
            ctx.disagree("table-readback", {"cls": c}, shipped[c][:6], (r.get("shipped") or [])[:6])
    s = json.loads(out[-1])
    ctx.corr_evals += 1
    mine = {"classes": classes, "complexTypes": data["schema"]["complex"]}
    for k, v in mine.items():
        if s.get(k) != v:
            ctx.disagree("table-readback", {"field": k}, v[:5], (s.get(k) or [])[:5])
    ctx.extra["table_summary"] = {"classes": len(s.get("classes", [])), "complexTypes": len(s.get("complexTypes", [])),
                                  "specs": s.get("nspecs"), "versions": {k: v for k, v in s.get("versions", {}).items()
                                                                         if k in ("current", "headerXsd", "writerFile",
                                                                                  "scriptFile")}}
    # the name mapping of the translator vs generateDS's own functions
    if g is not None:
        nml_dir = os.path.join(fw.REPO, "neuroml", "nml")
        nt = dict(g.NameTable)
        try:
            import csv
            with open(os.path.join(nml_dir, "name_table.csv"), newline="") as fh:
                for row in csv.reader(fh):
                    if len(row) >= 2:
                        nt[row[0]] = row[1]
        except OSError:
            pass
        mine_t = TR.load_nametable(nml_dir, [])
        for n in data["schema"]["complex_raw"] + ["a.b-c:d", "type", "class", "float", "Base.Cell", "IF_curr_exp"]:
            ctx.corr_evals += 1
            c1 = g.cleanupName(n)
            real = g.cleanupName(nt.get(c1, c1))
            mine_n = TR.map_type_name(n, mine_t)
            if real != mine_n:
                ctx.disagree("name-mapping", {"xsd_name": n}, real, mine_n)


# ================================================================================================ 4. translator self-validation
FILES = ["neuroml/__version__.py", "neuroml/__init__.py", "neuroml/writers.py", "neuroml/nml/nml.py",
         "neuroml/nml/helper_methods.py", "neuroml/nml/name_table.csv", "neuroml/nml/regenerate-nml.sh",
         "neuroml/nml/config.py"]


def scratch_tree(root, replaced):
    """a tree with the files the translator reads: symlinks to fw.REPO except `replaced` {relpath: text}"""
    nml_dir = os.path.join(fw.REPO, "neuroml", "nml")
    rels = list(FILES) + ["neuroml/nml/" + f for f in os.listdir(nml_dir) if f.endswith(".xsd")]
    um = os.path.basename(_STATE["data"]["helper_file"]) if "data" in _STATE else "helper_methods.py"
    if "neuroml/nml/" + um not in rels:
        rels.append("neuroml/nml/" + um)
    tf = _STATE["data"]["imports"]["template_file"] if "data" in _STATE else "gds_imports-template.py"
    if tf and "neuroml/nml/" + tf not in rels:
        rels.append("neuroml/nml/" + tf)
    for rel in rels:
        dst = os.path.join(root, rel)
        os.makedirs(os.path.dirname(dst), exist_ok=True)
        if os.path.lexists(dst):
            os.remove(dst)
        if rel in replaced:
            with open(dst, "w") as fh:
                fh.write(replaced[rel])
        elif os.path.exists(os.path.join(fw.REPO, rel)):
            os.symlink(os.path.join(fw.REPO, rel), dst)
    for rel, text in replaced.items():
        if rel not in rels:
            dst = os.path.join(root, rel)
            os.makedirs(os.path.dirname(dst), exist_ok=True)
            with open(dst, "w") as fh:
                fh.write(text)


def simple_statement_lines(fn, lines, off):
    """AST line numbers of simple statements of a def that occupy exactly one whole source line (docstring excluded)"""
    out = []
    for n in ast.walk(fn):
        if isinstance(n, (ast.Return, ast.Assign, ast.AugAssign, ast.Expr, ast.Raise, ast.Assert)) \
                and n.lineno == n.end_lineno:
            if isinstance(n, ast.Expr) and isinstance(n.value, ast.Constant):
                continue
            ln = lines[n.lineno + off]
            body = ln.strip()
            if "#" in body or body.endswith(("\\", ":", ",")) or ";" in body or not ln.startswith(" "):
                continue
            try:
                ast.parse(body.replace("PERCENTAGE", "%"))
            except SyntaxError:
                continue
            out.append(n.lineno)
    return sorted(set(out))


def docstring_inner_lines(fn):
    b = fn.body
    if b and isinstance(b[0], ast.Expr) and isinstance(b[0].value, ast.Constant) and isinstance(b[0].value.value, str) \
            and b[0].end_lineno - b[0].lineno >= 2:
        return list(range(b[0].lineno + 1, b[0].end_lineno))
    return []


def mutate_line(rng, line):
    """a one-line edit that changes the statement's AST"""
    ind = line[:len(line) - len(line.lstrip())]
    ops = ["pass", "dup"]
    if " == " in line or " != " in line:
        ops += ["flip", "flip"]
    if re.search(r"\breturn\s+\S", line):
        ops += ["retnone", "retnone"]
    op = rng.choice(ops)
    if op == "pass":
        return ind + "pass", op
    if op == "dup":
        return line + "\n" + line, op
    if op == "flip":
        return (line.replace(" == ", " != ", 1) if " == " in line else line.replace(" != ", " == ", 1)), op
    return ind + "return NotImplemented", op


def preserve_line(rng, line):
    """a one-line edit that must NOT change the normalised AST"""
    ind = line[:len(line) - len(line.lstrip())]
    op = rng.choice(["comment-before", "blank-after", "trailing-comment"])
    if op == "comment-before":
        return ind + "# c20: a comment\n" + line, op
    if op == "blank-after":
        return line + "\n", op
    return line + "  # c20", op


def nml_candidates():
    """(text, [(class, method, FunctionDef)] user defs of nml.py with positions in the file); the generated defs
    (before / including `_buildChildren`) with the line span of their class are kept in _STATE["nml_gen_cands"]"""
    if "nml_cands" in _STATE:
        return _STATE["nml_cands"]
    text = open(os.path.join(fw.REPO, "neuroml", "nml", "nml.py")).read()
    tree = ast.parse(text)
    out, gen = [], []
    for n in tree.body:
        if isinstance(n, ast.ClassDef):
            idx = [i for i, s in enumerate(n.body) if isinstance(s, ast.FunctionDef) and s.name == "_buildChildren"]
            if len(idx) == 1:
                for s in n.body[idx[0] + 1:]:
                    if isinstance(s, ast.FunctionDef):
                        out.append((n.name, s.name, s))
                for s in n.body[:idx[0] + 1]:
                    if isinstance(s, ast.FunctionDef):
                        gen.append((n.name, s.name, s, n.lineno, n.end_lineno))
    _STATE["nml_cands"] = (text, out)
    _STATE["nml_gen_cands"] = gen
    _STATE["nml_class_spans"] = {n.name: (n.lineno, n.end_lineno) for n in tree.body if isinstance(n, ast.ClassDef)}
    return _STATE["nml_cands"]


def helper_candidates(hm_name):
    """[(class_names value, method, FunctionDef, (byte start, byte end) of the `source=` literal, its value)] for
    specs whose `source=` is a plain string literal; a mutant re-writes that literal as repr(new value)"""
    key = "hm_cands"
    if key in _STATE:
        return _STATE[key]
    path = os.path.join(fw.REPO, "neuroml", "nml", hm_name)
    raw = open(path, "rb").read()
    text = raw.decode("utf-8")
    starts = [0]
    for ln in raw.split(b"\n"):
        starts.append(starts[-1] + len(ln) + 1)
    tree = ast.parse(text)
    out = []
    for n in ast.walk(tree):
        if isinstance(n, ast.Call) and getattr(n.func, "id", "") == "MethodSpec":
            kw = {k.arg: k.value for k in n.keywords}
            src, cn = kw.get("source"), kw.get("class_names")
            if not (isinstance(src, ast.Constant) and isinstance(src.value, str) and cn is not None):
                continue
            try:
                cnv = ast.literal_eval(cn)
                body = TR.body_of_source(src.value.replace("PERCENTAGE", "%"))
            except Exception:  # noqa
                continue
            span = (starts[src.lineno - 1] + src.col_offset, starts[src.end_lineno - 1] + src.end_col_offset)
            for s in body:
                if isinstance(s, ast.FunctionDef):
                    out.append((cnv, s.name, s, span, src.value))
    _STATE[key] = (raw, out)
    return _STATE[key]


def selftest(ctx, data, n_mut, n_keep):
    hm_rel = "neuroml/nml/" + data["helper_file"]
    nml_text, ncs = nml_candidates()
    hm_raw, hcs = helper_candidates(data["helper_file"])
    cache = _STATE.setdefault("cache", {})
    root = tempfile.mkdtemp(prefix="verif_c20_")
    # differences already present in the tree under test are not the mutant's
    base = {(f[2].get("class"), f[2].get("method")) for f in table_failures(data) if f[2].get("kind") == "method"}
    try:
        plans = [("mutate", i) for i in range(n_mut)] + [("keep", i) for i in range(n_keep)]
        for mode, i in plans:
            side = "nml" if (i % 2 == 0) else "helper"
            if side == "nml":
                cls, meth, fn = ctx.rng.choice(ncs)
                off, rel = -1, "neuroml/nml/nml.py"
                lines = nml_text.split("\n")
                targets = [cls]
            else:
                cnv, meth, fn, span, value = ctx.rng.choice(hcs)
                off, rel = -3, hm_rel                      # AST line L of "class _:\n pass\n"+source = value line L-3
                lines = value.split("\n")
                targets = [cnv] if isinstance(cnv, str) else (list(cnv) if isinstance(cnv, list) else [])
            if mode == "mutate" or ctx.rng.random() < 0.6:
                cand = simple_statement_lines(fn, lines, off)
                if not cand:
                    continue
                ln = ctx.rng.choice(cand)
                new, op = (mutate_line if mode == "mutate" else preserve_line)(ctx.rng, lines[ln + off])
            else:
                cand = docstring_inner_lines(fn)
                if not cand:
                    continue
                ln = ctx.rng.choice(cand)
                new, op = lines[ln + off] + " (c20 docstring edit)", "docstring"
            lines2 = list(lines)
            lines2[ln + off] = new
            if side == "nml":
                new_text = "\n".join(lines2)
            else:
                new_text = (hm_raw[:span[0]] + repr("\n".join(lines2)).encode("utf-8") + hm_raw[span[1]:]).decode("utf-8")
            before = set(cache)
            try:
                scratch_tree(root, {rel: new_text})
                d2 = TR.extract(root, cache)
                fails = table_failures(d2)
            except SyntaxError:
                ctx.count("selftest:unparsable-mutant-skipped")
                continue
            except Exception as e:  # noqa
                ctx.disagree("translator-selftest", {"mode": mode, "side": side, "method": meth, "op": op,
                                                     "line": lines[ln + off].strip()}, "pipeline runs", "crash %r" % (e,))
                continue
            finally:
                for k in set(cache) - before:      # a parsed nml.py is big: keep only the unchanged tree's
                    del cache[k]
            if any("cannot be interpolated/parsed" in g for g in d2["gaps"]):
                ctx.count("selftest:unparsable-mutant-skipped")
                continue
            got = sorted({(f[2].get("class"), f[2].get("method")) for f in fails if f[2].get("kind") == "method"} - base)
            ctx.corr_evals += 1
            ctx.count("selftest:%s:%s:%s" % (mode, side, op))
            desc = {"mode": mode, "side": side, "classes": targets, "method": meth, "op": op,
                    "line": lines[ln + off].strip()[:100]}
            if mode == "mutate":
                want = sorted((t, meth) for t in targets)
                named = all(f[2].get("first_difference", {}).get("helper") != f[2].get("first_difference", {}).get("shipped")
                            for f in fails if f[2].get("difference") == "differs")
                want = sorted(set(want) - base)
                if got != want or d2["gaps"] != data["gaps"] or not named:
                    ctx.disagree("translator-selftest", desc, want, {"reported": got, "gaps": d2["gaps"][:2]})
            else:
                if got or d2["gaps"] != data["gaps"]:
                    ctx.disagree("translator-selftest", desc, [], {"reported": got, "gaps": d2["gaps"][:2]})
    finally:
        shutil.rmtree(root, ignore_errors=True)


def selftest_generated(ctx, full, nml_mod, n_fast, n_full):
    """second pass: one-line edits of GENERATED methods of a scratch copy of nml.py (`export`, `__init__`, `validate_…`,
    `build…`) must be reported by the whole-file comparison at exactly the edited (class, method) pair; comment /
    blank-line edits must not. Fast path: only the edited class is re-translated; `n_full` edits go through the
    whole-file translation."""
    if not full.get("ok"):
        return
    nml_text, _ = nml_candidates()
    gen = _STATE.get("nml_gen_cands") or []
    if not gen:
        return
    lines = nml_text.split("\n")
    rmap = {c["name"]: c for c in full["regen"]["classes"]}
    base = {(d.get("class"), d.get("member")) for d in RR.compare_tables(full["regen"], full["shipped"])}
    done_full = 0
    for i in range(n_fast + n_full):
        whole = i >= n_fast
        cls, meth, fn, c0, c1 = ctx.rng.choice(gen)
        mode = "mutate" if (i % 4 != 3) else "keep"
        cand = simple_statement_lines(fn, lines, -1)
        if not cand or cls not in rmap:
            continue
        ln = ctx.rng.choice(cand)
        new, op = (mutate_line if mode == "mutate" else preserve_line)(ctx.rng, lines[ln - 1])
        lines2 = list(lines)
        lines2[ln - 1] = new
        try:
            if whole:
                t = RR.file_table("\n".join(lines2))
                got = sorted({(d.get("class"), d.get("member")) for d in RR.compare_tables(full["regen"], t)} - base)
                done_full += 1
            else:
                seg = "\n".join(lines2[c0 - 1:c1 + (1 if op in ("dup", "comment-before", "blank-after") else 0)])
                node = ast.parse(seg).body[0]
                its = TR.items_of(list(node.body))
                got = sorted({(cls, d["method"]) for d in TR.compare_items(rmap[cls]["members"], its)} - base)
        except SyntaxError:
            ctx.count("selftest:unparsable-mutant-skipped")
            continue
        ctx.corr_evals += 1
        ctx.count("selftest-generated:%s:%s:%s" % (mode, "whole-file" if whole else "class", op))
        want = [(cls, meth)] if mode == "mutate" else []
        if (cls, meth) in base:
            continue
        if got != want:
            ctx.disagree("translator-selftest-generated", {"mode": mode, "class": cls, "method": meth, "op": op,
                                                           "line": lines[ln - 1].strip()[:100], "whole_file": whole}, want, got)


PROBE_SPEC = (
    "\n\nMETHOD_SPECS = tuple(METHOD_SPECS) + (\n    MethodSpec(\n        name=\"c20_probe\",\n"
    "        source=\'\'\'\n    def c20_probe(self, n=100):\n        \"\"\"probe\"\"\"\n"
    "        return \"%(class_name)s:\" + str(n PERCENTAGE 7)\n\'\'\',\n        class_names=[\"Input\", \"InputW\"],\n    ),\n)\n")


def selftest_interpolation(ctx, data):
    """second pass: a spec whose source mentions %(class_name)s (so that two classes get DIFFERENT statements from one
    spec) is modelled: a scratch tree with such a spec and the matching per-class methods in nml.py must be quiet and
    gap-free; the wrong class name in one of the two shipped copies must be reported at exactly that pair."""
    hm_rel = "neuroml/nml/" + data["helper_file"]
    nml_text, _ = nml_candidates()
    spans = _STATE.get("nml_class_spans") or {}
    if "Input" not in spans or "InputW" not in spans:
        return
    hm_text = open(os.path.join(fw.REPO, hm_rel)).read() + PROBE_SPEC
    cache = _STATE.setdefault("cache", {})
    base = {(f[2].get("class"), f[2].get("method")) for f in table_failures(data) if f[2].get("kind") == "method"}
    root = tempfile.mkdtemp(prefix="verif_c20_")
    try:
        variants = [("agree", {"Input": "Input", "InputW": "InputW"})]
        if ctx.tier == "thorough" or ctx.search_mult > 1:
            variants.append(("wrong-name", {"Input": "Input", "InputW": "Input"}))
        for tag, names in variants:
            lines = nml_text.split("\n")
            for cls in sorted(names, key=lambda c: -spans[c][1]):
                end = spans[cls][1]
                lines[end:end] = ["", "    def c20_probe(self, n=100):", "        return \"%s:\" + str(n %% 7)" % names[cls]]
            before = set(cache)
            try:
                scratch_tree(root, {hm_rel: hm_text, "neuroml/nml/nml.py": "\n".join(lines)})
                d2 = TR.extract(root, cache)
                fails = table_failures(d2)
            except Exception as e:  # noqa
                ctx.disagree("translator-selftest-interpolation", {"variant": tag}, "pipeline runs", "crash %r" % (e,))
                continue
            finally:
                for k in set(cache) - before:
                    del cache[k]
            got = sorted({(f[2].get("class"), f[2].get("method")) for f in fails if f[2].get("kind") == "method"} - base)
            sp = next((x for x in d2["specs"] if x["name"] == "c20_probe"), None)
            ctx.corr_evals += 1
            ctx.count("selftest-interpolation:%s" % tag)
            want = [] if tag == "agree" else [("InputW", "c20_probe")]
            rows = sorted(c for c, _ in sp["per_class"]) if sp else None
            if got != want or d2["gaps"] != data["gaps"] or rows != ["Input", "InputW"]:
                ctx.disagree("translator-selftest-interpolation", {"variant": tag}, {"reported": want, "per_class_rows": ["Input", "InputW"]},
                             {"reported": got, "per_class_rows": rows, "gaps": d2["gaps"][:2]})
    finally:
        shutil.rmtree(root, ignore_errors=True)


# ================================================================================================ run / replay
CORPUS = [
    # class_names values / class names that separate `match_name` from look-alikes (regex, substring, tuple)
    ("Connection", "ConnectionWD"), ("ConnectionWD", "Connection"), (["Connection", "ConnectionWD"], "ConnectionWD"),
    (["Input", "ExplicitInput"], "ExplicitInput"), (["InputW"], "InputW"), ("InputW", "InputW"), (["InputW"], "Input"),
    (("Cell",), "Cell"), (("Cell"), "Cell"), (".*", "Cell"), ("Cell|Network", "Cell"), (None, "Cell"), ([], "Cell"),
    ("", ""), ([""], ""), ("cell", "Cell"), (["Cell", "Cell"], "Cell"), ([["Cell"]], "Cell"),
]


def run(ctx):
    data = _STATE.get("data") or TR.extract(fw.REPO, _STATE.setdefault("cache", {}))
    _STATE["data"] = data
    full = _STATE.get("full") or RR.build_full(fw.REPO, _STATE.setdefault("memo", {}))
    _STATE["full"] = full
    if getattr(ctx, "broken", None):
        # the driver needs the compiled tables even when the theorems over them no longer build
        fw.lake_build(LEAN_EXTRA)
    import neuroml
    import neuroml.nml.nml as nml_mod
    # ---- 1. directed search over the tables
    classes = [c["name"] for c in data["binding"]]
    for c in data["binding"]:
        exp = expected_items(data, c["name"])
        n = max(len(exp), len(c["items"]))
        if n == 0:
            ctx.seen(["method", c["name"], -1, ""], nontrivial=False)
            ctx.count("class-without-helpers")
        for i in range(n):
            nm = exp[i][0] if i < len(exp) else c["items"][i][0]
            ctx.seen(["method", c["name"], i, nm], nontrivial=True)
            ctx.count("method-pair")
    for x in sorted(set(classes) | set(data["schema"]["complex"])):
        ctx.seen(["type", x], nontrivial=True)
        ctx.count("type-pair")
    # second pass: every class-body statement of the shipped file against the re-run regeneration
    for c in full["shipped"]["classes"]:
        for i, m in enumerate(c["members"]):
            ctx.seen(["regen", c["name"], i, m[0]], nontrivial=True)
            ctx.count("regen-pair:%s" % ("user" if m in RR.user_part(c["members"]) else
                                         ("generated-method" if not m[0].startswith("<") else "class-level")))
    for o in data.get("occurrences", []):
        ctx.seen(["occurrence", o["file"], o["line"]], nontrivial=True)
        ctx.count("schema-occurrence:%s" % o["role"])
    fails = table_failures(data)
    named0 = {(f[2].get("class"), f[2].get("method")) for f in fails if f[2].get("kind") == "method"}
    named0 |= {(f[2].get("class"), None) for f in fails if f[2].get("difference") == "order"}
    fails += model_insertion_failures(data, full)
    fails += regen_failures(full, named0)
    try:
        wf = writer_schema_file(neuroml)
    except Exception as e:  # noqa
        wf = "<writer failed: %r>" % (e,)
    fails = attach_witnesses(ctx, fails, nml_mod, budget=ctx.n(6, 12))
    for k, what, case in fails:
        if k == "C20:version:writer-vs-header":
            what += "; the real NeuroMLWriter emits %r" % wf
        ctx.fail(k, what, case)
    named = {(f[2].get("class"), f[2].get("method")) for f in fails if f[2].get("kind") == "method"}
    for c in data["binding"]:
        if c["items"] and len(ctx.samples) < 2:
            e = expected_items(data, c["name"])
            ctx.sample({"class": c["name"], "shipped": [[a, "%032x" % b] for a, b, _ in c["items"][:3]],
                        "from_specs": [[a, "%032x" % b, sp["name"]] for a, b, _, sp in e[:3]]})
    ctx.extra["exhaustive"] = True
    ctx.extra["domain"] = {"method_pairs": ctx.dist.get("method-pair", 0), "type_pairs": ctx.dist.get("type-pair", 0),
                           "specs": len(data["specs"]), "binding_classes": len(classes),
                           "class_body_statements": sum(len(c["members"]) for c in full["shipped"]["classes"]),
                           "schema_occurrences": len(data.get("occurrences", []))}

    # ---- 2. the imported library, by independent routes
    if not os.path.abspath(nml_mod.__file__).startswith(os.path.abspath(fw.REPO) + os.sep):
        ctx.notes.append("neuroml imported from %s, not from %s" % (nml_mod.__file__, fw.REPO))
    hm_mod = TR.load_helper_module(os.path.join(fw.REPO, "neuroml", "nml", data["helper_file"]))
    try:
        bad = runtime_oracle(ctx, data, nml_mod, hm_mod)
    except Exception as e:  # noqa  (e.g. a spec source that no longer compiles)
        bad = set()
        ctx.fail("C20:spec-source-does-not-compile", "exec of the spec sources failed: %r" % (e,), {"kind": "exec"})
    def plain(n):
        mm = re.match(r"<assign (\w+)>$", n)
        return mm.group(1) if mm else n
    named_rt = {(c, plain(m)) for c, m in named}
    bad_rt = {(c, unmangle(c, n)) for c, n in bad}
    reordered = {f[2].get("class") for f in fails if f[2].get("difference") == "order"}
    # the insertion rule itself: real match_name vs the modelled reading, on every (spec, class) pair
    for i, sp in enumerate(hm_mod.METHOD_SPECS):
        cn = data["specs"][i]["class_names"] if i < len(data["specs"]) else {"kind": "other"}
        for c in classes:
            model = (cn["kind"] == "str" and cn["v"] == c) or (cn["kind"] == "list" and c in cn["v"])
            try:
                real = bool(sp.match_name(c))
            except Exception as e:  # noqa
                real = "raises %s" % type(e).__name__
            if real != model:
                reordered.add(c)
                ctx.fail("C20:insertion-rule-differs:%s->%s" % (sp.name, c),
                         "MethodSpec.match_name(%r) is %s for spec %s (class_names %r) but the modelled rule (string equality / "
                         "list membership) says %s: regeneration would %s its methods %s %s"
                         % (c, real, sp.name, sp.class_names, model, "insert" if real else "not insert",
                            "into" if real else "in", c), {"kind": "rule", "spec": sp.name, "class": c})
    for cls, m in sorted(bad_rt - named_rt):
        if cls in reordered:        # which def of a name wins depends on the order: already reported for the class
            continue
        # byte code differs although the normalised ASTs agree: the translator misses a real difference
        ctx.fail("C20:method-differs-bytecode:%s.%s" % (cls, m),
                 "%s.%s: run-time byte code of neuroml.nml.nml differs from the exec'd spec source, but the AST digests agree"
                 % (cls, m), {"kind": "method", "class": cls, "method": m, "difference": "bytecode"})
        ctx.disagree("oracle-vs-translator", {"class": cls, "method": m}, "byte code differs", "digests equal")
    for cls, m in sorted(named_rt - bad_rt):
        its = [it[0] for it in next(c for c in data["binding"] if c["name"] == cls)["items"]]
        exp_names = [e[0] for e in expected_items(data, cls)]
        kinds = {x[2].get("difference") for x in fails if x[2].get("class") == cls and plain(x[2].get("method")) == m}
        # a definition that is overridden further down the class body is invisible at run time; everything else must show
        if kinds == {"differs"} and [plain(i) for i in its].count(m) == 1 and [plain(i) for i in exp_names].count(m) == 1:
            ctx.disagree("oracle-vs-translator", {"class": cls, "method": m}, "byte code equal", "digests differ")
    rt = sorted(k for k, v in vars(nml_mod).items() if isinstance(v, type) and v.__module__ == nml_mod.__name__
                and "member_data_items_" in v.__dict__)
    xsd = os.path.join(os.path.dirname(nml_mod.__file__), "NeuroML_%s.xsd" % neuroml.current_neuroml_version)
    tab = TR.load_nametable(os.path.dirname(nml_mod.__file__), [])
    lx = sorted(TR.map_type_name(x, tab) for x in lxml_types(xsd)) if os.path.exists(xsd) else []
    ctx.count("oracle:runtime-classes", len(rt))
    if rt != lx:
        for x in sorted(set(rt) ^ set(lx)):
            k = "C20:class-without-complextype:%s" % x if x in rt else "C20:complextype-without-class:%s" % x
            if not any(f[0] == k for f in fails):
                ctx.disagree("oracle-vs-translator", {"type": x}, "run-time/lxml differ", "table equal")
    hx = header_xsd_independent()
    ctx.count("oracle:writer")
    if wf != hx and not any(f[0] == "C20:version:writer-vs-header" for f in fails):
        ctx.fail("C20:version:writer-vs-header",
                 "the real writer emits schemaLocation file %r, the bindings' header names %r" % (wf, hx),
                 {"kind": "version", "check": "writer-vs-header"})
    sf = script_schema_file()
    if sf is not None:
        ctx.count("oracle:bash-pipeline")
        if sf != hx and not any(f[0].startswith("C20:version:script") for f in fails):
            ctx.fail("C20:version:script-vs-header",
                     "bash computes SCHEMA_FILE=%r from regenerate-nml.sh, the bindings' header names %r" % (sf, hx),
                     {"kind": "version", "check": "script-vs-header"})
        if sf != data["versions"]["script_pre"] + data["versions"]["script_version"] + data["versions"]["script_post"]:
            ctx.disagree("script-pipeline", {"what": "translated grep|cut|tr vs bash"}, sf,
                         data["versions"]["script_pre"] + data["versions"]["script_version"] + data["versions"]["script_post"])
        ctx.corr_evals += 1
    ctx.sample({"writer_schema_file": wf, "header_xsd": hx, "script_schema_file": sf,
                "current": neuroml.current_neuroml_version})
    ctx.sample({"runtime_binding_classes": len(rt), "lxml_complex_types": len(lx)})

    # ---- 3. correspondence with the Lean model / compiled table
    cases = list(CORPUS)
    for sp in hm_mod.METHOD_SPECS:
        for c in classes:
            cases.append((sp.class_names, c))
    for _ in range(ctx.n(400, 4000) * ctx.search_mult):
        cases.append(gen_match_case(ctx.rng, classes))
    run_match_stream(ctx, hm_mod, data, cases)
    run_table_stream(ctx, hm_mod, data)
    run_regen_stream(ctx, data, full)
    try:
        # ---- 3b. behaviour: shipped module vs regenerated module on generated objects (no textual difference => none in behaviour)
        behaviour_null_stream(ctx, data, full, nml_mod, ctx.n(120, 1500) * (1 if ctx.search_mult == 1 else 2))

        # ---- 4. translator validation on scratch mutants
        selftest(ctx, data, ctx.n(8, 120), ctx.n(6, 60))
        selftest_generated(ctx, full, nml_mod, ctx.n(24, 400), ctx.n(1, 4))
        selftest_interpolation(ctx, data)
    finally:
        ctx.extra["behaviour_call_timeouts"] = BH.TIMEOUTS[0]
        cl = _STATE.pop("regen_cleanup", None)
        _STATE.pop("regen_mod", None)
        if cl:
            cl()


def replay(ctx, payload):
    """re-evaluate one stored (class, method) / whole-file / type / version case on fw.REPO's current tree; for a
    (class, member) pair also search again an input on which the shipped and the regenerated version behave differently"""
    case = payload.get("case", {})
    data = TR.extract(fw.REPO)
    _STATE["data"] = data
    fails = table_failures(data)
    key = payload.get("key")
    full = None
    if case.get("kind") in ("regen", "method"):
        full = RR.build_full(fw.REPO, _STATE.setdefault("memo", {}))
        _STATE["full"] = full
        named0 = {(f[2].get("class"), f[2].get("method")) for f in fails if f[2].get("kind") == "method"}
        fails += model_insertion_failures(data, full) + regen_failures(full, named0)
    hit = [f for f in fails if f[0] == key] or [
        f for f in fails if case.get("kind") in ("method", "regen") and f[2].get("class") == case.get("class")
        and (f[2].get("method") or f[2].get("member")) == (case.get("method") or case.get("member"))]
    out = {"fails": bool(hit), "key": key, "case": case, "gaps": data["gaps"] + (full["gaps"] if full else [])}
    if hit and full is not None:
        import neuroml.nml.nml as nml_mod
        try:
            hit = attach_witnesses(ctx, hit[:1], nml_mod, budget=1)
        finally:
            cl = _STATE.pop("regen_cleanup", None)
            _STATE.pop("regen_mod", None)
            if cl:
                cl()
    if hit:
        out["what"] = hit[0][1]
        out["now"] = hit[0][2]
        out["behavioural_witness"] = hit[0][2].get("behavioural_witness")
    if case.get("kind") == "method":
        c = next((c for c in data["binding"] if c["name"] == case.get("class")), None)
        exp = expected_items(data, case.get("class"))
        h = [ast.unparse(s) for a, b, s, _ in exp if a == case.get("method")]
        g = [ast.unparse(s) for a, b, s in (c["items"] if c else []) if a == case.get("method")]
        out["helper_methods_normalised"] = h
        out["nml_py_normalised"] = g
    if case.get("kind") == "regen" and full is not None and case.get("class"):
        for side in ("regen", "shipped"):
            c = next((c for c in full[side]["classes"] if c["name"] == case.get("class")), None)
            out[("regenerated" if side == "regen" else "nml_py") + "_normalised"] = [
                ast.unparse(s)[:4000] for a, b, s in (c["members"] if c else []) if a == case.get("member")]
    if case.get("kind") == "version":
        out["versions"] = {k: v for k, v in data["versions"].items() if k != "bundled"}
        out["occurrences"] = data.get("occurrences")
    return out
