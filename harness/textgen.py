"""Text-level helpers for C01 / C04: model trees with string names, lxml canonicalisation, hand-mangled presentation
variants of written XML text, malformed texts.  (New in the second pass; bindgen.py is left alone.)"""
import json
import re

import bindgen

NS = "http://www.neuroml.org/schema/neuroml2"
TAG_RE = re.compile(r"(<[^>]*>)")


def jline(d):
    return json.dumps(d, ensure_ascii=False)


def tnode_of_tree(t):
    """bindgen canonical tree (names as strings) -> driver TNode"""
    return {"g": t["tag"], "a": [[k, v] for k, v in t["attrs"]], "t": t["text"], "c": [tnode_of_tree(c) for c in t["children"]]}


def qname(el, name):
    """lxml name -> the qualified name as written ({ns}local -> prefix:local; default namespace -> local)"""
    if not isinstance(name, str) or not name.startswith("{"):
        return name
    ns, local = name[1:].split("}")
    for p, u in el.nsmap.items():
        if u == ns and p is not None:
            return "%s:%s" % (p, local)
    return local


def lx_to_tnode(el):
    kids = [c for c in el if isinstance(c.tag, str)]
    if kids:
        text = None
    else:
        # all character data of a childless element (comments / PIs split it into text + tails)
        text = (el.text or "") + "".join((c.tail or "") for c in el)
    return {"g": qname(el, el.tag), "a": [[qname(el, k), v] for k, v in el.attrib.items()], "t": text,
            "c": [lx_to_tnode(c) for c in kids]}


def canon_model(t):
    """model parse result in the same canonical form: namespace declarations are not attributes (Namespaces in XML
    §3), `<a/>` and `<a></a>` coincide"""
    kids = t["c"]
    return {"g": t["g"], "a": [[k, v] for k, v in t["a"] if k != "xmlns" and not k.startswith("xmlns:")],
            "t": None if kids else (t["t"] or ""), "c": [canon_model(c) for c in kids]}


def lx_parse(text, compat=True):
    from lxml import etree
    parser = etree.ETCompatXMLParser() if compat else etree.XMLParser(remove_comments=True)
    return etree.fromstring(text.encode("utf-8"), parser)


# ------------------------------------------------------------ strings
XML_SPECIAL = ["<", ">", "&", '"', "'", "\n", "]]>", " ", "  ", "&amp;", "&#10;", "&lt;", "&quot;", "é", "µ", "€", "\U0001F600",
               "\\", "%s", "%", "{", "/>", "</a>", "<!--", "-->", "--", "?>", "=", "\"'", "'\"", ";", "&#", "#x41;", "\x7f", " "]
PLAIN = list("abcXYZ019_-.:")


def rand_attr_string(rng, tab=False):
    n = rng.choice([0, 1, 2, 3, 5, 9])
    out = []
    for _ in range(n):
        r = rng.random()
        if r < 0.5:
            out.append(rng.choice(XML_SPECIAL))
        elif tab and r < 0.6:
            out.append(rng.choice(["\t", "\r", "\r\n"]))
        else:
            out.append(rng.choice(PLAIN))
    return "".join(out)


def rand_text_string(rng, cdata=False):
    s = rand_attr_string(rng)
    if cdata and rng.random() < 0.3:
        k = rng.randint(0, len(s))
        s = s[:k] + rng.choice(["<![CDATA[zz]]>", "<![CDATA[", "<![CDATA[a&b<c]]>x<![CDATA[]]>"]) + s[k:]
    elif "<![CDATA[" in s:
        s = s.replace("<![CDATA[", "<!CDATA")
    return s


# ------------------------------------------------------------ presentation variants of WRITTEN text
CHARREF = {"&lt;": ["&#60;", "&#x3c;", "&#x3C;", "&#060;"], "&gt;": ["&#62;", "&#x3e;", ">"], "&amp;": ["&#38;", "&#x26;"],
           "&quot;": ["&#34;", "&#x22;"], "&#10;": ["&#xA;", "&#xa;", "&#010;"]}
ATTR_RE = re.compile(r"\s+([\w:.\-]+)=(\"[^\"]*\"|'[^']*')")


def split_tag(tag):
    """'<name a="1" b='2'/>' -> (name, [(attr, delimiter, raw)], closing '>' or '/>')"""
    m = re.match(r"<([\w:.\-]+)", tag)
    name = m.group(1)
    closing = "/>" if tag.endswith("/>") else ">"
    body = tag[m.end():len(tag) - len(closing)]
    attrs = [(a.group(1), a.group(2)[0], a.group(2)[1:-1]) for a in ATTR_RE.finditer(body)]
    rebuilt = "".join(" %s=%s%s%s" % (n, d, r, d) for n, d, r in attrs)
    if rebuilt != body:
        return None
    return name, attrs, closing


def respell_refs(rng, raw, in_attr, delim=None):
    """entity / character-reference respellings, and spelling ordinary characters as character references"""
    out = []
    i = 0
    while i < len(raw):
        m = re.match(r"&[#\w]+;", raw[i:])
        if m:
            ref = m.group(0)
            alts = [a for a in CHARREF.get(ref, []) if not (a == ">" and "".join(out).endswith("]"))]
            out.append(rng.choice(alts) if alts and rng.random() < 0.6 else ref)
            i += len(ref)
            continue
        c = raw[i]
        if rng.random() < 0.08 and c not in "\n\r\t":
            out.append(rng.choice(["&#%d;" % ord(c), "&#x%x;" % ord(c)]))
        elif c == "'" and rng.random() < 0.4:
            out.append("&apos;")
        elif c == '"' and rng.random() < 0.4:
            out.append("&quot;")
        elif c == "\n" and not in_attr and rng.random() < 0.3:
            out.append("&#10;")
        else:
            out.append(c)
        i += 1
    return "".join(out)


def mangle(rng, text, kinds=None):
    """-> (kinds applied, variant text).  `text` must be output of the library's writer (one markup construct never
    contains a raw '>' inside an attribute value).  Every rewriting keeps the XML information set."""
    kinds = kinds or rng.sample(["refs", "quotes", "attr-ws", "attr-order", "comments", "crlf", "empty-pair", "cdata", "xmldecl",
                                 "end-ws", "child-ws"], rng.randint(1, 4))
    parts = TAG_RE.split(text)
    out = []
    n_tags = sum(1 for p in parts if p.startswith("<"))
    for idx, p in enumerate(parts):
        if p.startswith("</"):
            if "end-ws" in kinds and rng.random() < 0.5:
                p = p[:-1] + rng.choice([" ", "\n", "  \t"]) + ">"
            out.append(p)
        elif p.startswith("<"):
            st = split_tag(p)
            if st is None:
                return None
            name, attrs, closing = st
            if "attr-order" in kinds:
                rng.shuffle(attrs)
            new = []
            for (n, d, r) in attrs:
                if "refs" in kinds:
                    r = respell_refs(rng, r, True, d)
                if "quotes" in kinds:
                    other = "'" if d == '"' else '"'
                    r2 = r.replace("&quot;", '"') if (d == '"' and other not in r and rng.random() < 0.5) else r
                    if other not in r2 and (d not in r2 or True):
                        if d == '"' and "'" not in r2:
                            r, d = r2, "'"
                        elif d == "'" and '"' not in r:
                            d = '"'
                new.append((n, d, r))
            s = "<" + name
            for (n, d, r) in new:
                if "attr-ws" in kinds:
                    s += rng.choice([" ", "  ", "\n", "\t", " \n  "]) + n + rng.choice(["", " ", "\n"]) + "=" + rng.choice(["", " ", "\t"]) + d + r + d
                else:
                    s += " " + n + "=" + d + r + d
            if "attr-ws" in kinds:
                s += rng.choice(["", " ", "\n", "  "])
            if closing == "/>" and "empty-pair" in kinds and rng.random() < 0.6:
                s += "></" + name + rng.choice(["", " "]) + ">"
            else:
                s += closing
            out.append(s)
            if "comments" in kinds and closing == "/>" and rng.random() < 0.3:
                out.append(rng.choice(["<!-- c -->", "<!--<x a='&'>-->", "<!---->", "<?pi some data?>"]))
        else:
            # character data: either inter-element whitespace or the content of a text element
            nxt = parts[idx + 1] if idx + 1 < len(parts) else ""
            prv = parts[idx - 1] if idx > 0 else ""
            is_content = bool(p) and nxt.startswith("</") and prv.startswith("<") and not prv.startswith("</") and not prv.endswith("/>")
            if is_content:
                if "refs" in kinds:
                    p = respell_refs(rng, p, False)
                if "cdata" in kinds and "]]>" not in p and "&" not in p and rng.random() < 0.7:
                    k = rng.randint(0, len(p))
                    p = p[:k] + "<![CDATA[" + p[k:] + "]]>"
                elif "comments" in kinds and rng.random() < 0.5:
                    k = rng.randint(0, len(p))
                    if p.lstrip() != p and rng.random() < 0.5:
                        k = len(p) - len(p.lstrip())          # right after the leading white space
                    if not re.search(r"&[#\w]*$", p[:k]):
                        p = p[:k] + "<!--x-->" + p[k:]
            elif p.strip() == "" and not (nxt.startswith("</") and prv.startswith("<") and not prv.startswith("</")
                                          and not prv.endswith("/>")):
                if "child-ws" in kinds:
                    p = p + rng.choice(["", "\n\n", "   ", "\t"])
                if "comments" in kinds and rng.random() < 0.3 and idx > 0 and idx + 1 < len(parts):
                    p = p + "<!-- between children -->" + rng.choice(["", "\n"])
            out.append(p)
    v = "".join(out)
    if "xmldecl" in kinds:
        v = rng.choice(['<?xml version="1.0" encoding="UTF-8"?>\n', "<?xml version='1.0'?>", "<!-- header -->\n"]) + v
    if "crlf" in kinds:
        v = v.replace("\n", rng.choice(["\r\n", "\r"]))
    return kinds, v


MALFORMED = [
    '<a b="1"c="2"/>', '<a b="1" b="2"/>', '<a b="x<y"/>', '<a b="x&y"/>', "<a>x&y</a>", "<a>&nbsp;</a>", "<a>]]></a>",
    "<a><b></a></b>", "<a>", "<a/><b/>", "<a b=1/>", "<a b/>", "<a><!-- x -- y --></a>", "<a>\x01</a>", '<a b="\x02"/>',
    "<a>&#0;</a>", "<a>&#xFFFE;</a>", "<a>&#;</a>", "<a>&#x;</a>", "<a b='1' />x", "x<a/>", "<a></a >", "< a/>", "<a><![CDATA[x]]</a>",
    "<1a/>", "<a>&amp</a>", "", "   ", "<a b=\"1'/>", "<a>&#1114112;</a>", "<a>&#xD800;</a>",
]
WELLFORMED_EXTRA = [
    "<a></a >", "<a\n/>", "<a b='1' c=\"2\"\t/>", "<a>&#9;&#13;&#10;</a>", '<a b="&#9;&#13;&#10; \t\n"/>', "<a><![CDATA[]]></a>",
    "<a><![CDATA[<&>]]>x<![CDATA[]]]]><![CDATA[>]]></a>", "<?xml version='1.0'?><!--c--><a/><!--d-->\n", "<a>x<!--c-->y<?p q?>z</a>",
    "<a> <b/> x <c/> </a>", "<a>\r\n</a>", '<a b="x\r\ny\rz"/>', "<a>&apos;&quot;&gt;</a>", "<a b='&lt;&amp;&#x20AC;&#128512;'/>",
    "<a:b c:d='1' xmlns:a='u' xmlns:c='v'/>", "<a>></a>", '<a b=">"/>', "<a>]]&gt;</a>", "<a>]>]]</a>", "<_a.b-c/>",
]


# ------------------------------------------------------------ real writer / model serialiser
def real_export(o, tag, nsdef=""):
    import io
    f = io.StringIO()
    o.export(f, 0, name_=tag, namespacedef_=nsdef)
    return f.getvalue()


def writer_nsdef():
    """the namespacedef string NeuroMLWriter.write passes: observed from what the writer writes for an empty document
    (independent of how write() is spelled); falls back to reading the assignments in the source"""
    try:
        import io as _io
        import neuroml as _n
        import neuroml.writers as _w
        f = _io.StringIO()
        _w.NeuroMLWriter.write(_n.NeuroMLDocument(id="x"), f, close=False)
        m = re.match(r'<neuroml (.*) id="x"/>\n$', f.getvalue(), re.S)
        if m:
            return m.group(1)
    except Exception:
        pass
    return _writer_nsdef_from_source()


def _writer_nsdef_from_source():
    import ast
    import os
    import fw
    src = open(os.path.join(fw.REPO, "neuroml", "writers.py")).read()
    tree = ast.parse(src)
    import neuroml
    for n in ast.walk(tree):
        if isinstance(n, ast.FunctionDef) and n.name == "write":
            env = {"neuroml": neuroml}
            for st in n.body:
                if isinstance(st, (ast.Assign, ast.AugAssign)) and "namespacedef" in ast.unparse(st).split("=")[0]:
                    exec(compile(ast.Module([st], []), "<w>", "exec"), env)
            if "namespacedef" in env:
                return env["namespacedef"]
    return None


def nsdef_extra(nsdef):
    """namespacedef string -> driver `extra` ([[ws, name, quote, raw], ...]); export writes ' ' + namespacedef_"""
    s = " " + nsdef if nsdef else ""
    out, pos = [], 0
    for m in re.finditer(r"(\s+)([\w:.\-]+)=(\"[^\"]*\"|'[^']*')", s):
        if m.start() != pos:
            return None
        out.append([m.group(1), m.group(2), m.group(3)[0], m.group(3)[1:-1]])
        pos = m.end()
    if s[pos:].strip(" ") != "" :
        return None
    return out, s[pos:]


def sort_attrs(t):
    return {"g": t["g"], "a": sorted(t["a"]), "t": t["t"], "c": [sort_attrs(c) for c in t["c"]]}


class Batch:
    """lines for one driver with a continuation per line"""

    def __init__(self, driver):
        self.driver, self.lines, self.conts = driver, [], []

    def add(self, obj, cont):
        self.lines.append(jline(obj))
        self.conts.append(cont)

    def flush(self, ctx):
        import fw
        if not self.lines:
            return
        rc, out = fw.run_driver(self.driver, self.lines)
        if rc != 0 or len(out) != len(self.lines):
            ctx.disagree("driver-" + self.driver, "driver failed rc=%s (%d of %d lines)" % (rc, len(out), len(self.lines)),
                         "\n".join(out[-3:])[:500], None)
        else:
            for cont, l in zip(self.conts, out):
                try:
                    r = json.loads(l)
                except Exception:
                    ctx.disagree("driver-" + self.driver, "unparsable driver output", l[:300], None)
                    continue
                ctx.corr_evals += 1
                cont(r)
        self.lines, self.conts = [], []


def lib_parse(mod, text):
    """root element of `text` through the LIBRARY's own parser configuration (parsexmlstring_)"""
    return mod.parsexmlstring_(text.encode("utf-8"))


EXP_FLOATS = [1e-05, 2e-06, 1e-07, 1e16, 1e22, 3e-10, 7e15, 1e-15, 123456789012345.0, 0.1, 1 / 3.0]


class TGen(bindgen.Gen):
    """bindgen.Gen with floats whose shortest spelling is in exponent form with an integer mantissa (1e-07, 1e16, ...)
    and a negative zero where the attribute is written whenever it is not None"""

    def value(self, a):
        if a["prim"] in ("float", "double") and self.rng.random() < 0.2:
            if self.rng.random() < 0.15:
                # non-finite values (written inf/-inf/nan or, after the C02 repair, INF/-INF/NaN: both parse back)
                return self.rng.choice([float("inf"), float("-inf"), float("nan")])
            if a["guard"][0] == "notNone" and self.rng.random() < 0.15:
                return -0.0
            v = self.rng.choice(EXP_FLOATS)
            return -v if self.rng.random() < 0.3 else v
        if a["prim"] == "int" and self.rng.random() < 0.15:
            # integers that a detour through a float would change
            v = self.rng.choice([2 ** 63 + 1, 10 ** 19 + 7, 12345678901234567891, 2 ** 53 + 1])
            return -v if a["range"] is None and self.rng.random() < 0.3 else v
        return super().value(a)
