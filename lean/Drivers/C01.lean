import NmlVerif.Gen.Bindings
import NmlVerif.DrvCommon
open Lean NmlVerif.Binding Drv

def optStr (j : Json) : Option String := match j with | .str s => some s | _ => none

partial def parseObj (j : Json) : Obj :=
  let c := getNat j "c"
  let attrs := (getArr j "a").toList.map fun p =>
    match p with
    | .arr #[m, v] => ((m.getNat?.toOption).getD 0, optStr v)
    | _ => (0, none)
  let kids := (getArr j "k").toList.map fun p =>
    match p with
    | .arr #[m, .arr xs] => ((m.getNat?.toOption).getD 0, xs.toList.map parseObj)
    | _ => (0, [])
  .mk c attrs (optStr (getObj j "t")) kids

partial def parseNode (j : Json) : XNode :=
  let attrs := (getArr j "a").toList.filterMap fun p =>
    match p with
    | .arr #[m, .str v] => some ((m.getNat?.toOption).getD 0, v)
    | _ => none
  .mk (getNat j "g") attrs (optStr (getObj j "t")) ((getArr j "c").toList.map parseNode)

def jOpt (s : Option String) : Json := match s with | some x => Json.str x | none => Json.null

partial def objJ : Obj → Json
  | .mk c as t ks => Json.mkObj [("c", c), ("a", Json.arr (as.map fun (m, v) => Json.arr #[m, jOpt v]).toArray), ("t", jOpt t),
      ("k", Json.arr (ks.map fun (m, xs) => Json.arr #[m, Json.arr (xs.map objJ).toArray]).toArray)]

partial def nodeJ : XNode → Json
  | .mk g as t cs => Json.mkObj [("g", g), ("a", Json.arr (as.map fun (m, v) => Json.arr #[m, Json.str v]).toArray), ("t", jOpt t),
      ("c", Json.arr (cs.map nodeJ).toArray)]

def flatT := flatten NmlVerif.Gen.Bindings.table

def handle (j : Json) : Json :=
  let fuel := getNat j "fuel"
  match getStr j "op" with
  | "export" =>
    match exportObj flatT fuel (getNat j "tag") (parseObj (getObj j "obj")) with
    | some x => Json.mkObj [("ok", nodeJ x)]
    | none => Json.mkObj [("err", "export")]
  | "build" =>
    match buildObj flatT fuel (getNat j "cls") (parseNode (getObj j "node")) with
    | some o => Json.mkObj [("ok", objJ o)]
    | none => Json.mkObj [("err", "build")]
  | "wf" => Json.mkObj [("wf", WF NmlVerif.Gen.Bindings.table), ("violations", Json.arr ((wfViolations NmlVerif.Gen.Bindings.table).map (fun (n : Nat) => Json.num n)).toArray)]
  | _ => Json.mkObj [("err", "op")]

def main : IO Unit := loop handle
