import NmlVerif.Gen.Bindings
import NmlVerif.Gen.Xsd
import NmlVerif.Gen.Validators
import NmlVerif.DrvCommon
open Lean NmlVerif.Binding NmlVerif.Schema NmlVerif.Facets Drv

def optStr (j : Json) : Option String := match j with | .str s => some s | _ => none

partial def parseObj (j : Json) : Obj :=
  let c := getNat j "c"
  let attrs := (getArr j "a").toList.map fun p =>
    match p with
    | .arr #[m, v] => ((m.getNat?.toOption).getD 0, optStr v)
    | _ => (0, none)
  let kids := (getArr j "k").toList.map fun p =>
    match p with
    | .arr #[m, .arr xs] => ((m.getNat?.toOption).getD 0, xs.toList.map parseObj)
    | _ => (0, [])
  .mk c attrs (optStr (getObj j "t")) kids

def tableT := NmlVerif.Gen.Bindings.table
def pyT := NmlVerif.Gen.Validators.pyTypes
def xsdT := NmlVerif.Gen.Validators.xsdTypes
def pcT := NmlVerif.Gen.Validators.patCheck

/-- the simple-type predicate of the walk: `str`-based types are decided by the MODEL of the generated validators
    (regenerated tables, reference engine); numeric types by the verdicts the harness observed (`bad`) -/
def stModel (bad : List (Nat × String)) : Nat → String → Bool := fun v s =>
  match findPy pyT v with
  | some ty => if ty.base = .str then stPy refEngine pcT pyT v s else !(bad.contains (v, s))
  | none => !(bad.contains (v, s))

def parseVal (j : Json) : PyVal :=
  match getStr j "base" with
  | "int" => .int (getInt j "i")
  | "float" => .float ((getInt j "num" : Rat) / (getNat j "den" : Rat))
  | _ => .str (getStr j "s").toList

def handle (j : Json) : Json :=
  let fuel := getNat j "fuel"
  match getStr j "op" with
  | "validate" =>
    let bad : List (Nat × String) := (getArr j "bad").toList.filterMap fun p =>
      match p with
      | .arr #[v, .str s] => some ((v.getNat?.toOption).getD 0, s)
      | _ => none
    let st : Nat → String → Bool := if getBool j "abstract" then (fun v s => !(bad.contains (v, s))) else stModel bad
    let o := parseObj (getObj j "obj")
    Json.mkObj [("all", validateAll tableT st fuel o), ("old", validateOld tableT st fuel o), ("flat", validateFlat tableT st o)]
  | "children" =>
    -- content model verdict of the sequence matcher for class `cls` on a child-tag word
    let c := getNat j "cls"
    let X := NmlVerif.Gen.Xsd.types
    let w := natList (getObj j "word")
    let gs := fullGroups NmlVerif.Gen.Xsd.groups X X.length c
    Json.mkObj [("seqShaped", seqShaped X X.length c), ("seqOrAll", seqOrAllShaped X X.length c), ("ok", matchSeq (fullElems X X.length c) w),
                ("groupShaped", gs.isSome), ("groupsOk", match gs with | some g => matchGroups g w | none => false)]
  | "simple" =>
    -- one value against one simple type: the generated validator (model) and the schema's value space
    let t := getNat j "t"
    let v := parseVal j
    let py := findPy pyT t
    let x := findXsdT xsdT t
    Json.mkObj [("py", match py with | some ty => Json.bool (runValidator refEngine pcT ty v) | none => Json.null),
                ("xsd", match x with | some xt => Json.bool (xsdValid xt v) | none => Json.null),
                ("plain", match v with | .str s => plainFor pcT.ascii s | _ => true), ("ascii", pcT.ascii),
                ("range", match x with | some xt => xt.base.rangeOK v | none => true),
                ("nlfree", match x with | some xt => nlFree xt | none => true)]
  | "agree" => Json.mkObj [("agree", agree tableT NmlVerif.Gen.Xsd.types),
      ("violations", Json.arr ((agreeViolations tableT NmlVerif.Gen.Xsd.types).map (fun (n : Nat) => Json.num n)).toArray),
      ("facets", facetsAgree NmlVerif.Gen.Xsd.schemaFacets NmlVerif.Gen.Xsd.bindingFacets),
      ("order", contentOrderAgrees tableT NmlVerif.Gen.Xsd.types),
      ("validators", allAgree pyT xsdT),
      ("badValidators", Json.arr ((pyT.filter (fun py => match findXsdT xsdT py.name with
          | some x => !(typeAgrees py x) | none => true)).map (fun py => Json.num py.name)).toArray),
      ("patCheckFullLen", pcT.test == LenTest.fullLen), ("patCheckAscii", pcT.ascii),
      ("floatSpecials", NmlVerif.Gen.Validators.floatSpecials && NmlVerif.Gen.Validators.doubleSpecials)]
  | _ => Json.mkObj [("err", "op")]

def main : IO Unit := loop handle
