import NmlVerif.Gen.Bindings
import NmlVerif.Gen.Xsd
import NmlVerif.DrvCommon
open Lean NmlVerif.Binding NmlVerif.Schema Drv

def optStr (j : Json) : Option String := match j with | .str s => some s | _ => none

partial def parseObj (j : Json) : Obj :=
  let c := getNat j "c"
  let attrs := (getArr j "a").toList.map fun p =>
    match p with
    | .arr #[m, v] => ((m.getNat?.toOption).getD 0, optStr v)
    | _ => (0, none)
  let kids := (getArr j "k").toList.map fun p =>
    match p with
    | .arr #[m, .arr xs] => ((m.getNat?.toOption).getD 0, xs.toList.map parseObj)
    | _ => (0, [])
  .mk c attrs (optStr (getObj j "t")) kids

def tableT := NmlVerif.Gen.Bindings.table

def handle (j : Json) : Json :=
  let fuel := getNat j "fuel"
  match getStr j "op" with
  | "validate" =>
    let bad : List (Nat × String) := (getArr j "bad").toList.filterMap fun p =>
      match p with
      | .arr #[v, .str s] => some ((v.getNat?.toOption).getD 0, s)
      | _ => none
    let st : Nat → String → Bool := fun v s => !(bad.contains (v, s))
    let o := parseObj (getObj j "obj")
    Json.mkObj [("all", validateAll tableT st fuel o), ("old", validateOld tableT st fuel o), ("flat", validateFlat tableT st o)]
  | "children" =>
    -- content model verdict of the sequence matcher for class `cls` on a child-tag word
    let c := getNat j "cls"
    let X := NmlVerif.Gen.Xsd.types
    Json.mkObj [("seqShaped", seqShaped X X.length c), ("seqOrAll", seqOrAllShaped X X.length c), ("ok", matchSeq (fullElems X X.length c) (natList (getObj j "word")))]
  | "agree" => Json.mkObj [("agree", agree tableT NmlVerif.Gen.Xsd.types),
      ("violations", Json.arr ((agreeViolations tableT NmlVerif.Gen.Xsd.types).map (fun (n : Nat) => Json.num n)).toArray),
      ("facets", facetsAgree NmlVerif.Gen.Xsd.schemaFacets NmlVerif.Gen.Xsd.bindingFacets),
      ("order", contentOrderAgrees tableT NmlVerif.Gen.Xsd.types)]
  | _ => Json.mkObj [("err", "op")]

def main : IO Unit := loop handle
