import NmlVerif.Gen.Bindings
import NmlVerif.Gen.Xsd
import NmlVerif.DrvCommon
open Lean NmlVerif.Binding NmlVerif.Schema Drv

def optStr (j : Json) : Option String := match j with | .str s => some s | _ => none

partial def parseObj (j : Json) : Obj :=
  let c := getNat j "c"
  let attrs := (getArr j "a").toList.map fun p =>
    match p with
    | .arr #[m, v] => ((m.getNat?.toOption).getD 0, optStr v)
    | _ => (0, none)
  let kids := (getArr j "k").toList.map fun p =>
    match p with
    | .arr #[m, .arr xs] => ((m.getNat?.toOption).getD 0, xs.toList.map parseObj)
    | _ => (0, [])
  .mk c attrs (optStr (getObj j "t")) kids

def tableT := NmlVerif.Gen.Bindings.table

def handle (j : Json) : Json :=
  let fuel := getNat j "fuel"
  match getStr j "op" with
  | "validate" =>
    let bad : List (Nat × String) := (getArr j "bad").toList.filterMap fun p =>
      match p with
      | .arr #[v, .str s] => some ((v.getNat?.toOption).getD 0, s)
      | _ => none
    let st : Nat → String → Bool := fun v s => !(bad.contains (v, s))
    let o := parseObj (getObj j "obj")
    Json.mkObj [("all", validateAll tableT st fuel o), ("old", validateOld tableT st fuel o), ("flat", validateFlat tableT st o)]
  | "agree" => Json.mkObj [("agree", agree tableT NmlVerif.Gen.Xsd.types),
      ("violations", Json.arr ((agreeViolations tableT NmlVerif.Gen.Xsd.types).map (fun (n : Nat) => Json.num n)).toArray),
      ("facets", facetsAgree NmlVerif.Gen.Xsd.schemaFacets NmlVerif.Gen.Xsd.bindingFacets)]
  | _ => Json.mkObj [("err", "op")]

def main : IO Unit := loop handle
