import NmlVerif.Model.XmlText
import NmlVerif.Gen.Quote
import NmlVerif.DrvCommon
/-! Text-level driver (C01 / C04): the support functions as regenerated from nml.py, the serialiser and the reader. -/
open Lean NmlVerif.XmlText Drv

def optStr (j : Json) : Option String := match j with | .str s => some s | _ => none

partial def parseT (j : Json) : TNode :=
  let attrs := (getArr j "a").toList.filterMap fun p =>
    match p with
    | .arr #[.str m, .str v] => some (m.toList, v.toList)
    | _ => none
  .mk (getStr j "g").toList attrs ((optStr (getObj j "t")).map (·.toList)) ((getArr j "c").toList.map parseT)

def jS (s : Str) : Json := Json.str (String.ofList s)
def jOptS (s : Option Str) : Json := match s with | some x => jS x | none => Json.null

partial def tJ : TNode → Json
  | .mk g as t cs => Json.mkObj [("g", jS g), ("a", Json.arr (as.map fun (m, v) => Json.arr #[jS m, jS v]).toArray), ("t", jOptS t),
      ("c", Json.arr (cs.map tJ).toArray)]

def parseExtra (j : Json) : List CAttr :=
  (getArr j "extra").toList.filterMap fun p =>
    match p with
    | .arr #[.str w, .str n, .str q, .str raw] => some { ws := w.toList, name := n.toList, ws1 := [], ws2 := [], quote := (q.toList.headD '"'), raw := raw.toList }
    | _ => none

def handle (j : Json) : Json :=
  let s := (getStr j "s").toList
  match getStr j "op" with
  | "quote_attrib" => Json.mkObj [("r", jS (NmlVerif.Gen.Quote.quote_attrib s))]
  | "quote_xml" => Json.mkObj [("r", jS (NmlVerif.Gen.Quote.quote_xml s))]
  | "quote_xml_aux" => Json.mkObj [("r", jS (NmlVerif.Gen.Quote.quote_xml_aux s))]
  | "read_attr" => Json.mkObj [("r", jOptS (readAttr s))]
  | "read_text" => Json.mkObj [("r", jOptS (readText s))]
  | "parse_int" => Json.mkObj [("r", match parseInt s with | some i => Json.str (toString i) | none => Json.null)]
  | "parse_bool" => Json.mkObj [("r", match parseBool s with | some b => Json.bool b | none => Json.null)]
  | "fmt_int" => Json.mkObj [("r", jS (fmtInt (getInt j "i")))]
  | "fmt_bool" => Json.mkObj [("r", jS (NmlVerif.Gen.Quote.gds_format_boolean (getBool j "b")))]
  | "serialise" => Json.mkObj [("r", jS (serialiseDoc (parseExtra j) (getNat j "fuel") (parseT (getObj j "tree"))))]
  | "parse" =>
    match parse s with
    | some t => Json.mkObj [("ok", tJ t)]
    | none => Json.mkObj [("err", "not-well-formed")]
  | _ => Json.mkObj [("err", "op")]

def main : IO Unit := loop handle
