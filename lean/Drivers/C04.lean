import NmlVerif.Model.XmlText
import NmlVerif.Model.XmlBind
import NmlVerif.Gen.Quote
import NmlVerif.Gen.Bindings
import NmlVerif.Gen.BindingNames
import NmlVerif.DrvCommon
/-! Text-level driver (C01 / C04): the support functions as regenerated from nml.py, the serialiser and the reader. -/
open Lean NmlVerif.XmlText Drv

def optStr (j : Json) : Option String := match j with | .str s => some s | _ => none

partial def parseT (j : Json) : TNode :=
  let attrs := (getArr j "a").toList.filterMap fun p =>
    match p with
    | .arr #[.str m, .str v] => some (m.toList, v.toList)
    | _ => none
  .mk (getStr j "g").toList attrs ((optStr (getObj j "t")).map (·.toList)) ((getArr j "c").toList.map parseT)

def jS (s : Str) : Json := Json.str (String.ofList s)
def jOptS (s : Option Str) : Json := match s with | some x => jS x | none => Json.null

partial def tJ : TNode → Json
  | .mk g as t cs => Json.mkObj [("g", jS g), ("a", Json.arr (as.map fun (m, v) => Json.arr #[jS m, jS v]).toArray), ("t", jOptS t),
      ("c", Json.arr (cs.map tJ).toArray)]

def parseExtra (j : Json) : List CAttr :=
  (getArr j "extra").toList.filterMap fun p =>
    match p with
    | .arr #[.str w, .str n, .str q, .str raw] => some { ws := w.toList, name := n.toList, ws1 := [], ws2 := [], quote := (q.toList.headD '"'), raw := raw.toList }
    | _ => none

open NmlVerif.Binding NmlVerif.XmlBind in
partial def parseObj (j : Json) : Obj :=
  let c := getNat j "c"
  let attrs := (getArr j "a").toList.map fun p =>
    match p with
    | .arr #[m, v] => ((m.getNat?.toOption).getD 0, optStr v)
    | _ => (0, none)
  let kids := (getArr j "k").toList.map fun p =>
    match p with
    | .arr #[m, .arr xs] => ((m.getNat?.toOption).getD 0, xs.toList.map parseObj)
    | _ => (0, [])
  .mk c attrs (optStr (getObj j "t")) kids

def jOptStr (s : Option String) : Json := match s with | some x => Json.str x | none => Json.null

open NmlVerif.Binding in
partial def objJ : Obj → Json
  | .mk c as t ks => Json.mkObj [("c", c), ("a", Json.arr (as.map fun (m, v) => Json.arr #[m, jOptStr v]).toArray), ("t", jOptStr t),
      ("k", Json.arr (ks.map fun (m, xs) => Json.arr #[m, Json.arr (xs.map objJ).toArray]).toArray)]

def flatT := NmlVerif.Binding.flatten NmlVerif.Gen.Bindings.table
def namesT := NmlVerif.Gen.BindingNames.xmlNames

def handle (j : Json) : Json :=
  let s := (getStr j "s").toList
  match getStr j "op" with
  | "quote_attrib" => Json.mkObj [("r", jS (NmlVerif.Gen.Quote.quote_attrib s))]
  | "quote_xml" => Json.mkObj [("r", jS (NmlVerif.Gen.Quote.quote_xml s))]
  | "quote_xml_aux" => Json.mkObj [("r", jS (NmlVerif.Gen.Quote.quote_xml_aux s))]
  | "read_attr" => Json.mkObj [("r", jOptS (readAttr s))]
  | "read_text" => Json.mkObj [("r", jOptS (readText s))]
  | "parse_int" => Json.mkObj [("r", match parseInt s with | some i => Json.str (toString i) | none => Json.null)]
  | "parse_bool" => Json.mkObj [("r", match parseBool s with | some b => Json.bool b | none => Json.null)]
  | "fmt_int" => Json.mkObj [("r", jS (fmtInt (getInt j "i")))]
  | "fmt_bool" => Json.mkObj [("r", jS (NmlVerif.Gen.Quote.gds_format_boolean (getBool j "b")))]
  | "serialise" => Json.mkObj [("r", jS (serialiseDoc (parseExtra j) (getNat j "fuel") (parseT (getObj j "tree"))))]
  | "write_obj" =>
    if NmlVerif.XmlBind.known namesT (getNat j "tag") then
      match NmlVerif.XmlBind.writeObj namesT flatT (getNat j "fuel") (getNat j "tag") (parseObj (getObj j "obj")) with
      | some t => Json.mkObj [("r", jS t)]
      | none => Json.mkObj [("err", "export")]
    else Json.mkObj [("skip", "tag")]
  | "read_obj" =>
    match NmlVerif.XmlBind.readObj namesT flatT (getNat j "fuel") (getNat j "cls") s with
    | some o => Json.mkObj [("ok", objJ o)]
    | none => Json.mkObj [("err", "read")]
  | "parse" =>
    match parse s with
    | some t => Json.mkObj [("ok", tJ t)]
    | none => Json.mkObj [("err", "not-well-formed")]
  | _ => Json.mkObj [("err", "op")]

def main : IO Unit := loop handle
