import NmlVerif.Model.Hdf5
import NmlVerif.DrvCommon
open Lean NmlVerif.Hdf5 Drv

/-! line-protocol driver for C05: ops `enc` (Doc → H5), `dec` (H5 → Doc), `rt` (Doc → Doc), `sem` (Doc → expected
    semantic value `expect f32 (sem d)`), `f32` (rounding of a list of rationals). Rationals travel as `[num, den]`. -/

/-! ### JSON in -/

def jRat (j : Json) : Rat :=
  match j with
  | .arr #[n, d] => mkRat ((n.getInt?.toOption).getD 0) ((d.getNat?.toOption).getD 1)
  | _ => 0

def jRat? (j : Json) : Option Rat :=
  match j with
  | .arr #[_, _] => some (jRat j)
  | _ => none

def jInt (j : Json) : Int := (j.getInt?.toOption).getD 0
def jInt? (j : Json) : Option Int := j.getInt?.toOption
def jStr (j : Json) : String := match j with | .str s => s | _ => ""
def jStr? (j : Json) : Option String := match j with | .str s => some s | _ => none
def jList (j : Json) : List Json := match j with | .arr a => a.toList | _ => []
def fld (j : Json) (k : String) : Json := getObj j k

def jRef (j : Json) : CellRef :=
  match jList j with
  | [.str "plain", i] => .plain (jInt i)
  | [.str "bracket", p, i] => .bracket (jStr p) (jInt i)
  | [.str "slash", p, i, c] => .slash (jStr p) (jInt i) (jStr c)
  | _ => .plain 0

def jUnit (s : String) : TUnit := if s = "s" then .s else if s = "us" then .us else .ms

def jDelay (j : Json) : Delay :=
  match jList j with
  | [v, .str u] => ⟨jRat v, jUnit u⟩
  | _ => ⟨0, .ms⟩

def jConn (j : Json) : Conn :=
  { id := jInt (fld j "id"), pre := jRef (fld j "pre"), post := jRef (fld j "post"),
    preSeg := jInt (fld j "preSeg"), postSeg := jInt (fld j "postSeg"),
    preFrac := jRat (fld j "preFrac"), postFrac := jRat (fld j "postFrac"),
    weight := jRat? (fld j "weight"), delay := jDelay (fld j "delay"),
    syn := jStr (fld j "syn"), preComp := jStr (fld j "preComp") }

def jConns (j : Json) (k : String) : List Conn := (jList (fld j k)).map jConn

def jProj (j : Json) : Proj :=
  { id := jStr (fld j "id"), pre := jStr (fld j "pre"), post := jStr (fld j "post"), syn := jStr (fld j "syn"),
    conns := jConns j "conns", connWDs := jConns j "connWDs" }

def jGProj (j : Json) : GProj :=
  { id := jStr (fld j "id"), pre := jStr (fld j "pre"), post := jStr (fld j "post"),
    plain := jConns j "plain", insts := jConns j "insts", instWs := jConns j "instWs" }

def jInp (j : Json) : Inp :=
  { id := jInt (fld j "id"), target := jRef (fld j "target"), seg := jInt? (fld j "seg"),
    frac := jRat? (fld j "frac"), weight := jRat? (fld j "weight") }

def jIList (j : Json) : IList :=
  { id := jStr (fld j "id"), comp := jStr (fld j "comp"), pop := jStr (fld j "pop"),
    inputs := (jList (fld j "inputs")).map jInp, inputWs := (jList (fld j "inputWs")).map jInp }

def jInst (j : Json) : Inst :=
  match jList j with
  | [i, x, y, z] => ⟨jInt i, jRat x, jRat y, jRat z⟩
  | _ => ⟨0, 0, 0, 0⟩

def jPair (j : Json) : String × String :=
  match jList j with
  | [a, b] => (jStr a, jStr b)
  | _ => ("", "")

def jPop (j : Json) : Pop :=
  { id := jStr (fld j "id"), comp := jStr (fld j "comp"), size := jInt? (fld j "size"), typ := jStr? (fld j "typ"),
    insts := (jList (fld j "insts")).map jInst, props := (jList (fld j "props")).map jPair }

def jNet (j : Json) : Net :=
  { id := jStr (fld j "id"), notes := jStr? (fld j "notes"), temperature := jStr? (fld j "temperature"),
    pops := (jList (fld j "pops")).map jPop, projs := (jList (fld j "projs")).map jProj,
    eprojs := (jList (fld j "eprojs")).map jGProj, cprojs := (jList (fld j "cprojs")).map jGProj,
    ilists := (jList (fld j "ilists")).map jIList, nSynConn := getNat j "nSyn", nExplicit := getNat j "nExp" }

def jComp (j : Json) : Comp :=
  match jList j with
  | [a, b, c] => ⟨jStr a, jStr b, jStr c⟩
  | _ => ⟨"", "", ""⟩

def jDoc (j : Json) : Doc :=
  { id := jStr (fld j "id"), notes := jStr? (fld j "notes"), nets := (jList (fld j "nets")).map jNet,
    top := (jList (fld j "top")).map jComp }

def jAttrV (j : Json) : AttrV :=
  match j.getObjVal? "s" with
  | .ok (.str s) => .str s
  | _ =>
    match j.getObjVal? "i" with
    | .ok v => .int (jInt v)
    | _ => .none

def jAttrs (j : Json) : Attrs :=
  (jList j).map (fun p => match jList p with | [k, v] => (jStr k, jAttrV v) | _ => ("", .none))

def jArr (j : Json) : Arr :=
  { name := jStr (fld j "name"),
    cols := (jList (fld j "cols")).map (fun p => match jList p with | [n, s] => ((n.getNat?.toOption).getD 0, jStr s) | _ => (0, "")),
    rows := (jList (fld j "rows")).map (fun r => (jList r).map jRat) }

def jLeaf (j : Json) : Leaf :=
  { name := jStr (fld j "name"), attrs := jAttrs (fld j "attrs"), arrays := (jList (fld j "arrays")).map jArr }

def jH5 (j : Json) : H5 :=
  { attrs := jAttrs (fld j "attrs"),
    top := match fld j "top" with | .arr a => some (a.toList.map jComp) | _ => none,
    net := match fld j "net" with
      | .null => none
      | g => some { attrs := jAttrs (fld g "attrs"), leaves := (jList (fld g "leaves")).map jLeaf } }

def jCfg (j : Json) : Cfg :=
  let old := getBool j "old"
  let ft := match j.getObjVal? "fracTruthy" with | .ok (.bool b) => b | _ => true
  let b := fun (k : String) (d : Bool) => match j.getObjVal? k with | .ok (.bool v) => v | _ => d
  if old then Cfg.old f32 ft
  else { r := f32, fracTruthy := ft, prefixNames := b "prefixNames" true, tagWhole := b "tagWhole" true,
         refuseMixed := b "refuseMixed" true, elecRefuseW := b "elecRefuseW" true, loc4Fixed := b "loc4Fixed" true,
         optNoNet := b "optNoNet" true }

/-! ### JSON out -/

def oRat (q : Rat) : Json := Json.arr #[Json.num (JsonNumber.fromInt q.num), Json.num (JsonNumber.fromNat q.den)]
def oInt (i : Int) : Json := Json.num (JsonNumber.fromInt i)
def oOpt {α : Type} (f : α → Json) : Option α → Json | some a => f a | none => Json.null
def oStr (s : String) : Json := Json.str s
def oList {α : Type} (f : α → Json) (l : List α) : Json := Json.arr (l.map f).toArray

def oRef : CellRef → Json
  | .plain i => Json.arr #["plain", oInt i]
  | .bracket p i => Json.arr #["bracket", oStr p, oInt i]
  | .slash p i c => Json.arr #["slash", oStr p, oInt i, oStr c]

def oUnit : TUnit → Json | .ms => "ms" | .s => "s" | .us => "us"

def oConn (c : Conn) : Json := Json.mkObj [
  ("id", oInt c.id), ("pre", oRef c.pre), ("post", oRef c.post), ("preSeg", oInt c.preSeg), ("postSeg", oInt c.postSeg),
  ("preFrac", oRat c.preFrac), ("postFrac", oRat c.postFrac), ("weight", oOpt oRat c.weight),
  ("delay", Json.arr #[oRat c.delay.v, oUnit c.delay.u]), ("syn", oStr c.syn), ("preComp", oStr c.preComp)]

def oProj (p : Proj) : Json := Json.mkObj [
  ("id", oStr p.id), ("pre", oStr p.pre), ("post", oStr p.post), ("syn", oStr p.syn),
  ("conns", oList oConn p.conns), ("connWDs", oList oConn p.connWDs)]

def oGProj (p : GProj) : Json := Json.mkObj [
  ("id", oStr p.id), ("pre", oStr p.pre), ("post", oStr p.post),
  ("plain", oList oConn p.plain), ("insts", oList oConn p.insts), ("instWs", oList oConn p.instWs)]

def oInp (i : Inp) : Json := Json.mkObj [
  ("id", oInt i.id), ("target", oRef i.target), ("seg", oOpt oInt i.seg), ("frac", oOpt oRat i.frac),
  ("weight", oOpt oRat i.weight)]

def oIList (l : IList) : Json := Json.mkObj [
  ("id", oStr l.id), ("comp", oStr l.comp), ("pop", oStr l.pop),
  ("inputs", oList oInp l.inputs), ("inputWs", oList oInp l.inputWs)]

def oPop (p : Pop) : Json := Json.mkObj [
  ("id", oStr p.id), ("comp", oStr p.comp), ("size", oOpt oInt p.size), ("typ", oOpt oStr p.typ),
  ("insts", oList (fun i => Json.arr #[oInt i.id, oRat i.x, oRat i.y, oRat i.z]) p.insts),
  ("props", oList (fun kv => Json.arr #[oStr kv.1, oStr kv.2]) p.props)]

def oNet (n : Net) : Json := Json.mkObj [
  ("id", oStr n.id), ("notes", oOpt oStr n.notes), ("temperature", oOpt oStr n.temperature),
  ("pops", oList oPop n.pops), ("projs", oList oProj n.projs), ("eprojs", oList oGProj n.eprojs),
  ("cprojs", oList oGProj n.cprojs), ("ilists", oList oIList n.ilists)]

def oComp (c : Comp) : Json := Json.arr #[oStr c.list, oStr c.id, oStr c.payload]

def oDoc (d : Doc) : Json := Json.mkObj [
  ("id", oStr d.id), ("notes", oOpt oStr d.notes), ("nets", oList oNet d.nets), ("top", oList oComp d.top)]

def oAttrV : AttrV → Json
  | .str s => Json.mkObj [("s", oStr s)]
  | .int i => Json.mkObj [("i", oInt i)]
  | .none => Json.null

def oAttrs (a : Attrs) : Json := oList (fun kv => Json.arr #[oStr kv.1, oAttrV kv.2]) a

def oArr (a : Arr) : Json := Json.mkObj [
  ("name", oStr a.name), ("cols", oList (fun c => Json.arr #[Json.num (JsonNumber.fromNat c.1), oStr c.2]) a.cols),
  ("rows", oList (oList oRat) a.rows)]

def oLeaf (l : Leaf) : Json := Json.mkObj [("name", oStr l.name), ("attrs", oAttrs l.attrs), ("arrays", oList oArr l.arrays)]

def oH5 (h : H5) : Json := Json.mkObj [
  ("attrs", oAttrs h.attrs), ("top", oOpt (oList oComp) h.top),
  ("net", oOpt (fun g => Json.mkObj [("attrs", oAttrs g.attrs), ("leaves", oList oLeaf g.leaves)]) h.net)]

def oErr (e : Err) : Json :=
  Json.mkObj [("err", match e with
    | .exception => "Exception" | .indexError => "IndexError" | .valueError => "ValueError"
    | .nodeError => "NodeError" | .typeError => "TypeError" | .keyError => "KeyError"
    | .attributeError => "AttributeError" | .assertionError => "AssertionError" | .unmodelled => "unmodelled")]

def oEnd (e : String × Int) : Json := Json.arr #[oStr e.1, oInt e.2]

def oSemConn (c : SemConn) : Json := Json.mkObj [
  ("id", oOpt oInt c.id), ("pre", oEnd c.pre), ("post", oEnd c.post), ("preSeg", oInt c.preSeg),
  ("postSeg", oInt c.postSeg), ("preFrac", oRat c.preFrac), ("postFrac", oRat c.postFrac), ("weight", oRat c.weight),
  ("delay", oRat c.delay), ("syn", oStr c.syn), ("preComp", oStr c.preComp)]

def oSemProj (p : SemProj) : Json := Json.mkObj [
  ("id", oStr p.id), ("pre", oStr p.pre), ("post", oStr p.post), ("syn", oStr p.syn), ("conns", oList oSemConn p.conns)]

def oSemPop (p : SemPop) : Json := Json.mkObj [
  ("id", oStr p.id), ("comp", oStr p.comp), ("size", oInt p.size), ("instIds", oList oInt p.instIds),
  ("locs", oList (fun l => Json.arr #[oRat l.1, oRat l.2.1, oRat l.2.2]) p.locs),
  ("props", oList (fun kv => Json.arr #[oStr kv.1, oStr kv.2]) p.props)]

def oSemInp (i : SemInp) : Json := Json.mkObj [
  ("id", oInt i.id), ("cell", oEnd i.cell), ("seg", oInt i.seg), ("frac", oRat i.frac), ("weight", oRat i.weight)]

def oSemIL (l : SemIL) : Json := Json.mkObj [
  ("id", oStr l.id), ("comp", oStr l.comp), ("pop", oStr l.pop), ("inputs", oList oSemInp l.inputs)]

def oSemNet (n : SemNet) : Json := Json.mkObj [
  ("id", oStr n.id), ("notes", oOpt oStr n.notes), ("temperature", oOpt oStr n.temperature),
  ("pops", oList oSemPop n.pops), ("projs", oList oSemProj n.projs), ("eprojs", oList oSemProj n.eprojs),
  ("cprojs", oList oSemProj n.cprojs), ("ils", oList oSemIL n.ils)]

def oSem (d : SemDoc) : Json := Json.mkObj [("id", oStr d.id), ("notes", oOpt oStr d.notes), ("nets", oList oSemNet d.nets)]

def handle (j : Json) : Json :=
  let cfg := jCfg (fld j "cfg")
  match getStr j "op" with
  | "enc" =>
    match encodeDoc cfg (jDoc (fld j "doc")) with
    | .ok h => Json.mkObj [("ok", oH5 h)]
    | .error e => oErr e
  | "dec" =>
    match decodeDoc cfg (jH5 (fld j "h5")) with
    | .ok d => Json.mkObj [("ok", oDoc d)]
    | .error e => oErr e
  | "rt" =>
    match roundTrip cfg (jDoc (fld j "doc")) with
    | .ok d => Json.mkObj [("ok", oDoc d)]
    | .error e => oErr e
  | "rtopt" =>
    match roundTripOpt cfg (getBool (fld j "cfg") "popNames") (jDoc (fld j "doc")) with
    | .ok d => Json.mkObj [("ok", oDoc d)]
    | .error e => oErr e
  | "decopt" =>
    match decodeDocOpt cfg (getBool (fld j "cfg") "popNames") (jH5 (fld j "h5")) with
    | .ok d => Json.mkObj [("ok", oDoc d)]
    | .error e => oErr e
  | "fate" => Json.mkObj [("ok", oList (fun r => Json.arr #[oStr r.1, oStr r.2.1, oStr (match r.2.2 with
      | .stored => "stored" | .derived => "derived" | .refused => "refused" | .dropped => "dropped")]) memberFateAll)]
  | "sem" => Json.mkObj [("ok", oSem (expect f32 (sem (jDoc (fld j "doc")))))]
  | "f32" => Json.mkObj [("ok", oList oRat ((jList (fld j "xs")).map (fun x => f32 (jRat x))))]
  | _ => Json.mkObj [("err", "bad-op")]

def main : IO Unit := loop handle
