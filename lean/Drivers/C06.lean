import NmlVerif.Model.Include
import NmlVerif.DrvCommon
open Lean NmlVerif.Include Drv

def parseComp (j : Json) : Comp := match strList j with | [a, b, c] => ⟨a, b, c⟩ | _ => ⟨"", "", ""⟩
def parseHrefs (j : Json) (k : String) : List (List String) := (getArr j k).toList.map strList
def parseFile (j : Json) : Path × File :=
  (strList (getObj j "path"), ⟨parseHrefs j "hrefs", (getArr j "comps").toList.map parseComp⟩)

def mkFS (l : List (Path × File)) : FS := fun p => (l.find? (fun x => x.1 == p)).map (·.2)

def compJ (c : Comp) : Json := Json.arr #[c.list, c.id, c.payload]
def resJ : Res → Json
  | .outOfFuel => Json.mkObj [("res", "outOfFuel")]
  | .missing => Json.mkObj [("res", "missing")]
  | .badExt => Json.mkObj [("res", "badExt")]
  | .ok al doc => Json.mkObj [("res", "ok"), ("al", Json.arr (al.map (fun p => Json.arr (p.map Json.str).toArray)).toArray),
      ("doc", Json.arr (doc.map compJ).toArray)]

def handle (j : Json) : Json :=
  let files := (getArr j "fs").toList.map parseFile
  let fs := mkFS files
  let cwd := strList (getObj j "cwd")
  let fuel := getNat j "fuel"
  let old := getStr j "algo" == "old"
  match j.getObjVal? "entry_file" with
  | .ok p =>
    let p := strList p
    if old then resJ (visitOld fs cwd fuel p []) else resJ (readFile fs cwd fuel p)
  | _ =>
    let base := strList (getObj j "base")
    resJ (readString fs cwd base fuel (parseHrefs j "hrefs") ((getArr j "comps").toList.map parseComp))

def main : IO Unit := loop handle
