import NmlVerif.Model.Include
import NmlVerif.DrvCommon
open Lean NmlVerif.Include Drv

/-- a component travels as `[list, kind, id, payload]`, kind = "noid" (class without an id attribute),
    "none" (id is None) or "id" -/
def parseComp (j : Json) : Comp :=
  match strList j with
  | [l, "noid", _, pl] => ⟨l, .absent, pl⟩
  | [l, "none", _, pl] => ⟨l, .unset, pl⟩
  | [l, "id", i, pl] => ⟨l, .val i, pl⟩
  | _ => ⟨"", .absent, "?"⟩
def parseHrefs (j : Json) (k : String) : List (List String) := (getArr j k).toList.map strList
def parseFile (j : Json) : Path × File :=
  (strList (getObj j "path"), ⟨parseHrefs j "hrefs", (getArr j "comps").toList.map parseComp⟩)

def mkFS (l : List (Path × File)) : FS := fun p => (l.find? (fun x => x.1 == p)).map (·.2)

def compJ (c : Comp) : Json :=
  match c.id with
  | .absent => Json.arr #[c.list, "noid", "", c.payload]
  | .unset => Json.arr #[c.list, "none", "", c.payload]
  | .val i => Json.arr #[c.list, "id", i, c.payload]
def pathsJ (l : List Path) : Json := Json.arr (l.map (fun p => Json.arr (p.map Json.str).toArray)).toArray
def resJ : Res → Json
  | .outOfFuel => Json.mkObj [("res", "outOfFuel")]
  | .missing => Json.mkObj [("res", "missing")]
  | .badExt => Json.mkObj [("res", "badExt")]
  | .ok al log doc => Json.mkObj [("res", "ok"), ("al", pathsJ al), ("log", pathsJ log),
      ("doc", Json.arr (doc.map compJ).toArray)]

def handle (j : Json) : Json :=
  let files := (getArr j "fs").toList.map parseFile
  let fs := mkFS files
  let cwd := strList (getObj j "cwd")
  let fuel := getNat j "fuel"
  let sh := getBool j "sh"
  match getStr j "mode" with
  | "file" => resJ (readFile sh fs cwd fuel (strList (getObj j "entry_file")))
  | "internal" => resJ (readInternal sh fs cwd fuel (strList (getObj j "entry_file")))
  | "noinc" => resJ (readNoInc sh fs cwd fuel (strList (getObj j "entry_file")))
  | "old" => resJ (visitOld fs cwd fuel (strList (getObj j "entry_file")) [])
  | "string" =>
    let base := strList (getObj j "base")
    resJ (readString sh fs cwd base fuel (parseHrefs j "hrefs") ((getArr j "comps").toList.map parseComp))
  | "file-kept" =>
    -- `read_neuroml2_file(.., already_included=al0)` with a list the caller keeps: result class + the list afterwards
    let o := readFileKept (getBool j "rm") sh fs cwd fuel (strList (getObj j "entry_file")) (parseHrefs j "al0")
    Json.mkObj [("res", (resJ o.1).getObjValD "res"), ("kept", pathsJ o.2)]
  | "string-kept" =>
    let base := strList (getObj j "base")
    let o := readStringKept (getBool j "rm") sh fs cwd base fuel (parseHrefs j "hrefs")
      ((getArr j "comps").toList.map parseComp) (parseHrefs j "al0")
    Json.mkObj [("res", (resJ o.1).getObjValD "res"), ("kept", pathsJ o.2)]
  | m => Json.mkObj [("res", "bad-mode:" ++ m)]

def main : IO Unit := loop handle
