import NmlVerif.Model.NetBuilder
import NmlVerif.Model.ParserReuse
import NmlVerif.Gen.Glue
import NmlVerif.Gen.Handlers
import NmlVerif.DrvCommon
open Lean NmlVerif.Glue NmlVerif.NetBuilder Drv

def optStr (j : Json) (k : String) : Option String := getStr? j k
def pairList (j : Json) : List (String × String) :=
  match j with
  | .arr a => a.toList.filterMap fun x => match strList x with | [k, v] => some (k, v) | _ => none
  | _ => []
def optPair (j : Json) (k : String) : Option (String × String) :=
  match strList (getObj j k) with | [a, b] => some (a, b) | _ => none
def optTriple (j : Json) (k : String) : Option (String × String × String) :=
  match strList (getObj j k) with | [a, b, c] => some (a, b, c) | _ => none

def parseCall (j : Json) : Option HCall :=
  match getStr j "k" with
  | "docStart" => some (.docStart (getStr j "id") (optStr j "notes"))
  | "network" => some (.network (getStr j "id") (optStr j "notes") (optStr j "temperature"))
  | "population" => some (.population (getStr j "id") (getStr j "comp") (getInt j "size") (optStr j "compObj")
      (pairList (getObj j "props")) (optStr j "notes"))
  | "location" => some (.location (getStr j "id") (getStr j "pop") (optTriple j "xyz"))
  | "projection" => some (.projection (getStr j "id") (getStr j "pre") (getStr j "post") (optStr j "syn")
      (getBool j "hasWD") (getStr j "typ") (optPair j "synObj") (optPair j "preSynObj"))
  | "finaliseProjection" => some (.finaliseProjection (getStr j "id") (getStr j "pre") (getStr j "post") (optStr j "syn")
      (optStr j "typ"))
  | "connection" => some (.connection (getStr j "proj") (getStr j "connId") (getStr j "pre") (getStr j "post")
      (getInt j "preCell") (getInt j "postCell") (getStr j "preSeg") (getStr j "postSeg") (getStr j "preFract")
      (getStr j "postFract") (getStr j "delay") (getBool j "delayIsZero") (getStr j "weight") (getBool j "weightIsOne"))
  | "inputList" => some (.inputList (getStr j "id") (getStr j "pop") (getStr j "comp") (optStr j "compObj"))
  | "singleInput" => some (.singleInput (getStr j "list") (getStr j "id") (getInt j "cell") (getStr j "seg")
      (getBool j "segIsZero") (getStr j "fract") (getBool j "fractIsHalf") (getStr j "weight") (getBool j "weightIsOne"))
  | "finaliseInputSource" => some (.finaliseInputSource (getStr j "id"))
  | _ => none

def oJ : Option String → Json
  | some s => Json.str s
  | none => Json.null
def strsJ (l : List String) : Json := Json.arr (l.map Json.str).toArray

def itemJ (i : Item) : Json := Json.arr ((Json.str i.kind) :: i.fields.map Json.str).toArray

def connOrder : List String := ["c", "cwd", "ec", "eci", "eciw", "cc", "cci", "cciw", "i", "iw"]
def orderedItems (l : List Item) : List Item := connOrder.flatMap fun k => l.filter (fun i => i.kind == k)

def popJ (p : Pop) : Json := Json.mkObj [("id", p.id), ("component", p.component), ("size", toString p.size),
  ("type", oJ p.typ), ("notes", oJ p.notes), ("props", Json.arr (p.props.map fun kv => strsJ [kv.1, kv.2]).toArray),
  ("instances", Json.arr (p.instances.map fun (i, x, y, z) => strsJ [i, x, y, z]).toArray)]
def projJ (p : Proj) : Json := Json.mkObj [("kind", p.kind), ("id", p.id), ("pre", p.pre), ("post", p.post),
  ("synapse", oJ p.synapse), ("conns", Json.arr ((orderedItems p.conns).map itemJ).toArray)]
def ilistJ (l : IList) : Json := Json.mkObj [("id", l.id), ("component", l.component), ("populations", l.populations),
  ("inputs", Json.arr ((orderedItems l.inputs).map itemJ).toArray)]

def projOrder : List String := ["projection", "electricalProjection", "continuousProjection"]

def netJ (n : Net × List Pop × List Proj × List IList) : Json :=
  Json.mkObj [("id", n.1.id), ("notes", oJ n.1.notes), ("temperature", oJ n.1.temperature),
    ("pops", Json.arr (n.2.1.map popJ).toArray),
    ("projs", Json.arr ((projOrder.flatMap fun k => n.2.2.1.filter (fun p => p.kind == k)).map projJ).toArray),
    ("ilists", Json.arr (n.2.2.2.map ilistJ).toArray)]

def insertSorted (x : String) : List String → List String
  | [] => [x]
  | y :: ys => if x ≤ y then x :: y :: ys else y :: insertSorted x ys
def sortStrs (l : List String) : List String := l.foldr insertSorted []

/-- what the builder's document shows (`NetBuilder.view`: the networks created since the last document start) -/
def stateJ (s : BState) : Json :=
  let v := view s
  let hdr := match v.doc with
    | some (id, notes) => [("id", Json.str id), ("notes", oJ notes)]
    | none => [("id", Json.null), ("notes", Json.null)]
  Json.mkObj (hdr ++ [("comps", strsJ (sortStrs v.comps)),
    ("nets", Json.arr (v.nets.map netJ).toArray),
    ("err", oJ v.err)])

def cfgJ (c : Cfg) : Json := Json.arr #[c.pops, c.projs, c.ilists, c.projSyn, c.projType, c.projSynPre, c.wd]

def tableCfg : Cfg := cfgOfTable NmlVerif.Gen.Glue.table NmlVerif.Gen.Glue.names
def handlersCfg : Cfg := cfgOfAttrs NmlVerif.Gen.Handlers.builderAttrs NmlVerif.Gen.Handlers.tableIds

def pickReset (j : Json) (gen : Bool) : Bool :=
  match getStr j "reset" with
  | "today" => false
  | "repaired" => true
  | _ => gen

/-- the documents built one after the other on ONE builder: the view after each document's calls -/
def reuseViews (reset : Bool) : List (List HCall) → BState → List Json
  | [], _ => []
  | d :: ds, s => let s' := brunR reset d s; stateJ s' :: reuseViews reset ds s'

open NmlVerif.ParserReuse in
def parseFile (j : Json) : H5File :=
  { id := getStr j "id",
    embedded := match getObj j "embedded" with
      | .arr a => some (a.toList.filterMap fun x => match strList x with | [k, v] => some (k, v) | _ => none)
      | _ => none,
    network := getStr? j "network",
    pops := (getArr j "pops").toList.filterMap fun x => match strList x with | [k, v] => some (k, v) | _ => none }

open NmlVerif.ParserReuse in
def resJ : Res → Json
  | .doc id comps nets => Json.mkObj [("id", id), ("comps", strsJ (sortStrs comps)), ("nets", strsJ nets)]
  | .attributeError => Json.mkObj [("err", "AttributeError")]

open NmlVerif.ParserReuse in
/-- one parser object, a history of files: per file what the handler gets and what the optimized parser returns -/
def parserReuseRun (reset : Bool) : List H5File → PState → List Json
  | [], _ => []
  | f :: fs, st =>
    Json.mkObj [("compObjs", Json.arr ((popCompObjs reset st f).map fun p => Json.arr #[Json.str p.1, oJ p.2]).toArray),
      ("opt", resJ (getDocOpt reset st f))] :: parserReuseRun reset fs (parse reset st f)

def handle (j : Json) : Json :=
  match getStr j "op" with
  | "table" =>
    let t := NmlVerif.Gen.Glue.table
    let names := NmlVerif.Gen.Glue.names
    Json.mkObj [("vars", t.vars.length), ("entries", t.entries.length), ("wf", t.wf),
      ("violating", strsJ (t.violatingNames names)),
      ("written", strsJ ((t.written.eraseDups.filterMap fun v => names[v]?))),
      ("cfg", cfgJ tableCfg), ("handlersCfg", cfgJ handlersCfg),
      ("handlersPrivate", handlersPrivate NmlVerif.Gen.Handlers.builderAttrs NmlVerif.Gen.Handlers.touch),
      ("useIsModel", decide (NmlVerif.Gen.Handlers.use = modelUse NmlVerif.Gen.Handlers.builderResets)),
      ("reuseViolating", strsJ (NmlVerif.Gen.Handlers.reuseTable.violatingNames NmlVerif.Gen.Handlers.names)),
      ("builderResets", NmlVerif.Gen.Handlers.builderResets), ("parserResets", NmlVerif.Gen.Handlers.parserResets),
      ("reachScanned", subsetStr NmlVerif.Gen.Glue.reach NmlVerif.Gen.Glue.scanned),
      ("envEntries", strsJ (NmlVerif.Gen.Glue.envEntries.filterMap fun v => names[v]?))]
  | "allMerges" =>
    -- every merge of the two sequences (`Glue.merges`, proved to enumerate interleavings only): which of them leave
    -- a builder with another document than its solo run, and what the documents are then
    let ca := (getArr j "a").toList.filterMap parseCall
    let cb := (getArr j "b").toList.filterMap parseCall
    if ca.length != (getArr j "a").size || cb.length != (getArr j "b").size then Json.mkObj [("error", "unparsed call")] else
    let cfg : Cfg := match getStr j "cfg" with
      | "private" => Cfg.allPrivate
      | "shared" => Cfg.allShared
      | _ => tableCfg
    let sa := stateJ (brun ca {})
    let sb := stateJ (brun cb {})
    let ms : List (List (Ev HCall HCall)) := merges ca cb
    let diffs := ((List.range ms.length).zip ms).filterMap fun p =>
      let es : List (Bool × HCall) := p.2.map fun e => match e with
        | .a c => (true, c)
        | .b c => (false, c)
      let w := runWorld cfg es {}
      let ja := stateJ w.a
      let jb := stateJ w.b
      if ja == sa && jb == sb then none else some (Json.arr #[Json.num p.1, ja, jb])
    Json.mkObj [("n", ms.length), ("soloA", sa), ("soloB", sb), ("diffs", Json.arr diffs.toArray), ("cfg", cfgJ cfg)]
  | "interleaveN" =>
    -- any number of builders; `order` = builder index of every event (a merge of the sequences)
    let seqs := (getArr j "seqs").toList.map fun a => match a with
      | .arr xs => xs.toList.filterMap parseCall
      | _ => []
    let raw := (getArr j "seqs").toList.map fun a => match a with | .arr xs => xs.size | _ => 0
    if seqs.map (·.length) != raw then Json.mkObj [("error", "unparsed call")] else
    if handlersCfg != Cfg.allPrivate || tableCfg != Cfg.allPrivate then
      Json.mkObj [("error", "shared tables: more than two builders are not modelled")] else
    let order := natList (getObj j "order")
    let rec events (fuel : Nat) (o : List Nat) (rest : Nat → List HCall) : List (Nat × HCall) :=
      match fuel, o with
      | 0, _ => []
      | _, [] => []
      | fuel + 1, i :: o' =>
        match rest i with
        | [] => events fuel o' rest
        | c :: cs => (i, c) :: events fuel o' (updN rest i cs)
    let es := events (order.length + 1) order (fun i => seqs.getD i [])
    let S : SysN Unit BState HCall := ⟨fun _ s c => ((), bstep s c)⟩
    let fin := (runN S es ((), fun _ => {})).2
    Json.mkObj [("states", Json.arr ((List.range seqs.length).map fun i => stateJ (fin i)).toArray),
      ("solos", Json.arr (seqs.map fun cs => stateJ (brun cs {})).toArray), ("events", es.length)]
  | "reuse" =>
    let docs := (getArr j "docs").toList.map fun a => match a with
      | .arr xs => xs.toList.filterMap parseCall
      | _ => []
    let raw := (getArr j "docs").toList.map fun a => match a with | .arr xs => xs.size | _ => 0
    if docs.map (·.length) != raw then Json.mkObj [("error", "unparsed call")] else
    let reset := pickReset j NmlVerif.Gen.Handlers.builderResets
    Json.mkObj [("views", Json.arr (reuseViews reset docs {}).toArray),
      ("fresh", Json.arr (docs.map fun d => stateJ (brunR reset d {})).toArray), ("reset", reset)]
  | "parserReuse" =>
    let files := (getArr j "files").toList.map parseFile
    let reset := pickReset j NmlVerif.Gen.Handlers.parserResets
    Json.mkObj [("reused", Json.arr (parserReuseRun reset files {}).toArray),
      ("fresh", Json.arr (files.flatMap fun f => parserReuseRun reset [f] {}).toArray), ("reset", reset)]
  | "interleave" =>
    let ca := (getArr j "a").toList.filterMap parseCall
    let cb := (getArr j "b").toList.filterMap parseCall
    if ca.length != (getArr j "a").size || cb.length != (getArr j "b").size then Json.mkObj [("error", "unparsed call")] else
    let cfg : Cfg := match getStr j "cfg" with
      | "private" => Cfg.allPrivate
      | "shared" => Cfg.allShared
      | _ => tableCfg
    -- schedule: list of booleans, true = next call of A; exhausted sides fall through to the other
    let sched := (getArr j "sched").toList.map fun x => match x with | .bool b => b | _ => true
    let rec merge (fuel : Nat) (s : List Bool) (xs ys : List HCall) : List (Bool × HCall) :=
      match fuel with
      | 0 => []
      | fuel + 1 =>
        match xs, ys with
        | [], [] => []
        | x :: xs', [] => (true, x) :: merge fuel s xs' []
        | [], y :: ys' => (false, y) :: merge fuel s [] ys'
        | x :: xs', y :: ys' =>
          match s with
          | [] => (true, x) :: merge fuel [] xs' (y :: ys')
          | true :: s' => (true, x) :: merge fuel s' xs' (y :: ys')
          | false :: s' => (false, y) :: merge fuel s' (x :: xs') ys'
    let es := merge (ca.length + cb.length + 1) sched ca cb
    let w := runWorld cfg es {}
    Json.mkObj [("a", stateJ w.a), ("b", stateJ w.b), ("soloA", stateJ (brun ca {})), ("soloB", stateJ (brun cb {})),
      ("cfg", cfgJ cfg)]
  | _ => Json.mkObj [("error", "unknown op")]

def main : IO Unit := loop handle
