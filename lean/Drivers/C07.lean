import NmlVerif.Model.NetBuilder
import NmlVerif.Gen.Glue
import NmlVerif.DrvCommon
open Lean NmlVerif.Glue NmlVerif.NetBuilder Drv

def optStr (j : Json) (k : String) : Option String := getStr? j k
def pairList (j : Json) : List (String × String) :=
  match j with
  | .arr a => a.toList.filterMap fun x => match strList x with | [k, v] => some (k, v) | _ => none
  | _ => []
def optPair (j : Json) (k : String) : Option (String × String) :=
  match strList (getObj j k) with | [a, b] => some (a, b) | _ => none
def optTriple (j : Json) (k : String) : Option (String × String × String) :=
  match strList (getObj j k) with | [a, b, c] => some (a, b, c) | _ => none

def parseCall (j : Json) : Option HCall :=
  match getStr j "k" with
  | "docStart" => some (.docStart (getStr j "id") (optStr j "notes"))
  | "network" => some (.network (getStr j "id") (optStr j "notes") (optStr j "temperature"))
  | "population" => some (.population (getStr j "id") (getStr j "comp") (getInt j "size") (optStr j "compObj")
      (pairList (getObj j "props")) (optStr j "notes"))
  | "location" => some (.location (getStr j "id") (getStr j "pop") (optTriple j "xyz"))
  | "projection" => some (.projection (getStr j "id") (getStr j "pre") (getStr j "post") (optStr j "syn")
      (getBool j "hasWD") (getStr j "typ") (optPair j "synObj") (optPair j "preSynObj"))
  | "finaliseProjection" => some (.finaliseProjection (getStr j "id") (getStr j "pre") (getStr j "post") (optStr j "syn")
      (optStr j "typ"))
  | "connection" => some (.connection (getStr j "proj") (getStr j "connId") (getStr j "pre") (getStr j "post")
      (getInt j "preCell") (getInt j "postCell") (getStr j "preSeg") (getStr j "postSeg") (getStr j "preFract")
      (getStr j "postFract") (getStr j "delay") (getBool j "delayIsZero") (getStr j "weight") (getBool j "weightIsOne"))
  | "inputList" => some (.inputList (getStr j "id") (getStr j "pop") (getStr j "comp") (optStr j "compObj"))
  | "singleInput" => some (.singleInput (getStr j "list") (getStr j "id") (getInt j "cell") (getStr j "seg")
      (getBool j "segIsZero") (getStr j "fract") (getBool j "fractIsHalf") (getStr j "weight") (getBool j "weightIsOne"))
  | "finaliseInputSource" => some (.finaliseInputSource (getStr j "id"))
  | _ => none

def oJ : Option String → Json
  | some s => Json.str s
  | none => Json.null
def strsJ (l : List String) : Json := Json.arr (l.map Json.str).toArray

def itemJ (i : Item) : Json := Json.arr ((Json.str i.kind) :: i.fields.map Json.str).toArray

def connOrder : List String := ["c", "cwd", "ec", "eci", "eciw", "cc", "cci", "cciw", "i", "iw"]
def orderedItems (l : List Item) : List Item := connOrder.flatMap fun k => l.filter (fun i => i.kind == k)

def popJ (p : Pop) : Json := Json.mkObj [("id", p.id), ("component", p.component), ("size", toString p.size),
  ("type", oJ p.typ), ("notes", oJ p.notes), ("props", Json.arr (p.props.map fun kv => strsJ [kv.1, kv.2]).toArray),
  ("instances", Json.arr (p.instances.map fun (i, x, y, z) => strsJ [i, x, y, z]).toArray)]
def projJ (p : Proj) : Json := Json.mkObj [("kind", p.kind), ("id", p.id), ("pre", p.pre), ("post", p.post),
  ("synapse", oJ p.synapse), ("conns", Json.arr ((orderedItems p.conns).map itemJ).toArray)]
def ilistJ (l : IList) : Json := Json.mkObj [("id", l.id), ("component", l.component), ("populations", l.populations),
  ("inputs", Json.arr ((orderedItems l.inputs).map itemJ).toArray)]

def projOrder : List String := ["projection", "electricalProjection", "continuousProjection"]

def netJ (s : BState) (i : Nat) (n : Net) : Json :=
  Json.mkObj [("id", n.id), ("notes", oJ n.notes), ("temperature", oJ n.temperature),
    ("pops", Json.arr ((s.pops.filter (·.net == i)).map popJ).toArray),
    ("projs", Json.arr ((projOrder.flatMap fun k => s.projs.filter (fun p => p.net == i && p.kind == k)).map projJ).toArray),
    ("ilists", Json.arr ((s.ilists.filter (·.net == i)).map ilistJ).toArray)]

def insertSorted (x : String) : List String → List String
  | [] => [x]
  | y :: ys => if x ≤ y then x :: y :: ys else y :: insertSorted x ys
def sortStrs (l : List String) : List String := l.foldr insertSorted []

def stateJ (s : BState) : Json :=
  let hdr := match s.doc with
    | some (id, notes) => [("id", Json.str id), ("notes", oJ notes)]
    | none => [("id", Json.null), ("notes", Json.null)]
  Json.mkObj (hdr ++ [("comps", strsJ (sortStrs s.comps)),
    ("nets", Json.arr ((List.range s.nets.length).zip s.nets |>.map (fun p => netJ s p.1 p.2)).toArray),
    ("err", oJ s.err)])

def cfgJ (c : Cfg) : Json := Json.arr #[c.pops, c.projs, c.ilists, c.projSyn, c.projType, c.projSynPre, c.wd]

def tableCfg : Cfg := cfgOfTable NmlVerif.Gen.Glue.table NmlVerif.Gen.Glue.names

def handle (j : Json) : Json :=
  match getStr j "op" with
  | "table" =>
    let t := NmlVerif.Gen.Glue.table
    let names := NmlVerif.Gen.Glue.names
    Json.mkObj [("vars", t.vars.length), ("entries", t.entries.length), ("wf", t.wf),
      ("violating", strsJ (t.violatingNames names)),
      ("written", strsJ ((t.written.eraseDups.filterMap fun v => names[v]?))),
      ("cfg", cfgJ tableCfg)]
  | "interleave" =>
    let ca := (getArr j "a").toList.filterMap parseCall
    let cb := (getArr j "b").toList.filterMap parseCall
    if ca.length != (getArr j "a").size || cb.length != (getArr j "b").size then Json.mkObj [("error", "unparsed call")] else
    let cfg : Cfg := match getStr j "cfg" with
      | "private" => Cfg.allPrivate
      | "shared" => Cfg.allShared
      | _ => tableCfg
    -- schedule: list of booleans, true = next call of A; exhausted sides fall through to the other
    let sched := (getArr j "sched").toList.map fun x => match x with | .bool b => b | _ => true
    let rec merge (fuel : Nat) (s : List Bool) (xs ys : List HCall) : List (Bool × HCall) :=
      match fuel with
      | 0 => []
      | fuel + 1 =>
        match xs, ys with
        | [], [] => []
        | x :: xs', [] => (true, x) :: merge fuel s xs' []
        | [], y :: ys' => (false, y) :: merge fuel s [] ys'
        | x :: xs', y :: ys' =>
          match s with
          | [] => (true, x) :: merge fuel [] xs' (y :: ys')
          | true :: s' => (true, x) :: merge fuel s' xs' (y :: ys')
          | false :: s' => (false, y) :: merge fuel s' (x :: xs') ys'
    let es := merge (ca.length + cb.length + 1) sched ca cb
    let w := runWorld cfg es {}
    Json.mkObj [("a", stateJ w.a), ("b", stateJ w.b), ("soloA", stateJ (brun ca {})), ("soloB", stateJ (brun cb {})),
      ("cfg", cfgJ cfg)]
  | _ => Json.mkObj [("error", "unknown op")]

def main : IO Unit := loop handle
