import NmlVerif.Gen.Skeletons
import NmlVerif.Model.Trunc
import NmlVerif.Model.TruncWs
import NmlVerif.DrvCommon
import Std.Data.HashSet
/-!
Line-protocol driver for C08.

  {"op":"unprotected"}
      -> {"entries":[{"id":3,"issues":[["mutateNoRestore",2], ...]}, ...]}
  {"op":"trunc","tokens":[[kind,tag],...],"cuts":[[k,inside],...]}   kind 0 `<t>` 1 `</t>` 2 `<t/>` 3 text
      -> {"whole":bool,"complete":[bool,...]}   `Complete (cutTokens tokens k inside)` for each cut
  {"op":"truncws","tree":T,"trail":n,"tokens":[[kind,tag],...],"cuts":[[k,rest],...]}
      T = [0,tag,[T,...]] element with children | [1,tag] empty element | [2] character data | [3] white space;
      kind 0 `<t>` 1 `</t>` 2 `<t/>` 3 character data 4 white space; rest 0 boundary 1 markup 2 chars 3 blank
      -> {"layout":bool,"element":bool,"ntok":n,"whole":bool,"complete":[bool,...]}
         layout: the file's token stream IS `tokens T ++ trail n` (the serialiser of Model/TruncWs.lean);
         complete: `Complete (cut stream k rest)` for each cut
  {"op":"run","entry":2,"trace":[[site,eff],...],"natural":null | [site,kind],"faults":[[k,kind],...]}
      `trace` = the file-layer calls the real library made in a fault-free run (or, with `natural`, up to the
      point where the library raised by itself at `site` with exception class `kind`; or, with "prefix":true,
      up to and including a call in which the file layer itself raised).
      The driver computes an oracle under which `run` on the extracted skeleton makes exactly these calls
      (`reach`: complete and deterministic, no step budget; the search is untrusted, the result is checked by
      running the verified model function), then runs the model
      with the fault injected at each requested call.
      -> {"matched":true,"clean":R,"faults":[R,...]}   R = {"outcome","kind","handles","detached","fired","trace"}
-/
open Lean NmlVerif.Fault Drv

abbrev Ev := List (Nat × Nat)

/-- how a fault-free path through a statement can end for the matcher: normally, by `return`, or `done` = the
    recorded trace is used up at a point where the run stops being fault-free (the library raised by itself
    there, or — prefix mode — the file layer raised inside the last recorded call) -/
inductive MO where
  | ok | ret | done
deriving BEq, DecidableEq

/-- one way to reach trace position `j`, ending with `o`, under the oracle events `ev` (most recent first);
    `stack`: for every loop being iterated, the events before the loop and the number of completed iterations -/
structure R where
  j : Nat
  o : MO
  ev : Ev
  stack : List (Ev × Nat) := []

def addR (rs : Array R) (r : R) : Array R :=
  if rs.any (fun x => x.j == r.j && x.o == r.o) then rs else rs.push r

def dedup (rs : Array R) : Array R := if rs.size ≤ 1 then rs else rs.foldl addR #[]

def pushEv (e : Nat × Nat) (F : Array R) : Array R := F.map (fun f => { f with ev := e :: f.ev })

def openLoop (r : R) : R := { r with ev := [], stack := (r.ev, 0) :: r.stack }
def tickLoop (r : R) : R :=
  match r.stack with
  | (sv, n) :: st => { r with stack := (sv, n + 1) :: st }
  | [] => r
/-- leaving loop `oid`: its iteration count goes *before* the events of its iterations (`run` pops it first);
    `extra` = 1 when the current iteration left the loop by return/raise -/
def closeLoop (oid extra : Nat) (r : R) : R :=
  match r.stack with
  | (sv, n) :: st => { r with ev := r.ev ++ ((oid, n + extra) :: sv), stack := st }
  | [] => r

/-- `natKind` value meaning "the trace holds no raise of the library's own" -/
def NONAT : Nat := 4000000000

/-- what the matcher needs to know about a statement without walking it: the symbols it can record first, and
    one way (oracle events, most recent first) to get through it recording nothing, ending normally / by `return` -/
abbrev SymSet := Std.HashSet Nat
def symKey (p : Nat × Nat) : Nat := p.1 * 128 + p.2
def SymSet.has (s : SymSet) (p : Nat × Nat) : Bool := s.contains (symKey p)
def symOf (p : Nat × Nat) : SymSet := (∅ : SymSet).insert (symKey p)

structure Info where
  first : SymSet
  sOk : Option Ev
  sRet : Option Ev

/-- a skeleton annotated (once per driver process) with `Info` at every node -/
inductive A where
  | leaf (s : Stmt) (i : Info)
  | seq (a b : A) (i : Info)
  | loop (oid : Nat) (b : A) (i : Info)
  | choice (oid : Nat) (a b : A) (i : Info)
  | tryFinally (body fin : A) (i : Info)
  | scope (b : A) (i : Info)

instance : Inhabited A := ⟨.leaf .skip ⟨∅, none, none⟩⟩

def A.info : A → Info
  | .leaf _ i | .seq _ _ i | .loop _ _ i | .choice _ _ _ i | .tryFinally _ _ i | .scope _ i => i

def unionSym (x y : SymSet) : SymSet :=
  if x.size ≤ y.size then x.fold (fun acc p => acc.insert p) y else y.fold (fun acc p => acc.insert p) x

def thenEv (ea : Option Ev) (eb : Option Ev) : Option Ev :=
  match ea, eb with
  | some a, some b => some (b ++ a)
  | _, _ => none

/-- `zeros`: record the "does not raise" outcome of every `mayRaise` (needed only when the trace ends in a raise
    of the library's own) -/
partial def annotate (zeros : Bool) : Stmt → A
  | .seq a b =>
    let x := annotate zeros a; let y := annotate zeros b
    let ix := x.info; let iy := y.info
    .seq x y ⟨if ix.sOk.isSome then unionSym ix.first iy.first else ix.first, thenEv ix.sOk iy.sOk,
      ix.sRet <|> thenEv ix.sOk iy.sRet⟩
  | .loop oid b =>
    let x := annotate zeros b
    .loop oid x ⟨x.info.first, some [(oid, 0)], x.info.sRet.map (· ++ [(oid, 1)])⟩
  | .choice oid a b =>
    let x := annotate zeros a; let y := annotate zeros b
    .choice oid x y ⟨unionSym x.info.first y.info.first,
      (y.info.sOk.map (· ++ [(oid, 0)])) <|> (x.info.sOk.map (· ++ [(oid, 1)])),
      (y.info.sRet.map (· ++ [(oid, 0)])) <|> (x.info.sRet.map (· ++ [(oid, 1)]))⟩
  | .tryFinally _ body fin =>
    let x := annotate zeros body; let y := annotate zeros fin
    let ix := x.info; let iy := y.info
    .tryFinally x y ⟨if ix.sOk.isSome || ix.sRet.isSome then unionSym ix.first iy.first else ix.first,
      thenEv ix.sOk iy.sOk, thenEv ix.sRet iy.sOk <|> thenEv ix.sOk iy.sRet <|> thenEv ix.sRet iy.sRet⟩
  | .tryExcept _ body _ _ _ => annotate zeros body
  | .scope b =>
    let x := annotate zeros b
    .scope x ⟨x.info.first, x.info.sOk <|> x.info.sRet, none⟩
  | .call e site => .leaf (.call e site) ⟨symOf (site, e.code), none, none⟩
  | .raise_ k site => .leaf (.raise_ k site) ⟨symOf (site, 99), none, none⟩
  | .reraise site => .leaf (.reraise site) ⟨∅, none, none⟩
  | .mayRaise oid site => .leaf (.mayRaise oid site) ⟨symOf (site, 99), some (if zeros then [(oid, 0)] else []), none⟩
  | .mutate f site => .leaf (.mutate f site) ⟨symOf (site, 8), none, none⟩
  | .ret => .leaf .ret ⟨∅, none, some []⟩
  | s => .leaf s ⟨∅, some [], none⟩          -- skip, restore, unsupported

/-- **Complete, deterministic matcher.**  `reach tr natKind pre a F`: `F` = a set of trace positions reached so
    far on the fault-free path (each with one witness: the oracle events used); result = every (position, way
    of ending) reachable by running `a` from one of them while making exactly the recorded calls.  This is the
    subset construction (a simulation of all paths at once): sets are deduplicated on (position, ending), so
    every statement is visited at most once per enclosing visit, a loop body at most once per trace position;
    a state whose next recorded call cannot be made first by the statement takes the statement's precomputed
    silent path without walking it.  There is no step budget and no backtracking.  A loop iteration that records
    nothing and ends normally is equivalent to no iteration and is dropped, hence loops terminate.  The search
    is untrusted: the oracle found is re-run through the verified `run`. -/
partial def reach (tr : Array (Nat × Nat)) (natKind : Nat) (pre : Bool) (a : A) (F : Array R) : Array R :=
  if F.isEmpty then #[] else
  let i := a.info
  let act := F.filter (fun f => f.j < tr.size && i.first.has tr[f.j]!)
  let pas := F.filter (fun f => !(f.j < tr.size && i.first.has tr[f.j]!))
  let pasOk := match i.sOk with
    | some w => pas.map (fun f => { f with ev := w ++ f.ev })
    | none => #[]
  let pasRet := match i.sRet with
    | some w => pas.map (fun f => { f with o := .ret, ev := w ++ f.ev })
    | none => #[]
  let full : Array R :=
    if act.isEmpty then #[] else
    match a with
    | .leaf s _ =>
      match s with
      | .call e site =>
        act.filterMap fun f =>
          if tr[f.j]! == (site, e.code) then
            some { f with j := f.j + 1, o := if pre && f.j + 1 == tr.size then .done else .ok } else none
      | .raise_ _ site =>
        act.filterMap fun f =>
          if f.j + 1 == tr.size && tr[f.j]! == (site, 99) then some { f with j := f.j + 1, o := .done } else none
      | .mayRaise oid site =>
        act.flatMap fun f =>
          if f.j + 1 == tr.size && tr[f.j]! == (site, 99) then
            #[{ f with j := f.j + 1, o := .done, ev := (oid, natKind + 1) :: f.ev }, { f with ev := (oid, 0) :: f.ev }]
          else #[{ f with ev := (oid, 0) :: f.ev }]
      | .mutate _ site => act.filterMap fun f => if tr[f.j]! == (site, 8) then some { f with j := f.j + 1 } else none
      | _ => #[]
    | .seq x y _ =>
      let ra := reach tr natKind pre x act
      ra.filter (·.o != .ok) ++ reach tr natKind pre y (ra.filter (·.o == .ok))
    | .loop oid b _ =>
      let rec go (frontier : Array R) (seen : Array Nat) (acc : Array R) : Array R :=
        if frontier.isEmpty then acc else
        let acc := frontier.foldl (fun acc f => addR acc (closeLoop oid 0 f)) acc
        -- only states whose next recorded call can start an iteration iterate (a silent iteration = none)
        let movers := frontier.filter (fun f => f.j < tr.size && b.info.first.has tr[f.j]!)
        let rb := reach tr natKind pre b movers
        let acc := (rb.filter (·.o != .ok)).foldl (fun acc r => addR acc (closeLoop oid 1 r)) acc
        let (next, seen) := (rb.filter (·.o == .ok)).foldl (fun (st : Array R × Array Nat) r =>
          if st.2.contains r.j then st else (st.1.push (tickLoop r), st.2.push r.j)) (#[], seen)
        go next seen acc
      go (act.map openLoop) (act.map (·.j)) #[]
    | .choice oid x y _ =>
      reach tr natKind pre x (pushEv (oid, 1) act) ++ reach tr natKind pre y (pushEv (oid, 0) act)
    | .tryFinally body fin _ =>
      let rb := reach tr natKind pre body act
      let asOk (x : Array R) : Array R := x.map (fun r => { r with o := .ok })
      let fOk := reach tr natKind pre fin (rb.filter (·.o == .ok))
      let fRet := (reach tr natKind pre fin (asOk (rb.filter (·.o == .ret)))).map
        (fun r => if r.o == .ok then { r with o := .ret } else r)
      rb.filter (·.o == .done) ++ fOk ++ fRet
    | .scope b _ => (reach tr natKind pre b act).map (fun r => if r.o == .ret then { r with o := .ok } else r)
  dedup (pasOk ++ pasRet ++ full)

def findOracle (s : A × A) (tr : List (Nat × Nat)) (nat : Option (Nat × Nat)) (pre : Bool) : Option Ev :=
  let tr' := (match nat with | some (site, _) => tr ++ [(site, 99)] | none => tr).toArray
  let natKind := match nat with | some (_, kd) => kd | none => NONAT
  let rs := reach tr' natKind pre (if nat.isSome then s.2 else s.1) #[⟨0, .ok, [], []⟩]
  let want (r : R) : Bool := r.j == tr'.size && (if nat.isSome || pre then r.o == .done else r.o != .done)
  (rs.find? want).map (fun r => r.ev.reverse)

def oracleOfEv (ev : Ev) : Nat → List Nat := fun oid => (ev.filter (fun p => p.1 == oid)).map (·.2)

def pairList (j : Json) : List (Nat × Nat) :=
  match j with
  | .arr a => a.toList.filterMap (fun x => match natList x with | [p, q] => some (p, q) | _ => none)
  | _ => []

def resJ (r : St × Outcome) : Json :=
  let (o, kd) : String × Nat := match r.2 with
    | .ok => ("ok", 0) | .ret => ("ret", 0) | .raised k => ("raised", k)
  Json.mkObj [("outcome", o), ("kind", kd), ("handles", r.1.handles), ("detached", r.1.detached),
    ("fired", r.1.fired),
    ("trace", Json.arr (r.1.trace.reverse.map (fun p => Json.arr #[p.1, p.2])).toArray)]

def tokOf (p : Nat × Nat) : NmlVerif.Trunc.Tok :=
  match p.1 with
  | 0 => .op p.2 | 1 => .cl p.2 | 2 => .empty p.2 | _ => .text

/-- (entry id, skeleton, annotated without / with `mayRaise` zeros) -/
abbrev Tbl := List (Nat × Stmt × Thunk (A × A))

instance : Inhabited NmlVerif.TruncWs.Tree := ⟨.ws⟩

partial def treeOf (j : Json) : NmlVerif.TruncWs.Tree :=
  match j with
  | .arr a =>
    match (a[0]?.bind (·.getNat?.toOption)).getD 3 with
    | 0 => .node ((a[1]?.bind (·.getNat?.toOption)).getD 0)
        (match (a[2]? : Option Json) with | some (Json.arr ks) => ks.toList.map treeOf | _ => [])
    | 1 => .leaf ((a[1]?.bind (·.getNat?.toOption)).getD 0)
    | 2 => .text
    | _ => .ws
  | _ => .ws

def tokWs (p : Nat × Nat) : NmlVerif.TruncWs.Tok :=
  match p.1 with
  | 0 => .op p.2 | 1 => .cl p.2 | 2 => .empty p.2 | 3 => .text | _ => .ws

def restOf : Nat → NmlVerif.TruncWs.Rest
  | 0 => .boundary | 1 => .markup | 2 => .chars | _ => .blank

def handle (tbl : Tbl) (j : Json) : Json :=
  match getStr j "op" with
  | "truncws" =>
    let t := treeOf (getObj j "tree")
    let n := getNat j "trail"
    let stream := NmlVerif.TruncWs.tokens t ++ NmlVerif.TruncWs.trail n
    let sent := (pairList (getObj j "tokens")).map tokWs
    let cuts := pairList (getObj j "cuts")
    Json.mkObj [("layout", decide (stream = sent)), ("element", t.isElement),
      ("ntok", (NmlVerif.TruncWs.tokens t).length), ("whole", decide (NmlVerif.TruncWs.Complete stream)),
      ("complete", Json.arr (cuts.map (fun (k, r) =>
        Json.bool (decide (NmlVerif.TruncWs.Complete (NmlVerif.TruncWs.cut stream k (restOf r)))))).toArray)]
  | "trunc" =>
    let toks := (pairList (getObj j "tokens")).map tokOf
    let cuts := pairList (getObj j "cuts")
    Json.mkObj [("whole", decide (NmlVerif.Trunc.Complete toks)), ("ntok", toks.length),
      ("complete", Json.arr (cuts.map (fun (k, i) =>
        Json.bool (decide (NmlVerif.Trunc.Complete (NmlVerif.Trunc.cutTokens toks k (i != 0)))))).toArray)]
  | "unprotected" =>
    Json.mkObj [("entries", Json.arr (NmlVerif.Gen.Skeletons.skeletons.map (fun e =>
      Json.mkObj [("id", e.1), ("issues", Json.arr ((unprotected e.2).map (fun u =>
        Json.arr #[Json.str u.1.name, u.2])).toArray)])).toArray)]
  | _ =>
    let eid := getNat j "entry"
    match tbl.lookup eid with
    | none => Json.mkObj [("error", "unknown entry")]
    | some (s, anT) =>
      let an := anT.get
      let tr := pairList (getObj j "trace")
      let nat : Option (Nat × Nat) := match natList (getObj j "natural") with | [a, b] => some (a, b) | _ => none
      match findOracle an tr nat (getBool j "prefix") with
      | none => Json.mkObj [("matched", false)]
      | some ev =>
        let orc := oracleOfEv ev
        let clean := run s (St.init orc none 0)
        let faults := (pairList (getObj j "faults")).map (fun (k, kd) => resJ (run s (St.init orc (some k) kd)))
        Json.mkObj [("matched", true), ("clean", resJ clean), ("faults", Json.arr faults.toArray),
          ("oracle", Json.arr (ev.map (fun p => Json.arr #[p.1, p.2])).toArray)]

def main : IO Unit :=
  let tbl : Tbl := NmlVerif.Gen.Skeletons.skeletons.map
    (fun e => (e.1, e.2, Thunk.mk fun _ => (annotate false e.2, annotate true e.2)))
  loop (handle tbl)
