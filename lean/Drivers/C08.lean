import NmlVerif.Gen.Skeletons
import NmlVerif.Model.Trunc
import NmlVerif.DrvCommon
/-!
Line-protocol driver for C08.

  {"op":"unprotected"}
      -> {"entries":[{"id":3,"issues":[["mutateNoRestore",2], ...]}, ...]}
  {"op":"trunc","tokens":[[kind,tag],...],"cuts":[[k,inside],...]}   kind 0 `<t>` 1 `</t>` 2 `<t/>` 3 text
      -> {"whole":bool,"complete":[bool,...]}   `Complete (cutTokens tokens k inside)` for each cut
  {"op":"run","entry":2,"trace":[[site,eff],...],"natural":null | [site,kind],"faults":[[k,kind],...]}
      `trace` = the file-layer calls the real library made in a fault-free run (or, with `natural`, up to the
      point where the library raised by itself at `site` with exception class `kind`; or, with "prefix":true,
      up to and including a call in which the file layer itself raised).
      The driver searches an oracle under which `run` on the extracted skeleton makes exactly these calls
      (search is untrusted; the result is checked by running the verified model function), then runs the model
      with the fault injected at each requested call.
      -> {"matched":true,"clean":R,"faults":[R,...]}   R = {"outcome","kind","handles","detached","fired","trace"}
-/
open Lean NmlVerif.Fault Drv

abbrev Ev := List (Nat × Nat)

structure MS where
  tr : List (Nat × Nat)
  done : Bool
  returned : Bool
  ev : Ev

/-- symbols a statement can start with on its fault-free path (a raise of its own is the symbol `(site, 99)`) -/
partial def first : Stmt → List (Nat × Nat)
  | .call e site => [(site, e.code)]
  | .raise_ _ site => [(site, 99)]
  | .mayRaise _ site => [(site, 99)]
  | .mutate _ site => [(site, 8)]
  | .seq a b => if nullable a then first a ++ first b else first a
  | .loop _ b => first b
  | .choice _ a b => first a ++ first b
  | .tryFinally _ body fin => if nullable body then first body ++ first fin else first body
  | .tryExcept _ body _ _ _ => first body
  | .scope b => first b
  | _ => []
where
  nullable : Stmt → Bool
    | .call _ _ => false
    | .raise_ _ _ => false
    | .reraise _ => false
    | .mutate _ _ => false
    | .seq a b => nullable a && nullable b
    | .choice _ a b => nullable a || nullable b
    | .tryFinally _ body fin => nullable body && nullable fin
    | .tryExcept _ body _ _ _ => nullable body
    | .scope b => nullable b
    | _ => true

def viable (s : Stmt) (next : Option (Nat × Nat)) : Bool :=
  match next with
  | none => first.nullable s
  | some x => first.nullable s || (first s).contains x

abbrev M := StateM Nat

def orElseM (x : M (Option Ev)) (y : Unit → M (Option Ev)) : M (Option Ev) := do
  match ← x with
  | some r => return some r
  | none => y ()

/-- backtracking matcher with one symbol of look-ahead and a global step budget: find oracle events under
    which the skeleton's fault-free path makes the calls `tr` (the last symbol `(site, 99)` = the library raises
    by itself at `site`; `pre` = stop as soon as the trace is used up). -/
partial def matchS (natKind : Nat) (pre : Bool) : Stmt → MS → (MS → M (Option Ev)) → M (Option Ev)
  | s, m, k => do
    let fuel ← get
    if fuel == 0 then return none
    set (fuel - 1)
    if m.done || m.returned then k m   -- skipping to the end of the enclosing scope / of the run
    else
    match s with
    | .skip => k m
    | .call e site =>
      match m.tr with
      | (t, c) :: r =>
        if t == site && c == e.code then k { m with tr := r, done := pre && r.isEmpty } else return none
      | [] => return none
    | .raise_ _ site =>
      match m.tr with
      | [(t, 99)] => if t == site then k { m with tr := [], done := true } else return none
      | _ => return none
    | .reraise _ => return none
    | .mayRaise oid site =>
      match m.tr with
      | [(t, 99)] =>
        if t == site then
          orElseM (k { m with tr := [], done := true, ev := (oid, natKind + 1) :: m.ev })
            (fun _ => k { m with ev := (oid, 0) :: m.ev })
        else k { m with ev := (oid, 0) :: m.ev }
      | _ => k { m with ev := (oid, 0) :: m.ev }
    | .mutate _ site =>
      match m.tr with
      | (t, c) :: r => if t == site && c == 8 then k { m with tr := r } else return none
      | [] => return none
    | .restore _ => k m
    | .seq a b => matchS natKind pre a m (fun m' => matchS natKind pre b m' k)
    | .loop oid b =>
      let rec go (n : Nat) (m : MS) : M (Option Ev) :=
        let iterate : M (Option Ev) :=
          match m.tr.head? with
          | some x =>
            if (first b).contains x then
              matchS natKind pre b m (fun m' =>
                if m'.done || m'.returned then k { m' with ev := (oid, n + 1) :: m'.ev }
                else if m'.tr.length < m.tr.length then go (n + 1) m' else return none)
            else return none
          | none => return none
        orElseM iterate (fun _ => k { m with ev := (oid, n) :: m.ev })
      go 0 m
    | .choice oid a b =>
      let nx := m.tr.head?
      let ta : Unit → M (Option Ev) := fun _ =>
        if viable a nx then matchS natKind pre a { m with ev := (oid, 1) :: m.ev } k else return none
      let tb : Unit → M (Option Ev) := fun _ =>
        if viable b nx then matchS natKind pre b { m with ev := (oid, 0) :: m.ev } k else return none
      -- prefer the branch that can consume the next symbol
      if (match nx with | some x => !(first a).contains x && (first b).contains x | none => false) then
        orElseM (tb ()) ta
      else orElseM (ta ()) tb
    | .tryFinally _ body fin =>
      matchS natKind pre body m (fun m' =>
        if m'.done then k m' else
          let r := m'.returned
          matchS natKind pre fin { m' with returned := false }
            (fun m'' => k { m'' with returned := r || m''.returned }))
    | .tryExcept _ body _ _ _ => matchS natKind pre body m k
    | .scope b => matchS natKind pre b m (fun m' => k { m' with returned := false })
    | .ret => k { m with returned := true }
    | .unsupported _ => k m

def findOracle (s : Stmt) (tr : List (Nat × Nat)) (nat : Option (Nat × Nat)) (pre : Bool) : Option Ev :=
  let tr' := match nat with | some (site, _) => tr ++ [(site, 99)] | none => tr
  let natKind := match nat with | some (_, kd) => kd | none => 0
  let fin : MS → M (Option Ev) := fun m =>
    return (if m.tr.isEmpty && ((nat.isNone && !pre) || m.done) then some m.ev.reverse else none)
  ((matchS natKind pre s { tr := tr', done := false, returned := false, ev := [] } fin).run 300000).1

def oracleOfEv (ev : Ev) : Nat → List Nat := fun oid => (ev.filter (fun p => p.1 == oid)).map (·.2)

def pairList (j : Json) : List (Nat × Nat) :=
  match j with
  | .arr a => a.toList.filterMap (fun x => match natList x with | [p, q] => some (p, q) | _ => none)
  | _ => []

def resJ (r : St × Outcome) : Json :=
  let (o, kd) : String × Nat := match r.2 with
    | .ok => ("ok", 0) | .ret => ("ret", 0) | .raised k => ("raised", k)
  Json.mkObj [("outcome", o), ("kind", kd), ("handles", r.1.handles), ("detached", r.1.detached),
    ("fired", r.1.fired),
    ("trace", Json.arr (r.1.trace.reverse.map (fun p => Json.arr #[p.1, p.2])).toArray)]

def tokOf (p : Nat × Nat) : NmlVerif.Trunc.Tok :=
  match p.1 with
  | 0 => .op p.2 | 1 => .cl p.2 | 2 => .empty p.2 | _ => .text

def handle (j : Json) : Json :=
  match getStr j "op" with
  | "trunc" =>
    let toks := (pairList (getObj j "tokens")).map tokOf
    let cuts := pairList (getObj j "cuts")
    Json.mkObj [("whole", decide (NmlVerif.Trunc.Complete toks)), ("ntok", toks.length),
      ("complete", Json.arr (cuts.map (fun (k, i) =>
        Json.bool (decide (NmlVerif.Trunc.Complete (NmlVerif.Trunc.cutTokens toks k (i != 0)))))).toArray)]
  | "unprotected" =>
    Json.mkObj [("entries", Json.arr (NmlVerif.Gen.Skeletons.skeletons.map (fun e =>
      Json.mkObj [("id", e.1), ("issues", Json.arr ((unprotected e.2).map (fun u =>
        Json.arr #[Json.str u.1.name, u.2])).toArray)])).toArray)]
  | _ =>
    let eid := getNat j "entry"
    match NmlVerif.Gen.Skeletons.skeletons.lookup eid with
    | none => Json.mkObj [("error", "unknown entry")]
    | some s =>
      let tr := pairList (getObj j "trace")
      let nat : Option (Nat × Nat) := match natList (getObj j "natural") with | [a, b] => some (a, b) | _ => none
      match findOracle s tr nat (getBool j "prefix") with
      | none => Json.mkObj [("matched", false)]
      | some ev =>
        let orc := oracleOfEv ev
        let clean := run s (St.init orc none 0)
        let faults := (pairList (getObj j "faults")).map (fun (k, kd) => resJ (run s (St.init orc (some k) kd)))
        Json.mkObj [("matched", true), ("clean", resJ clean), ("faults", Json.arr faults.toArray),
          ("oracle", Json.arr (ev.map (fun p => Json.arr #[p.1, p.2])).toArray)]

def main : IO Unit := loop handle
