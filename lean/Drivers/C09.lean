import NmlVerif.Model.Factory
import NmlVerif.Gen.Members
import NmlVerif.DrvCommon
import Std.Data.HashMap
/-!
Driver for C09 (line protocol, see harness/props/c09.py).

  CALL = {"cls":str,"form":"str"|"class","kw":[[key,VAL]…],"flag":b,"cf":b,"cv":b,"oid":n,"fields":[[member,VAL]…]}
         cf: the real constructor raises ValueError on these keywords; cv: the real validate() accepts the component;
         fields: the member attributes the real constructor (and Cell setup) leaves behind (`Env.ctorValue`)
  {"op":"factory","en":b, CALL…}                        -> {"r":TAG,"landed":[member names set from keywords]}
  {"op":"session","init":b,"cmds":[["enable"]|["disable"]|["make",CALL]…]}
                                                          -> {"switch":b,"res":[TAG…]}
  {"op":"addtype","parent":OBJ,"calls":[{CALL…,"en":b,"hint":s|null,"force":b,"pv":b,"sok":b}…]}
                                                          -> {"res":[{"r":TAG,"w":…,"ret":oid|null,"ch":[[attr,CANON]…]}…]}
  TAG = "ok" | "err:attr" | "err:ctor" | "err:badArg:<key>" | "err:invalid" | "err:add:<tag>"
  VAL/OBJ/CANON as in Drivers/C10.lean.
-/
open Lean NmlVerif NmlVerif.Add NmlVerif.Factory Drv

def nameMap : Std.HashMap String Nat :=
  (Gen.Members.names.zipIdx).foldl (fun m (s, i) => m.insert s i) {}

def nNames : Nat := Gen.Members.names.length

def intern (s : String) : Nat :=
  match nameMap[s]? with
  | some i => i
  | none => nNames + 1 + s.toUTF8.foldl (fun acc b => acc * 257 + b.toNat + 1) 0

partial def decodeBytes (n : Nat) (acc : List UInt8) : List UInt8 :=
  if n == 0 then acc else decodeBytes ((n - 1) / 257) (UInt8.ofNat ((n - 1) % 257) :: acc)

def extern (i : Nat) : String :=
  if i < nNames then Gen.Members.names.getD i "?"
  else (String.fromUTF8? (ByteArray.mk (decodeBytes (i - nNames - 1) []).toArray)).getD "?"

instance : Inhabited Val := ⟨.none⟩
instance : Inhabited Obj := ⟨.mk 0 0 []⟩

mutual
partial def parseVal (j : Json) : Val :=
  match j with
  | .null => .none
  | .arr a =>
    match a.toList with
    | [.str "a", .str r, .bool t] => .atom r t
    | [.str "n", n] => .node ((n.getNat?.toOption).getD 0)
    | [.str "l", .arr items] => .list (items.toList.map parseVal)
    | .str "o" :: _ => .obj (parseObj j)
    | _ => .atom ("?" ++ j.compress) true
  | _ => .atom ("?" ++ j.compress) true
partial def parseObj (j : Json) : Obj :=
  match j with
  | .arr a =>
    match a.toList with
    | [.str "o", oid, .str cls, .arr fs] =>
      .mk ((oid.getNat?.toOption).getD 0) (intern cls)
        (fs.toList.map (fun f => match f with
          | .arr p => match p.toList with
            | [.str k, v] => (intern k, parseVal v)
            | _ => (0, .none)
          | _ => (0, .none)))
    | _ => .mk 0 0 []
  | _ => .mk 0 0 []
end

partial def canon : Val → Json
  | .none => .null
  | .atom r _ => Json.arr #["a", r]
  | .node n => Json.arr #["n", n]
  | .obj o => Json.arr #["o", o.oid]
  | .list l => Json.arr #["l", Json.arr (l.map canon).toArray]

def diff (before after : Obj) : List Json :=
  after.fields.filterMap (fun (k, v) =>
    let c := canon v
    match before.get k with
    | some w => if (canon w).compress == c.compress then none else some (Json.arr #[extern k, c])
    | none => some (Json.arr #[extern k, c]))

def parseKw (j : Json) : Kwargs :=
  (getArr j "kw").toList.map (fun f => match f with
    | .arr p => match p.toList with
      | [.str k, v] => (intern k, parseVal v)
      | _ => (0, .none)
    | _ => (0, .none))

def parseT (j : Json) : TypeArg :=
  if getStr j "form" == "class" then .byClass (intern (getStr j "cls")) else .byName (intern (getStr j "cls"))

def kwKey (cls : Nat) (kw : Kwargs) : String :=
  toString cls ++ ":" ++ String.intercalate "|" (kw.map (fun (k, v) => toString k ++ "=" ++ (canon v).compress))

def errTag : Factory.Err → String
  | .attrError => "err:attr"
  | .ctorValueError => "err:ctor"
  | .badArg k => "err:badArg:" ++ extern k
  | .invalid => "err:invalid"

def addErrTag : Add.Err → String
  | .noMember => "noMember" | .ambiguous => "ambiguous" | .badHint => "badHint"
  | .keyError => "keyError" | .notAList => "notAList" | .invalid => "invalid" | .strFails => "strFails"

def warnJ : Option Warn → Json
  | none => .null | some .occupied => "occupied" | some .duplicate => "duplicate"

def resTag : Except Factory.Err Obj → String
  | .ok _ => "ok"
  | .error e => errTag e

/-- environment from the bits the harness measured on the real library: per keyword list / per new object -/
def mkEnv (cf : List String) (valid : Obj → Bool) (fields : List (Nat × Val)) : Env where
  valid := valid
  ctorFails := fun cls kw => cf.contains (kwKey cls kw)
  ctorValue := fun _ n v => match lookup fields n with
    | some x => x
    | none => match v with | some x => x | none => .none
  cellCls := Gen.Members.cellCls
  setupCell := id

def parseFields (j : Json) : List (Nat × Val) :=
  (getArr j "fields").toList.map (fun f => match f with
    | .arr p => match p.toList with
      | [.str k, v] => (intern k, parseVal v)
      | _ => (0, .none)
    | _ => (0, .none))

def landed (o : Obj) : Json :=
  Json.arr (o.fields.filterMap (fun (k, v) => match v with
    | .none => none
    | .list [] => none
    | _ => some (Json.str (extern k)))).toArray

def handle (j : Json) : Json :=
  let T := Gen.Members.table
  match getStr j "op" with
  | "factory" =>
    let t := parseT j
    let kw := parseKw j
    let env := mkEnv (if getBool j "cf" then [kwKey t.resolve kw] else []) (fun _ => getBool j "cv") (parseFields j)
    let r := factory T env (getBool j "en") (getBool j "flag") t kw (getNat j "oid")
    Json.mkObj [("r", resTag r), ("landed", match r with | .ok o => landed o | .error _ => .null)]
  | "session" =>
    let calls := (getArr j "cmds").toList.filterMap (fun c => match c with
      | .arr a => if a[0]? == some (Json.str "make") then a[1]? else none
      | _ => none)
    let cf := calls.filterMap (fun c => if getBool c "cf" then some (kwKey (parseT c).resolve (parseKw c)) else none)
    let validOids := calls.filterMap (fun c => if getBool c "cv" then some (getNat c "oid") else none)
    let env := mkEnv cf (fun o => validOids.contains o.oid) []
    let cmds : List Cmd := (getArr j "cmds").toList.filterMap (fun c => match c with
      | .arr a =>
        match (a[0]? : Option Json) with
        | some (Json.str "enable") => some Cmd.enable
        | some (Json.str "disable") => some Cmd.disable
        | some (Json.str "make") =>
          (a[1]?).map (fun c => Cmd.make (getBool c "flag") (parseT c) (parseKw c) (getNat c "oid"))
        | _ => none
      | _ => none)
    let r := session T env (getBool j "init") cmds
    Json.mkObj [("switch", r.1), ("res", Json.arr (r.2.map (fun x => Json.str (resTag x))).toArray)]
  | "addtype" =>
    let step := fun (acc : Obj × List Json) (c : Json) =>
      let parent := acc.1
      let t := parseT c
      let kw := parseKw c
      let oid := getNat c "oid"
      let env := mkEnv (if getBool c "cf" then [kwKey t.resolve kw] else [])
        (fun o => if o.oid == oid then getBool c "cv" else getBool c "pv") (parseFields c)
      let hint := (getStr? c "hint").bind (fun s => if s.isEmpty then none else some (intern s))
      let r := addByType T env (fun _ => getBool c "sok") (getBool c "en") (getBool c "flag") parent t kw hint
                (getBool c "force") oid
      let tag := match r.result with
        | .ok _ => "ok"
        | .error (.inl e) => errTag e
        | .error (.inr .invalid) => "err:invalid"     -- the same ValueError("Validation failed…"), raised for the parent
        | .error (.inr e) => "err:add:" ++ addErrTag e
      let out := Json.mkObj [("r", tag), ("w", warnJ r.warn),
        ("ret", match r.result with | .ok o => Json.num o.oid | .error _ => .null),
        ("ch", Json.arr (diff parent r.parent).toArray)]
      (r.parent, out :: acc.2)
    let fin := (getArr j "calls").foldl step (parseObj (getObj j "parent"), [])
    Json.mkObj [("res", Json.arr fin.2.reverse.toArray)]
  | _ => Json.mkObj [("error", "unknown op")]

def main : IO Unit := loop handle
